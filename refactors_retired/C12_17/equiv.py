"""Equivalence digest for LSML (property C12).

Run from the worktree:
  cd /tmp/wt/RC12 && OMP_NUM_THREADS=1 OPENBLAS_NUM_THREADS=1 \
      PYTHONPATH=/tmp/wt/RC12 /venv/bin/python equiv.py > out.txt
Prints one line per case; numbers are printed with 11 significant digits
(compare with compare() below / to 1e-10 relative).
"""
import contextlib
import io
import sys
import warnings

import numpy as np
from sklearn.datasets import load_iris

from metric_learn import LSML, LSML_Supervised


def digest(a):
  a = np.asarray(a, dtype=float)
  return ' '.join('%.10e' % x for x in a.ravel())


def objective(est, quads, prior_inv):
  M = est.get_mahalanobis_matrix()
  vab = quads[:, 0] - quads[:, 1]
  vcd = quads[:, 2] - quads[:, 3]
  dab = np.einsum('ij,jk,ik->i', vab, M, vab)
  dcd = np.einsum('ij,jk,ik->i', vcd, M, vcd)
  hinge = np.maximum(np.sqrt(dab) - np.sqrt(dcd), 0) ** 2
  return est.w_.dot(hinge) + np.trace(M @ prior_inv) - np.linalg.slogdet(M)[1]


def run(name, make, fit_args, fit_kwargs=None, verbose_out=False):
  fit_kwargs = fit_kwargs or {}
  buf = io.StringIO()
  with warnings.catch_warnings(record=True) as rec:
    warnings.simplefilter('always')
    try:
      with contextlib.redirect_stdout(buf):
        est = make()
        est.fit(*fit_args, **fit_kwargs)
    except Exception as e:  # noqa
      print(name, 'EXC', type(e).__name__, str(e)[:200])
      print(name, 'warn', sorted({(w.category.__name__, str(w.message)[:80])
                                  for w in rec}))
      return None
  M = est.get_mahalanobis_matrix()
  print(name, 'n_iter', est.n_iter_, 'sym', bool(np.allclose(M, M.T)),
        'mineig', '%.6e' % np.linalg.eigvalsh((M + M.T) / 2).min())
  print(name, 'w', digest(est.w_[:6]), 'wsum', '%.10e' % est.w_.sum())
  print(name, 'M', digest(M))
  print(name, 'L', digest(est.components_))
  print(name, 'warn', sorted({(w.category.__name__, str(w.message)[:80])
                              for w in rec}))
  if verbose_out:
    lines = buf.getvalue().splitlines()
    print(name, 'nlines', len(lines))
    for ln in lines[:4] + lines[-3:]:
      toks = []
      for t in ln.split():
        try:
          toks.append('%.8e' % float(t))
        except ValueError:
          toks.append(t)
      print(name, 'out', ' '.join(toks))
  return est


def make_quads(rng, n, d, scale=1.0):
  X = rng.randn(40, d) * scale
  idx = rng.randint(0, 40, size=(n, 4))
  # no two identical points inside a pair
  idx[:, 1] = (idx[:, 0] + 1 + rng.randint(0, 38, n)) % 40
  idx[:, 3] = (idx[:, 2] + 1 + rng.randint(0, 38, n)) % 40
  return X[idx]


def main():
  rng = np.random.RandomState(0)
  q1 = make_quads(rng, 60, 3)
  q2 = make_quads(rng, 25, 5, scale=3.0)
  w_list = list(rng.uniform(0.5, 2.0, 60))
  w_arr = rng.uniform(1e3, 5e3, 25)
  spd = np.cov(rng.randn(30, 3), rowvar=False) + 0.5 * np.eye(3)

  e = run('id_noweights', lambda: LSML(), (q1,))
  print('obj', '%.10e' % objective(e, q1, np.eye(3)),
        'obj_prior', '%.10e' % (3.0 + np.mean(np.maximum(
            np.linalg.norm(q1[:, 0] - q1[:, 1], axis=1) -
            np.linalg.norm(q1[:, 2] - q1[:, 3], axis=1), 0) ** 2)))
  run('id_wlist', lambda: LSML(tol=1e-5), (q1,), {'weights': w_list})
  run('cov_warr', lambda: LSML(prior='covariance'), (q2,),
      {'weights': w_arr})
  # the caller's weights must not be modified
  print('w_arr_untouched', digest(w_arr[:3]))
  run('random', lambda: LSML(prior='random', random_state=7), (q2,))
  e = run('spd', lambda: LSML(prior=spd, tol=1e-6, max_iter=3000), (q1,),
          {'weights': w_list})
  print('obj_spd', '%.10e' % objective(e, q1, np.linalg.inv(spd)))
  run('verbose', lambda: LSML(verbose=True, max_iter=50), (q1,),
      verbose_out=True)
  run('maxiter2', lambda: LSML(verbose=True, max_iter=2, tol=1e-12), (q2,),
      verbose_out=True)
  run('bigtol', lambda: LSML(tol=1e6, verbose=True), (q1,), verbose_out=True)
  run('maxiter0', lambda: LSML(max_iter=0), (q1,))

  # all constraints already satisfied under the prior -> prior returned
  a = rng.randn(15, 3)
  sat = np.stack([a, a + 0.1 * rng.randn(15, 3), a, a + 5 + rng.rand(15, 3)],
                 axis=1)
  run('satisfied', lambda: LSML(verbose=True), (sat,), verbose_out=True)
  run('satisfied_spd', lambda: LSML(prior=spd), (sat,),
      {'weights': np.arange(1., 16.)})
  run('satisfied_tol0', lambda: LSML(tol=0.), (sat,))
  run('tol0', lambda: LSML(tol=0., max_iter=30), (q1,))
  # a single violated constraint, integer weights
  one = np.array([[[0., 0.], [3., 1.], [1., 1.], [1.5, 1.]]])
  run('single', lambda: LSML(), (one,), {'weights': [2]})
  # ties dab == dcd are not violations
  tie = np.array([[[0., 0.], [1., 0.], [2., 2.], [2., 3.]],
                  [[0., 0.], [2., 0.], [2., 2.], [2., 3.]]])
  run('tie', lambda: LSML(), (tie,))

  # c == d: zero reference distance -> non-finite gradient
  deg = q1.copy()
  deg[5, 3] = deg[5, 2]
  run('degenerate_cd', lambda: LSML(), (deg,))
  deg2 = q1.copy()
  deg2[5, 1] = deg2[5, 0]
  run('degenerate_ab', lambda: LSML(), (deg2,))

  # error paths
  run('bad_prior', lambda: LSML(prior='nope'), (q1,))
  run('bad_prior_and_weights', lambda: LSML(prior='nope'), (q1,),
      {'weights': ['a'] * 60})
  run('nonspd_prior', lambda: LSML(prior=-np.eye(3)), (q1,))
  run('bad_weights', lambda: LSML(), (q1,), {'weights': ['a'] * 60})
  run('short_weights', lambda: LSML(), (q1,), {'weights': [1., 2., 3.]})
  run('scalar_weights', lambda: LSML(), (q1,), {'weights': 2.0})
  run('col_weights', lambda: LSML(), (q1,), {'weights': np.ones((60, 1))})
  run('row_weights', lambda: LSML(), (q1,), {'weights': np.ones((1, 60))})
  run('neg_weights', lambda: LSML(max_iter=5), (q1,),
      {'weights': -np.ones(60)})
  run('zero_weights', lambda: LSML(max_iter=3), (q1,),
      {'weights': np.zeros(60)})
  run('triplets', lambda: LSML(), (q1[:, :3],))
  q_nan = q1.copy()
  q_nan[3, 2, 1] = np.nan
  run('nan_input', lambda: LSML(), (q_nan,))
  run('prior_shape', lambda: LSML(prior=np.eye(4)), (q1,))

  # preprocessor / indices
  X = rng.randn(30, 4)
  idx = np.array([rng.choice(30, 4, replace=False) for _ in range(40)])
  run('preproc', lambda: LSML(preprocessor=X, prior='covariance'), (idx,),
      {'weights': rng.uniform(0.1, 1, 40)})

  # supervised
  iris = load_iris()
  run('sup', lambda: LSML_Supervised(n_constraints=150, random_state=3),
      (iris.data, iris.target))
  run('sup_w', lambda: LSML_Supervised(
      n_constraints=80, random_state=5, prior='covariance',
      weights=np.linspace(1, 9, 80)), (iris.data, iris.target))
  run('sup_w_bad', lambda: LSML_Supervised(
      n_constraints=80, random_state=5, weights=np.ones(7)),
      (iris.data, iris.target))
  e = run('sup_int', lambda: LSML_Supervised(n_constraints=60,
                                              random_state=1),
          ((iris.data * 10).astype(np.uint8), iris.target))
  if e is not None:
    print('sup_int transform', digest(e.transform(iris.data[:2])))


def compare(fa, fb, rtol=1e-10):
  """Token-wise comparison of two digests: numbers to rtol (relative to the
  largest magnitude on the line), everything else exactly."""
  la, lb = open(fa).read().splitlines(), open(fb).read().splitlines()
  if len(la) != len(lb):
    print('DIFFERENT number of lines', len(la), len(lb))
    return 1
  worst, bad = 0.0, 0
  for a, b in zip(la, lb):
    ta, tb = a.split(), b.split()
    if len(ta) != len(tb):
      print('MISMATCH', a[:100], '|', b[:100])
      bad += 1
      continue
    nums = []
    for x, y in zip(ta, tb):
      try:
        nums.append((float(x), float(y)))
      except ValueError:
        if x != y:
          print('MISMATCH', a[:100], '|', b[:100])
          bad += 1
          break
    if nums:
      scale = max(max(abs(x), abs(y)) for x, y in nums) or 1.0
      err = max(abs(x - y) for x, y in nums) / scale
      worst = max(worst, err)
      if err > rtol:
        print('NUMERIC MISMATCH %.3e' % err, a[:80])
        bad += 1
  print('lines', len(la), 'mismatches', bad, 'worst rel err %.3e' % worst)
  return 1 if bad else 0


if __name__ == '__main__':
  if len(sys.argv) == 4 and sys.argv[1] == '--compare':
    sys.exit(compare(sys.argv[2], sys.argv[3]))
  main()
