"""Equivalence check for the input-validation code (property C06).

Run from the worktree:
  cd /tmp/wt/RC06 && OMP_NUM_THREADS=1 OPENBLAS_NUM_THREADS=1 \
      PYTHONPATH=/tmp/wt/RC06 /venv/bin/python equiv.py > out.txt
and diff the output of the unchanged tree against that of the variant.
Every line is a digest of one call: either a rounded result or the type and
text of the exception raised, followed by the warnings emitted.
"""
import hashlib
import warnings
import numpy as np

import metric_learn
from metric_learn import (NCA, LMNN, LFDA, RCA, MLKR, MMC, ITML, LSML, SCML,
                          Covariance, MMC_Supervised)
from metric_learn._util import (check_input, preprocess_tuples,
                                preprocess_points, check_tuple_size,
                                check_y_valid_values_for_pairs, ArrayIndexer,
                                _check_n_components, make_context, make_name,
                                make_error_input)

np.set_printoptions(precision=10, linewidth=200, threshold=50)


def digest(value):
  if isinstance(value, tuple):
    return '(' + ', '.join(digest(v) for v in value) + ')'
  if isinstance(value, np.ndarray):
    if value.dtype.kind in 'fc':
      body = np.round(value.astype(float), 9) + 0.0
    else:
      body = value
    if value.dtype.kind in 'OUS':
      raw = repr(value.tolist()).encode()
    else:
      raw = np.ascontiguousarray(body).tobytes()
    h = hashlib.md5(raw).hexdigest()[:10]
    return 'ndarray%s %s C=%s sum=%s md5=%s' % (
        value.shape, value.dtype, value.flags['C_CONTIGUOUS'],
        np.round(np.sum(body), 8) if value.dtype.kind in 'fiub' and value.size
        else '-', h)
  if isinstance(value, (float, np.floating)):
    return repr(round(float(value), 10))
  return repr(value)


def run(label, fun, *args, **kwargs):
  with warnings.catch_warnings(record=True) as rec:
    warnings.simplefilter('always')
    try:
      out = digest(fun(*args, **kwargs))
    except BaseException as e:  # noqa
      msg = str(e)
      out = 'RAISED %s.%s len=%d md5=%s :: %s' % (
          type(e).__module__, type(e).__name__, len(msg),
          hashlib.md5(msg.encode()).hexdigest()[:10],
          msg[:160].replace('\n', '\\n'))
  ws = sorted('%s:%s' % (w.category.__name__, str(w.message)[:80])
              for w in rec)
  print('%-46s %s%s' % (label, out, ('  WARN=' + repr(ws)) if ws else ''))


rng = np.random.RandomState(0)
X = rng.randn(12, 3)
Xi = rng.randint(-5, 5, size=(12, 3))
T2 = rng.randn(8, 2, 3)
T3 = rng.randn(8, 3, 3)
T4 = rng.randn(8, 4, 3)
ind1 = np.arange(12)[::-1].copy()
ind2 = rng.randint(0, 12, size=(8, 2))
ind3 = rng.randint(0, 12, size=(8, 3))
ypm = np.array([1, -1, 1, -1, 1, 1, -1, -1])
ycls = np.arange(12) % 3


class Named:
  pass


def bad_preprocessor(ind):
  raise RuntimeError('boom %d' % len(ind))


def flat_preprocessor(ind):       # returns 1D -> too few dimensions
  return np.asarray(ind, dtype=float)


def deep_preprocessor(ind):       # returns 3D -> too many dimensions
  return X[ind][:, :, None]


def scalar_preprocessor(ind):
  return np.float64(3.)


def list_preprocessor(ind):
  return X[ind].tolist()


indexer = ArrayIndexer(X)

print('## module', metric_learn.__name__)
print('## make_context / make_name')
for est in (None, 'NCA', NCA(), Named()):
  run('make_context', make_context, est)
  run('make_name', make_name, est)

print('## make_error_input')
for code in (100, 101, 111, 320, 200, 201, 211, 420):
  for ctx in ('', ' by NCA'):
    run('make_error_input %d %r' % (code, ctx), make_error_input, code,
        np.arange(3.), ctx)

print('## check_input classic')
classic_inputs = {
    'float2d': X, 'list': X.tolist(), 'int': Xi, 'fortran': np.asfortranarray(X),
    'noncontig': np.repeat(X, 2, axis=1)[:, ::2], 'rowslice': X[::2],
    'f32': X.astype(np.float32), 'bool': Xi > 0,
    '0d': np.float64(1.), '1d': X[:, 0], '1dind': ind1, '1dind_list': list(ind1),
    '3d': T2, '4d': T2[None], 'empty_s': X[:0], 'empty_f': X[:, :0],
    'empty1d': ind1[:0], 'nan': np.where(np.eye(12, 3) > 0, np.nan, X),
    'inf': np.where(np.eye(12, 3) > 0, np.inf, X),
    'ninf_last': np.where(np.eye(12, 3)[::-1, ::-1] > 0, -np.inf, X),
    'str': X.astype(str), 'obj': X.astype(object),
    'obj_bad': np.array([[1, 'a', 2.]] * 4, dtype=object),
    'ragged_none': None, 'string': 'abc', 'ind_oob': ind1 + 5,
    'ind_float': ind1.astype(float), 'complex': X + 1j,
}
preprocs = {'none': None, 'indexer': indexer, 'callable': lambda i: X[i],
            'bad': bad_preprocessor, 'flat': flat_preprocessor,
            'deep': deep_preprocessor, 'scalar': scalar_preprocessor,
            'list': list_preprocessor}
for pname, prep in preprocs.items():
  for name, data in classic_inputs.items():
    run('classic %s/%s' % (pname, name), check_input, data,
        preprocessor=prep, type_of_inputs='classic', estimator='NCA')
run('classic with y', check_input, X, ycls, type_of_inputs='classic')
run('classic with y list', check_input, X.tolist(), list(ycls))
run('classic with y ind', check_input, ind1, ycls, preprocessor=indexer)
run('classic y short', check_input, X, ycls[:-1])
run('classic y nan', check_input, X, np.where(ycls == 0, np.nan, 1.))
run('classic y 2d', check_input, X, np.c_[ycls, ycls])
run('classic y 2d multi', check_input, X, np.c_[ycls, ycls], multi_output=True)
run('classic y str numeric', check_input, X, ycls.astype(str), y_numeric=True)
run('classic y obj numeric', check_input, X, ycls.astype(object),
    y_numeric=True)
run('classic min_samples', check_input, X, ensure_min_samples=13)
run('classic min_features', check_input, X, ensure_min_features=4,
    estimator=NCA())
run('classic allow nan', check_input, classic_inputs['nan'],
    force_all_finite='allow-nan')
run('classic allow nan inf', check_input, classic_inputs['inf'],
    force_all_finite='allow-nan')
run('classic no finite', check_input, classic_inputs['inf'],
    force_all_finite=False)
run('classic copy', check_input, X, copy=True, order='F', dtype=np.float32)
run('classic dtype None str', check_input, X.astype(str), dtype=None)
run('unknown type', check_input, X, type_of_inputs='pairs')
run('unknown type y', check_input, X, ycls, type_of_inputs=None)
run('unknown type bad data', check_input, X, ycls[:3], type_of_inputs='foo')
run('unknown type nan', check_input, classic_inputs['nan'],
    type_of_inputs='foo')
try:
  import scipy.sparse as sp
  run('classic sparse refused', check_input, sp.csr_matrix(X))
  run('classic sparse ok', lambda: check_input(sp.csr_matrix(X),
                                               accept_sparse=True).toarray())
  run('tuples sparse', check_input, sp.csr_matrix(X), type_of_inputs='tuples',
      preprocessor=indexer)
  run('tuples sparse noprep', check_input, sp.csr_matrix(X),
      type_of_inputs='tuples')
except ImportError:
  pass

print('## check_input tuples')
tuple_inputs = {
    'pairs': T2, 'pairs_list': T2.tolist(), 'pairs_int': (T2 * 3).astype(int),
    'pairs_fortran': np.asfortranarray(T2),
    'pairs_noncontig': np.repeat(T2, 2, axis=2)[:, :, ::2],
    'pairs_swapped': np.swapaxes(np.swapaxes(T2, 0, 2).copy(), 0, 2),
    'triplets': T3, 'quadruplets': T4, 'size1': T4[:, :1], 'size5':
    np.concatenate([T4, T4[:, :1]], axis=1), 'size0': T4[:, :0],
    'ind2': ind2, 'ind2_list': ind2.tolist(), 'ind3': ind3,
    'ind_size0': ind2[:, :0], 'ind_oob': ind2 + 9, 'ind_float': ind2 * 1.,
    '0d': np.float64(2.), '1d': ind1, '4d': T2[None], 'empty_s': T2[:0],
    'empty_f': T2[:, :, :0], 'empty_ind': ind2[:0],
    'nan_first': np.where(np.arange(48).reshape(8, 2, 3) == 0, np.nan, T2),
    'inf_last': np.where(np.arange(48).reshape(8, 2, 3) == 47, np.inf, T2),
    'str': T2.astype(str), 'obj': T2.astype(object),
    'obj_bad': np.array([[[1, 'a']] * 2] * 3, dtype=object),
    'X2d': X, 'none': None,
}
for pname, prep in preprocs.items():
  for name, data in tuple_inputs.items():
    for ts in (None, 2):
      run('tuples %s/%s/ts=%s' % (pname, name, ts), check_input, data,
          preprocessor=prep, type_of_inputs='tuples', tuple_size=ts,
          estimator=Named())
for ts in (1, 2, 3, 4, 5):
  for name in ('pairs', 'triplets', 'quadruplets', 'ind2', 'ind3'):
    run('tuple_size %s ts=%d' % (name, ts), check_input, tuple_inputs[name],
        preprocessor=indexer, type_of_inputs='tuples', tuple_size=ts)
# ensure_min_features variations (3D feature check, and the "after
# preprocessor" error branch which is only reachable with min_features=0)
for mf in (0, 1, 3, 4):
  for pname in ('none', 'indexer', 'flat', 'deep'):
    for name in ('pairs', 'ind2', 'empty_f', 'empty_ind'):
      run('tuples minfeat=%d %s/%s' % (mf, pname, name), check_input,
          tuple_inputs[name], preprocessor=preprocs[pname],
          type_of_inputs='tuples', tuple_size=2, ensure_min_features=mf,
          estimator='MMC')
labels = {'pm': ypm, 'pm_float': ypm.astype(float), 'pm_list': list(ypm),
          '01': (ypm > 0).astype(int), 'bool': ypm > 0, 'two': ypm * 2,
          'zero': ypm * 0, 'half': ypm * .5, 'str': ypm.astype(str),
          'obj': ypm.astype(object), 'short': ypm[:-1], 'long': np.r_[ypm, 1],
          'nan': np.where(ypm > 0, np.nan, -1.), 'inf': ypm * np.inf,
          '2d': np.c_[ypm, ypm], 'empty': ypm[:0], 'uint': np.abs(ypm).astype(
              np.uint8), 'onlyneg': -np.abs(ypm), 'cplx': ypm * 1j}
for lname, lab in labels.items():
  for name in ('pairs', 'ind2', 'triplets', 'empty_s'):
    run('labels %s %s' % (lname, name), check_input, tuple_inputs[name], lab,
        preprocessor=indexer, type_of_inputs='tuples')
  run('labels %s multi' % lname, check_input, T2, lab, type_of_inputs='tuples',
      multi_output=True)
  run('check_y_valid %s' % lname, check_y_valid_values_for_pairs,
      np.asarray(lab))

print('## helpers')
for name in ('ind2', 'ind3', 'ind_size0', 'ind_oob', 'ind_float', 'X2d',
             'empty_ind'):
  for pname in ('indexer', 'callable', 'bad', 'flat', 'deep', 'scalar', 'list'):
    run('preprocess_tuples %s/%s' % (pname, name), preprocess_tuples,
        np.asarray(tuple_inputs[name]), preprocs[pname])
run('preprocess_tuples 1d', preprocess_tuples, ind1, indexer)
run('preprocess_tuples list', preprocess_tuples, ind2.tolist(), indexer)
run('preprocess_tuples mixed', preprocess_tuples, ind2,
    lambda i: X[i] if i[0] == ind2[0, 0] else X[i][:, :2])
for pname in ('indexer', 'callable', 'bad', 'flat', 'deep', 'scalar', 'list'):
  run('preprocess_points %s' % pname, preprocess_points, ind1, preprocs[pname])
  run('preprocess_points %s oob' % pname, preprocess_points, ind1 + 5,
      preprocs[pname])
for ts in (None, 1, 2, 3):
  run('check_tuple_size %s' % ts, check_tuple_size, T2, ts, ' by X')
for d, n in [(3, None), (3, 1), (3, 3), (3, 4), (3, 0), (3, -1), (3, 2.5),
             (3, 0.5), (3, float('nan')), (3, np.int64(2)), (3, True),
             (3, 'a'), (0, None), (0, 0), (0, 1)]:
  run('_check_n_components %r %r' % (d, n), _check_n_components, d, n)
for arr in (X, X.tolist(), Xi, 'abc', [[1, 'a']], [[1, 2], [3]], None, 3.,
            np.array([[np.nan, np.inf]]), T2, []):
  run('ArrayIndexer %s' % type(arr).__name__,
      lambda a=arr: ArrayIndexer(a)(np.array([0])))
run('ArrayIndexer call 2d', ArrayIndexer(X), ind2)
run('ArrayIndexer call oob', ArrayIndexer(X), ind2 + 20)
run('ArrayIndexer call float', ArrayIndexer(X), ind2 * 1.)

print('## estimators')
Xb = np.r_[rng.randn(15, 3) + 2, rng.randn(15, 3) - 2]
yb = np.r_[np.zeros(15, int), np.ones(15, int)]
pairs = rng.randint(0, 30, size=(20, 2))
pairs[:, 1] = (pairs[:, 0] + 1 + rng.randint(0, 28, size=20)) % 30
ypairs = np.where(yb[pairs[:, 0]] == yb[pairs[:, 1]], 1, -1)
trip = np.c_[rng.randint(0, 15, 20), rng.randint(0, 15, 20),
             rng.randint(15, 30, 20)]
trip[:, 1] = (trip[:, 0] + 1 + rng.randint(0, 13, 20)) % 15
quad = np.c_[trip[:, 0], trip[:, 1], trip[:, 0], trip[:, 2]]


def forms(Z):
  """equivalent array-likes"""
  Z = np.asarray(Z, dtype=float)
  yield 'c', Z
  yield 'list', Z.tolist()
  yield 'fortran', np.asfortranarray(Z)
  yield 'noncontig', np.repeat(Z, 2, axis=-1)[..., ::2]


def fit_digest(est, *args):
  est.fit(*args)
  if isinstance(est, LFDA):
    # LFDA uses ARPACK with a random start vector: the sign of the components
    # (and their last digits) change from run to run, so digest the metric
    return (np.round(est.get_mahalanobis_matrix(), 6), est.components_.shape,
            getattr(est, 'n_features_in_', None))
  return est.components_, getattr(est, 'n_features_in_', None)


for n_comp in (None, 1, 3, 0, 4, -1):
  for cls, kw in ((NCA, dict(max_iter=5, random_state=0)),
                  (LMNN, dict(max_iter=5, n_neighbors=2, random_state=0)),
                  (LFDA, dict(k=2)), (MLKR, dict(max_iter=5, random_state=0)),
                  (RCA, dict())):
    est = cls(n_components=n_comp, **kw)
    if cls is RCA:
      run('%s n_components=%s' % (cls.__name__, n_comp), fit_digest, est, Xb,
          np.arange(30) // 3)
    elif cls is MLKR:
      run('%s n_components=%s' % (cls.__name__, n_comp), fit_digest, est, Xb,
          yb * 1.5)
    else:
      run('%s n_components=%s' % (cls.__name__, n_comp), fit_digest, est, Xb,
          yb)

for prep in (None, 5, 'abc', {'a': 1}, Xb, Xb.tolist(), (lambda i: Xb[i]),
             np.float64(2.), [], Xb[:, 0], rng.randn(2, 2, 3)):
  nca = NCA(max_iter=3, random_state=0, preprocessor=prep)
  run('NCA prep=%s fit pts' % type(prep).__name__, fit_digest, nca, Xb, yb)
  nca = NCA(max_iter=3, random_state=0, preprocessor=prep)
  run('NCA prep=%s fit ind' % type(prep).__name__, fit_digest, nca,
      np.arange(30), yb)
  mmc = MMC(max_iter=3, preprocessor=prep)
  run('MMC prep=%s fit ind' % type(prep).__name__, fit_digest, mmc, pairs,
      ypairs)

for fname, Z in forms(Xb):
  nca = NCA(max_iter=5, random_state=0)
  run('NCA fit %s' % fname, fit_digest, nca, Z, yb)
  run('NCA transform %s' % fname, nca.transform, Z)
  cov = Covariance()
  run('Covariance fit %s' % fname, fit_digest, cov, Z)
for fname, Z in forms(Xb[pairs]):
  mmc = MMC(max_iter=5)
  run('MMC fit %s' % fname, fit_digest, mmc, Z, ypairs)
  for meth in ('pair_distance', 'pair_score', 'predict', 'decision_function'):
    run('MMC %s %s' % (meth, fname), getattr(mmc, meth), Z)
  run('MMC score_pairs %s' % fname, mmc.score_pairs, Z)
  run('MMC score %s' % fname, mmc.score, Z, ypairs)
  run('MMC calibrate %s' % fname,
      lambda: (mmc.calibrate_threshold(Z, ypairs), mmc.threshold_)[1])
for fname, Z in forms(Xb[trip]):
  scml = SCML(random_state=0, n_basis=20, max_iter=60, output_iter=20)
  run('SCML fit %s' % fname, fit_digest, scml, Z)
  run('SCML predict %s' % fname, scml.predict, Z)
  run('SCML decision_function %s' % fname, scml.decision_function, Z)
for fname, Z in forms(Xb[quad]):
  lsml = LSML(max_iter=5)
  run('LSML fit %s' % fname, fit_digest, lsml, Z)
  run('LSML predict %s' % fname, lsml.predict, Z)
  run('LSML score %s' % fname, lsml.score, Z)

nca = NCA(max_iter=5, random_state=0).fit(Xb, yb)
nca_p = NCA(max_iter=5, random_state=0, preprocessor=Xb).fit(np.arange(30), yb)
mmc = MMC(max_iter=5).fit(Xb[pairs], ypairs)
mmc_p = MMC(max_iter=5, preprocessor=Xb).fit(pairs, ypairs)
itml_p = ITML(max_iter=5, preprocessor=Xb).fit(pairs, ypairs)
scml_p = SCML(random_state=0, n_basis=20, max_iter=60, output_iter=20, preprocessor=Xb).fit(
    trip)
lsml_p = LSML(max_iter=5, preprocessor=Xb).fit(quad)
bad_points = {'ok': Xb[:4], 'ok_ind': np.arange(4), '0d': 1., '1d': Xb[0],
              '3d': Xb[pairs], '4d': Xb[pairs][None], 'empty_s': Xb[:0],
              'empty_f': Xb[:, :0], 'nan': np.where(np.eye(30, 3) > 0, np.nan,
                                                    Xb),
              'inf': Xb * np.inf, 'str': Xb.astype(str),
              'obj_bad': [[1, 'a', 2]], 'wrong_feat': Xb[:, :2],
              'wrong_feat5': np.c_[Xb, Xb[:, :2]], 'ind_oob': np.arange(40)}
for name, data in bad_points.items():
  run('NCA.transform %s' % name, nca.transform, data)
  run('NCAp.transform %s' % name, nca_p.transform, data)
  run('NCA.fit %s' % name, fit_digest, NCA(max_iter=3, random_state=0), data,
      yb[:4] if name.startswith('ok') else yb)
  run('NCAp.fit %s' % name, fit_digest,
      NCA(max_iter=3, random_state=0, preprocessor=Xb), data,
      yb[13:17] if name.startswith('ok') else yb)
bad_pairs = {'ok': Xb[pairs], 'ok_ind': pairs, '0d': 1., '1d': Xb[0],
             '2d': Xb, '4d': Xb[pairs][None], 'trip': Xb[trip], 'trip_ind':
             trip, 'quad': Xb[quad], 'size1': Xb[pairs][:, :1], 'size5':
             Xb[np.c_[quad, quad[:, 0]]], 'empty_s': Xb[pairs][:0],
             'empty_f': Xb[pairs][:, :, :0], 'empty_ind': pairs[:0],
             'nan': np.where(np.arange(120).reshape(20, 2, 3) == 119, np.nan,
                             Xb[pairs]),
             'inf': np.where(np.arange(120).reshape(20, 2, 3) == 0, -np.inf,
                             Xb[pairs]),
             'str': Xb[pairs].astype(str), 'obj_bad': [[[1, 'a', 2]] * 2],
             'wrong_feat': Xb[pairs][:, :, :2], 'ind_oob': pairs + 25,
             'ind_float': pairs * 1.}
for name, data in bad_pairs.items():
  for ename, est in (('MMC', mmc), ('MMCp', mmc_p), ('ITMLp', itml_p)):
    for meth in ('pair_distance', 'pair_score', 'score_pairs', 'predict',
                 'decision_function'):
      run('%s.%s %s' % (ename, meth, name), getattr(est, meth), data)
    run('%s.score %s' % (ename, name), est.score, data, ypairs)
    run('%s.calibrate %s' % (ename, name), est.calibrate_threshold, data,
        ypairs)
  for ename, est in (('SCMLp', scml_p), ('LSMLp', lsml_p)):
    for meth in ('pair_distance', 'pair_score', 'predict',
                 'decision_function'):
      run('%s.%s %s' % (ename, meth, name), getattr(est, meth), data)
    run('%s.score %s' % (ename, name), est.score, data)
  run('NCA.pair_distance %s' % name, nca.pair_distance, data)
  run('NCAp.pair_score %s' % name, nca_p.pair_score, data)
  run('MMC.fit %s' % name, fit_digest, MMC(max_iter=3), data, ypairs)
  run('MMCp.fit %s' % name, fit_digest, MMC(max_iter=3, preprocessor=Xb),
      data, ypairs)
  run('ITMLp.fit %s' % name, fit_digest, ITML(max_iter=3, preprocessor=Xb),
      data, ypairs)
  run('SCMLp.fit %s' % name, fit_digest,
      SCML(random_state=0, n_basis=20, max_iter=40, output_iter=20, preprocessor=Xb), data)
  run('LSMLp.fit %s' % name, fit_digest, LSML(max_iter=3, preprocessor=Xb),
      data)
for lname, lab in (('01', (ypairs > 0).astype(int)), ('two', ypairs * 2),
                   ('short', ypairs[:-1]), ('str', ypairs.astype(str)),
                   ('nan', ypairs * np.nan), ('float', ypairs * 1.),
                   ('2d', np.c_[ypairs, ypairs])):
  run('MMC.fit labels %s' % lname, fit_digest, MMC(max_iter=3), Xb[pairs], lab)
  run('MMCp.fit labels %s' % lname, fit_digest,
      MMC(max_iter=3, preprocessor=Xb), pairs, lab)
  run('MMC.score labels %s' % lname, mmc.score, Xb[pairs], lab)
  run('MMCp.calibrate labels %s' % lname, mmc_p.calibrate_threshold, pairs,
      lab)
run('MMC_Supervised fit', fit_digest,
    MMC_Supervised(max_iter=3, n_constraints=20, random_state=0), Xb, yb)
run('MMC_Supervised fit short y', fit_digest,
    MMC_Supervised(max_iter=3, n_constraints=20, random_state=0), Xb, yb[:-2])
run('MMC_Supervised fit prep', fit_digest,
    MMC_Supervised(max_iter=3, n_constraints=20, random_state=0,
                   preprocessor=Xb), np.arange(30), yb)
