"""Equivalence check (C01 round 2).  Run from the worktree:
  cd /tmp/wt/RC01 && OMP_NUM_THREADS=1 OPENBLAS_NUM_THREADS=1 \
    PYTHONPATH=/tmp/wt/RC01 /venv/bin/python /tmp/wt/refac/C01_<k>/equiv.py
Prints a digest (full-precision floats, reprs of exceptions and warnings);
the outputs of the unchanged tree and of the variant are compared with
compare.py (exact text, or numbers equal to 1e-10 relative).
"""
import warnings
import numpy as np
import metric_learn
from metric_learn import (Covariance, LFDA, NCA, MLKR, RCA_Supervised, LMNN,
                          ITML_Supervised, MMC_Supervised, LSML_Supervised,
                          SDML_Supervised, SCML_Supervised, ITML, MMC, LSML)
from metric_learn import _util
from sklearn.metrics import pairwise_distances

warnings.simplefilter('always')


def show(tag, value):
  if isinstance(value, np.ndarray) and value.dtype.kind not in 'biuf':
    print('%s shape=%s dtype=%s: %r' % (tag, value.shape, value.dtype,
                                        value.tolist()))
  elif isinstance(value, np.ndarray):
    body = ' '.join(repr(float(x)) for x in value.ravel())
    print('%s shape=%s dtype=%s: %s' % (tag, value.shape, value.dtype, body))
  else:
    print('%s: %r (%s)' % (tag, value, type(value).__name__))


def attempt(tag, fun, *args, **kwargs):
  with warnings.catch_warnings(record=True) as rec:
    warnings.simplefilter('always')
    try:
      out = fun(*args, **kwargs)
    except Exception as e:  # noqa
      print('%s raised %s: %s' % (tag, type(e).__name__,
                                  str(e).replace('\n', '|')[:300]))
      out = None
    else:
      show(tag, out)
  for w in rec:
    print('%s warned %s: %s' % (tag, w.category.__name__,
                                str(w.message)[:200]))
  return out


def make_data(seed, n=48, d=4, n_classes=3):
  rng = np.random.RandomState(seed)
  X = rng.randn(n, d) * rng.uniform(0.5, 3., size=d) + rng.randn(d)
  y = np.arange(n) % n_classes
  X = X + y[:, None] * rng.randn(n_classes, d)[y]
  return X, y


def query_pairs(seed, d):
  rng = np.random.RandomState(1000 + seed)
  P = rng.randn(9, 2, d)
  P[1, 1] = P[1, 0]                      # duplicated point
  P[2] *= 1e100                          # huge
  P[3] *= 1e-100                         # tiny
  P[4, 0] *= 1e50
  P[5] = P[5] + 1e6                      # far from the training range
  P[6, 1] = P[6, 0] * (1 + 1e-15)        # nearly duplicated
  return P


def learners():
  yield 'Covariance', Covariance(), 'sup'
  yield 'LFDA', LFDA(n_components=2), 'sup'
  yield 'NCA', NCA(max_iter=15, n_components=3, random_state=0), 'sup'
  yield 'MLKR', MLKR(max_iter=10, random_state=0), 'reg'
  yield 'LMNN', LMNN(n_neighbors=3, max_iter=10, random_state=0), 'sup'
  yield 'RCA_Supervised', RCA_Supervised(n_chunks=6, chunk_size=2,
                                         random_state=0), 'sup'
  yield 'ITML_Supervised', ITML_Supervised(n_constraints=40, max_iter=30,
                                           random_state=0), 'sup'
  yield 'MMC_Supervised', MMC_Supervised(n_constraints=30, max_iter=10,
                                         random_state=0), 'sup'
  yield 'MMC_Supervised_diag', MMC_Supervised(n_constraints=30, max_iter=10,
                                              diagonal=True,
                                              random_state=0), 'sup'
  yield 'LSML_Supervised', LSML_Supervised(n_constraints=40, max_iter=30,
                                           random_state=0), 'sup'
  yield 'SDML_Supervised', SDML_Supervised(n_constraints=40, prior='identity',
                                           balance_param=1e-5,
                                           sparsity_param=0.01,
                                           random_state=0), 'sup'
  yield 'SCML_Supervised', SCML_Supervised(max_iter=200, output_iter=50,
                                           random_state=0), 'sup'
  yield 'SCML_Supervised_rank0', SCML_Supervised(max_iter=500, n_basis=30,
                                                 output_iter=100,
                                                 random_state=0), 'sup'


def exercise(name, est, X, y, seed):
  d = X.shape[1]
  P = query_pairs(seed, d)
  # the sign of each row of L is arbitrary for eigen-solver based learners
  # (LFDA's flips from run to run): print L and the embedding up to that sign
  sgn = np.where(est.components_[:, :1] < 0, -1., 1.)
  show(name + ' components_ (row signs fixed)', est.components_ * sgn)
  dist = attempt(name + ' pair_distance', est.pair_distance, P)
  score = attempt(name + ' pair_score', est.pair_score, P)
  if dist is not None and score is not None:
    print(name, 'score==-dist', bool(np.array_equal(score, -dist)),
          'signbits', np.signbit(score).astype(int).tolist())
  rev = est.pair_distance(P[:, ::-1])
  print(name, 'symmetric', bool(np.array_equal(rev, dist)))
  attempt(name + ' pair_distance(list)', est.pair_distance, P[:3].tolist())
  attempt(name + ' pair_distance(int)', est.pair_distance,
          (P[7:9] * 10).astype(int))
  attempt(name + ' score_pairs', est.score_pairs, P[:2])
  f = est.get_metric()
  for i in range(len(P)):
    attempt(name + ' metric[%d]' % i, f, P[i, 0], P[i, 1])
    attempt(name + ' metric_rev[%d]' % i, f, P[i, 1], P[i, 0])
    attempt(name + ' metric_sq[%d]' % i, f, P[i, 0], P[i, 1], squared=True)
  attempt(name + ' metric(self)', f, P[0, 0], P[0, 0])
  # the returned function must not follow later changes of the learner
  saved = est.components_.copy()
  est.components_ *= 2.
  attempt(name + ' metric(after learner changed)', f, P[0, 0], P[0, 1])
  attempt(name + ' pair_distance(after learner changed)', est.pair_distance,
          P[:2])
  est.components_ = saved
  attempt(name + ' pairwise_distances(metric=f)',
          lambda: pairwise_distances(P[:4, 0], P[:3, 1], metric=f))
  print(name, 'metric name', f.__name__, f.__qualname__,
        (f.__doc__ or '')[:40].strip())
  attempt(name + ' metric(list)', f, P[0, 0].tolist(), tuple(P[0, 1]))
  attempt(name + ' metric(int)', f, [1] * d, [3] * d)
  attempt(name + ' metric(col)', f, P[0, 0][:, None], P[0, 1][None, :])
  attempt(name + ' metric(2d)', f, P[0], P[1])
  attempt(name + ' metric(wrong len)', f, P[0, 0][:-1], P[0, 1][:-1])
  attempt(name + ' metric(positional squared)', f, P[0, 0], P[0, 1], True)
  attempt(name + ' transform (signs fixed)',
          lambda Z: est.transform(Z) * sgn.T, P[:3, 0])
  attempt(name + ' mahalanobis', est.get_mahalanobis_matrix)
  # malformed queries
  attempt(name + ' pd(2d no preproc)', est.pair_distance, P[:, 0])
  attempt(name + ' pd(1d)', est.pair_distance, P[0, 0])
  attempt(name + ' pd(4d)', est.pair_distance, P[None])
  attempt(name + ' pd(triplets)', est.pair_distance,
          np.concatenate([P, P[:, :1]], axis=1))
  attempt(name + ' pd(nan)', est.pair_distance,
          np.where(np.arange(d) == 0, np.nan, P))
  attempt(name + ' pd(inf)', est.pair_distance,
          np.where(np.arange(d) == 1, np.inf, P))
  attempt(name + ' pd(overflowing difference)', est.pair_distance,
          np.array([[[1.7e308] * d, [-1.7e308] * d]]))
  attempt(name + ' pd(wrong n_features)', est.pair_distance, P[:, :, :-1])
  attempt(name + ' pd(empty)', est.pair_distance, np.empty((0, 2, d)))
  attempt(name + ' pd(strings)', est.pair_distance,
          [[['a'] * d, ['b'] * d]])


def main():
  for seed, d in [(0, 3), (1, 5)]:
    X, y = make_data(seed, n=12 * d, d=d)
    for name, est, kind in learners():
      name = '%s[d=%d]' % (name, d)
      target = X[:, 0] + 0.1 * y if kind == 'reg' else y
      with warnings.catch_warnings(record=True) as rec:
        warnings.simplefilter('always')
        try:
          est.fit(X, target)
        except Exception as e:  # noqa
          print(name, 'fit raised', type(e).__name__, str(e)[:200])
          continue
      for w in rec:
        print(name, 'fit warned', w.category.__name__, str(w.message)[:120])
      exercise(name, est, X, y, seed)

  # weakly supervised learners fed with tuples, and with a preprocessor
  X, y = make_data(2, n=40, d=4)
  rng = np.random.RandomState(5)
  idx = rng.randint(0, 40, size=(30, 2))
  idx = idx[idx[:, 0] != idx[:, 1]]
  labels = np.where(y[idx[:, 0]] == y[idx[:, 1]], 1, -1)
  for name, est in [('ITML', ITML(max_iter=20)),
                    ('MMC', MMC(max_iter=10)),
                    ('ITML+preproc', ITML(max_iter=20, preprocessor=X)),
                    ('MMC+preproc', MMC(max_iter=10, preprocessor=X))]:
    if 'preproc' in name:
      est.fit(idx, labels)
    else:
      est.fit(X[idx], labels)
    exercise(name, est, X, y, 3)
    attempt(name + ' pd(indices)', est.pair_distance, idx[:5])
    attempt(name + ' pd(1d indices)', est.pair_distance, idx[0])
    attempt(name + ' pd(3 indices)', est.pair_distance,
            np.column_stack([idx[:5], idx[:5, 0]]))
    attempt(name + ' pd(bad indices)', est.pair_distance, idx[:5] + 1000)
    attempt(name + ' transform(indices)', est.transform, idx[:5, 0])
    attempt(name + ' decision_function', est.decision_function, X[idx[:5]])
    attempt(name + ' predict', est.predict, X[idx[:5]])
  rng = np.random.RandomState(6)
  quads = X[rng.randint(0, 40, size=(25, 4))]
  est = LSML(max_iter=20).fit(quads)
  exercise('LSML', est, X, y, 4)

  # a preprocessor that does not return points
  bad = ITML(max_iter=5, preprocessor=lambda i: np.ones((len(i),)))
  attempt('bad preproc fit', bad.fit, idx, labels)
  bad = ITML(max_iter=5, preprocessor=lambda i: X[i][:, :, None])
  attempt('bad preproc fit 4d', bad.fit, idx, labels)

  # unfitted
  attempt('unfitted pair_distance', NCA().pair_distance, X[idx])
  attempt('unfitted get_metric', NCA().get_metric)

  # helpers of _util used on the way
  for M in [np.diag([4., 0., 1.]),
            np.array([[2., 1., 0.], [1., 2., 0.], [0., 0., 0.]]),
            np.array([[2., 1.], [1., 2.]]),
            np.array([[1., 2.], [2., 1.]]),
            np.diag([1., -1.]),
            np.array([[1., 2.], [0., 1.]]),
            np.outer([1., 2., 3.], [1., 2., 3.]),
            np.diag([1., -1e-20, 3.]),
            np.zeros((2, 2))]:
    attempt('components_from_metric', _util.components_from_metric, M)
    attempt('components_from_metric(tol)', _util.components_from_metric, M,
            tol=1e-3)
  attempt('components_from_metric(neg tol)', _util.components_from_metric,
          np.eye(2), tol=-1.)
  for u in [1, [1], [[1, 2, 3]], [[1], [2]], [[1, 2], [3, 4]], [], [[]],
            np.arange(3.), np.float32(2.), [[[5]]], 'a', None,
            np.zeros((1, 1, 3)), np.zeros((2, 1, 3))]:
    attempt('validate_vector(%r)' % (u,), _util.validate_vector, u)
  attempt('validate_vector(dtype)', _util.validate_vector, [1, 2], dtype=float)
  attempt('check_input(bad type)', _util.check_input, X, type_of_inputs='x')
  attempt('check_input(bad type, bad X)', _util.check_input, 'abc',
          type_of_inputs='x')
  attempt('check_input(classic,y)', _util.check_input, X[:4], y[:4])
  attempt('check_input(classic,y short)', _util.check_input, X[:4], y[:3])
  attempt('check_input(tuples,y)', _util.check_input, X[idx[:4]], labels[:4],
          type_of_inputs='tuples', tuple_size=2)
  attempt('check_input(tuples,bad y)', _util.check_input, X[idx[:4]],
          [0, 1, 1, 0], type_of_inputs='tuples', tuple_size=2,
          estimator='Foo')
  attempt('check_input(tuples, min_features)', _util.check_input, X[idx[:4]],
          type_of_inputs='tuples', ensure_min_features=7, estimator=NCA())
  attempt('check_input(tuples, min_samples)', _util.check_input, X[idx[:4]],
          type_of_inputs='tuples', ensure_min_samples=7)
  attempt('check_input(3d classic)', _util.check_input, X[idx[:4]])
  attempt('check_input(3d classic preproc)', _util.check_input, X[idx[:4]],
          preprocessor=_util.ArrayIndexer(X))
  attempt('check_input(1d classic)', _util.check_input, X[0])
  attempt('check_input(1d classic preproc)', _util.check_input, [0, 3],
          preprocessor=_util.ArrayIndexer(X))
  attempt('check_input(1d classic preproc->1d)', _util.check_input, [0, 3],
          preprocessor=_util.ArrayIndexer(y))
  attempt('check_input(4d tuples preproc)', _util.check_input, X[idx[:4]][None],
          type_of_inputs='tuples', preprocessor=_util.ArrayIndexer(X))
  attempt('check_input(2d tuples preproc->2d)', _util.check_input, idx[:4],
          type_of_inputs='tuples', preprocessor=_util.ArrayIndexer(y))
  attempt('check_input(2d tuples preproc->2d, no min features)',
          _util.check_input, idx[:4], type_of_inputs='tuples',
          preprocessor=_util.ArrayIndexer(y), ensure_min_features=0)
  attempt('check_input(1d tuples, no min features)',
          _util.check_input, idx[0], type_of_inputs='tuples',
          ensure_min_features=0, estimator='Bar')
  Y2 = np.column_stack([y[:4], y[:4]])
  attempt('check_input(classic, 2d y)', _util.check_input, X[:4], Y2)
  attempt('check_input(classic, 2d y, multi_output)', _util.check_input,
          X[:4], Y2, multi_output=True)
  attempt('check_input(classic, y_numeric)', _util.check_input,
          X[:4], ['1', '2', '3', '4'], y_numeric=True)
  attempt('check_input(classic, nan, allowed)', _util.check_input,
          np.where(X[:4] > 0, np.nan, X[:4]), y[:4],
          force_all_finite='allow-nan')
  attempt('check_input(classic, nan)', _util.check_input,
          np.where(X[:4] > 0, np.nan, X[:4]), y[:4])
  attempt('check_input(classic, copy, order, dtype)', _util.check_input,
          (X[:4] * 3).astype(int), copy=True, order='F', dtype=float)
  attempt('check_input(tuples, no tuple_size)', _util.check_input,
          X[idx[:4]][:, :1], type_of_inputs='tuples')

if __name__ == '__main__':
  print(metric_learn.__file__)
  main()
