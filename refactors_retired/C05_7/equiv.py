"""Equivalence digest for property C05 (indices + preprocessor == formed data).

Run from the worktree:
  cd /tmp/wt/RC05 && OMP_NUM_THREADS=1 OPENBLAS_NUM_THREADS=1 \
      PYTHONPATH=/tmp/wt/RC05 /venv/bin/python equiv.py > out.txt
The output on the unchanged tree and with the variant must be identical.
"""
import warnings
import numpy as np

from metric_learn import (Covariance, NCA, LFDA, RCA, MLKR, MMC, ITML, SCML,
                          LSML, MMC_Supervised, RCA_Supervised)
from metric_learn._util import (check_input, preprocess_points,
                                preprocess_tuples, make_error_input,
                                ArrayIndexer)
from metric_learn.exceptions import PreprocessorError

warnings.simplefilter('ignore')
np.set_printoptions(precision=9, suppress=True, linewidth=200)


def show(tag, value):
  if isinstance(value, tuple):
    for k, v in enumerate(value):
      show('%s[%d]' % (tag, k), v)
    return
  if isinstance(value, np.ndarray):
    if value.dtype.kind == 'f':
      flat = np.round(value.astype(float), 9).ravel()
      print(tag, value.shape, value.dtype, 'sum=%.9f' % flat.sum(),
            'head=', flat[:6])
    else:
      print(tag, value.shape, value.dtype, value.ravel()[:12])
  else:
    print(tag, repr(value))


def attempt(tag, fun, *args, **kwargs):
  with warnings.catch_warnings(record=True) as rec:
    warnings.simplefilter('always')
    try:
      out = fun(*args, **kwargs)
    except Exception as e:
      print(tag, 'RAISED', type(e).__name__, str(e)[:400].replace('\n', '|'))
      out = None
    else:
      show(tag, out)
  for w in rec:
    print(tag, 'WARNING', w.category.__name__, str(w.message)[:120])
  return out


rng = np.random.RandomState(42)
n, d = 36, 4
X = rng.randn(n, d) + np.repeat(np.arange(3), n // 3)[:, None] * 1.5
y = np.repeat(np.arange(3), n // 3)
y_reg = X[:, 0] * 2 - X[:, 1] + 0.1 * rng.randn(n)


def fun_preprocessor(indices):
  return X[np.asarray(indices)]


def bad_preprocessor(indices):
  raise RuntimeError('boom %d' % len(indices))


def flat_preprocessor(indices):
  # returns 1D things: formed "points" of the wrong dimension
  return np.asarray(indices, dtype=float)


def deep_preprocessor(indices):
  # one dimension too many
  return X[np.asarray(indices)][:, :, np.newaxis]


preprocessors = [('ndarray', X), ('list', X.tolist()),
                 ('callable', fun_preprocessor)]

# --------------------------------------------------------------- check_input
print('== check_input, classic')
idx = rng.randint(0, n, 25)
for name, dtype in [('int64', np.int64), ('int32', np.int32),
                    ('uint8', np.uint8), ('int16', np.int16)]:
  for pname, prep in [('indexer', ArrayIndexer(X)),
                      ('indexer_list', ArrayIndexer(X.tolist())),
                      ('callable', fun_preprocessor)]:
    attempt('classic %s %s' % (name, pname), check_input,
            idx.astype(dtype), preprocessor=prep)
attempt('classic list idx', check_input, idx.tolist(),
        preprocessor=ArrayIndexer(X))
attempt('classic formed, bad prep unused', check_input, X[idx],
        preprocessor=bad_preprocessor)
attempt('classic formed, no prep', check_input, X[idx], y[idx])
attempt('classic with y', check_input, idx, y[idx],
        preprocessor=ArrayIndexer(X), estimator='NCA')
attempt('classic 1D no prep', check_input, idx, estimator='NCA')
attempt('classic 1D no prep no est', check_input, idx)
attempt('classic 3D no prep', check_input, X[idx][None], estimator=NCA())
attempt('classic 3D prep', check_input, X[idx][None],
        preprocessor=ArrayIndexer(X), estimator=NCA())
attempt('classic 0D', check_input, 5)
attempt('classic 0D prep', check_input, 5, preprocessor=fun_preprocessor)
attempt('classic prep raises', check_input, idx,
        preprocessor=bad_preprocessor)
attempt('classic prep out of range', check_input, idx + 1000,
        preprocessor=ArrayIndexer(X))
attempt('classic prep float idx', check_input, idx.astype(float),
        preprocessor=ArrayIndexer(X))
attempt('classic prep gives 1D', check_input, idx,
        preprocessor=flat_preprocessor, estimator='LMNN')
attempt('classic prep gives 3D', check_input, idx,
        preprocessor=deep_preprocessor, estimator='LMNN')
attempt('classic min samples', check_input, idx[:1],
        preprocessor=ArrayIndexer(X), ensure_min_samples=2)
attempt('classic min features', check_input, idx,
        preprocessor=ArrayIndexer(X), ensure_min_features=7)
attempt('classic dtype float', check_input, idx,
        preprocessor=ArrayIndexer((X * 10).astype(int)), dtype=float)
attempt('classic nan', check_input, idx,
        preprocessor=ArrayIndexer(np.where(X > 3, np.nan, X)))
attempt('unknown type', check_input, idx, type_of_inputs='foo',
        preprocessor=ArrayIndexer(X))
attempt('unknown type + y', check_input, X, y, type_of_inputs='foo')
attempt('bad y length', check_input, X, y[:-1])
attempt('y_numeric', check_input, idx, y[idx].astype(object),
        preprocessor=ArrayIndexer(X), y_numeric=True)
attempt('multi_output', check_input, X, np.c_[y, y], multi_output=True)
attempt('multi_output off', check_input, X, np.c_[y, y])

print('== check_input, tuples')
for t in (2, 3, 4):
  tup = rng.randint(0, n, (15, t))
  for name, dtype in [('int64', np.int64), ('int8', np.int8),
                      ('uint16', np.uint16)]:
    for pname, prep in [('indexer', ArrayIndexer(X)),
                        ('indexer_list', ArrayIndexer(X.tolist())),
                        ('callable', fun_preprocessor)]:
      attempt('tuples t=%d %s %s' % (t, name, pname), check_input,
              tup.astype(dtype), type_of_inputs='tuples', preprocessor=prep,
              tuple_size=t)
  attempt('tuples t=%d formed bad prep unused' % t, check_input, X[tup],
          type_of_inputs='tuples', preprocessor=bad_preprocessor,
          tuple_size=t)
  attempt('tuples t=%d wrong size' % t, check_input, tup,
          type_of_inputs='tuples', preprocessor=ArrayIndexer(X),
          tuple_size=t + 1, estimator='MMC')
  attempt('tuples t=%d formed wrong size' % t, check_input, X[tup],
          type_of_inputs='tuples', tuple_size=t + 1)
  attempt('tuples t=%d no size' % t, check_input, tup.tolist(),
          type_of_inputs='tuples', preprocessor=ArrayIndexer(X))
pairs_idx = rng.randint(0, n, (15, 2))
y_pairs = np.where(rng.rand(15) > 0.5, 1, -1)
attempt('pairs with y', check_input, pairs_idx, y_pairs,
        type_of_inputs='tuples', preprocessor=ArrayIndexer(X), tuple_size=2)
attempt('pairs bad y', check_input, pairs_idx, np.arange(15),
        type_of_inputs='tuples', preprocessor=ArrayIndexer(X), tuple_size=2)
attempt('triplets any y', check_input, rng.randint(0, n, (15, 3)),
        np.arange(15), type_of_inputs='tuples', preprocessor=ArrayIndexer(X))
attempt('tuples 2D no prep', check_input, pairs_idx, type_of_inputs='tuples',
        estimator='ITML')
attempt('tuples 1D no prep', check_input, pairs_idx[:, 0],
        type_of_inputs='tuples', estimator='ITML')
attempt('tuples 1D prep', check_input, pairs_idx[:, 0],
        type_of_inputs='tuples', preprocessor=ArrayIndexer(X),
        estimator='ITML')
attempt('tuples 4D no prep', check_input, X[pairs_idx][None],
        type_of_inputs='tuples')
attempt('tuples 4D prep', check_input, X[pairs_idx][None],
        type_of_inputs='tuples', preprocessor=fun_preprocessor)
attempt('tuples 0D', check_input, 3, type_of_inputs='tuples')
attempt('tuples prep raises', check_input, pairs_idx,
        type_of_inputs='tuples', preprocessor=bad_preprocessor)
attempt('tuples prep out of range', check_input, pairs_idx + 500,
        type_of_inputs='tuples', preprocessor=ArrayIndexer(X))
attempt('tuples prep gives 1D, minfeat 0', check_input, pairs_idx,
        type_of_inputs='tuples', preprocessor=flat_preprocessor,
        ensure_min_features=0, estimator='SDML')
attempt('tuples prep gives 1D', check_input, pairs_idx,
        type_of_inputs='tuples', preprocessor=flat_preprocessor,
        estimator='SDML')
attempt('tuples prep gives 3D', check_input, pairs_idx,
        type_of_inputs='tuples', preprocessor=deep_preprocessor,
        estimator='SDML')
attempt('tuples prep returns list', check_input, pairs_idx,
        type_of_inputs='tuples',
        preprocessor=lambda i: X[np.asarray(i)].tolist())
attempt('tuples prep ragged', check_input, pairs_idx,
        type_of_inputs='tuples',
        preprocessor=lambda i: X[np.asarray(i)][:, :int(i[0]) % 3 + 1])
attempt('tuples min features', check_input, pairs_idx,
        type_of_inputs='tuples', preprocessor=ArrayIndexer(X),
        ensure_min_features=5, estimator='MMC')
attempt('tuples formed min features', check_input, X[pairs_idx],
        type_of_inputs='tuples', ensure_min_features=5)
attempt('tuples min samples', check_input, pairs_idx[:1],
        type_of_inputs='tuples', preprocessor=ArrayIndexer(X),
        ensure_min_samples=2)
attempt('tuples empty columns', check_input, np.zeros((5, 0), dtype=int),
        type_of_inputs='tuples', preprocessor=ArrayIndexer(X))
attempt('tuples empty rows', check_input, np.zeros((0, 2), dtype=int),
        type_of_inputs='tuples', preprocessor=ArrayIndexer(X))
attempt('tuples dtype float', check_input, pairs_idx, type_of_inputs='tuples',
        preprocessor=ArrayIndexer((X * 10).astype(int)), dtype=float)

print('== helpers')
attempt('preprocess_points', preprocess_points, idx, fun_preprocessor)
attempt('preprocess_points err', preprocess_points, idx, bad_preprocessor)
attempt('preprocess_tuples', preprocess_tuples, pairs_idx, fun_preprocessor)
attempt('preprocess_tuples 1D out', preprocess_tuples, pairs_idx,
        flat_preprocessor)
attempt('preprocess_tuples err', preprocess_tuples, pairs_idx,
        bad_preprocessor)
attempt('preprocess_tuples 1D in', preprocess_tuples, idx, fun_preprocessor)
for code in (100, 101, 111, 200, 201, 211, 320, 420):
  attempt('make_error_input %d' % code, make_error_input, code,
          np.arange(6).reshape(1, 2, 3), ' by FOO')
attempt('ArrayIndexer ragged', ArrayIndexer, [[1, 2], [3]])
attempt('ArrayIndexer 1D', lambda: ArrayIndexer([1., 2., 3.])(np.array([2, 0])))

# ---------------------------------------------------------------- estimators
print('== estimators: supervised / unsupervised (points)')
order = rng.permutation(n)
idx_fit = np.r_[order, order[:6]]          # repeats, arbitrary order
idx_new = rng.randint(0, n, 9).astype(np.int32)


def make_supervised():
  return [('Covariance', Covariance, {}, None),
          ('NCA', NCA, dict(max_iter=15), y),
          ('LFDA', LFDA, dict(k=3), y),
          ('MLKR', MLKR, dict(max_iter=10), y_reg),
          ('RCA', RCA, {}, y),
          ('RCA_Supervised', RCA_Supervised,
           dict(n_chunks=6, chunk_size=2, random_state=0), y),
          ('MMC_Supervised', MMC_Supervised,
           dict(n_constraints=30, max_iter=5, random_state=0), y)]


for ename, cls, params, target in make_supervised():
  for pname, prep in [('formed', None)] + preprocessors:
    model = cls(preprocessor=prep, **params)
    data = X[idx_fit] if prep is None else idx_fit
    fit_args = (data,) if target is None else (data, target[idx_fit])
    tag = '%s/%s' % (ename, pname)
    if attempt(tag + ' fit', lambda: type(model.fit(*fit_args)).__name__) \
       is None:
      continue
    show(tag + ' components', model.components_)
    new = X[idx_new] if prep is None else idx_new
    attempt(tag + ' transform', model.transform, new)
    attempt(tag + ' transform formed', model.transform, X[idx_new])
    pr = X[pairs_idx] if prep is None else pairs_idx
    attempt(tag + ' pair_distance', model.pair_distance, pr)
    attempt(tag + ' pair_score', model.pair_score, pr.tolist())
    attempt(tag + ' n_features_in_', lambda: model.n_features_in_)
  attempt(ename + ' idx no prep', cls(**params).fit,
          *((idx_fit,) if target is None else (idx_fit, target[idx_fit])))
  attempt(ename + ' bad prep', cls(preprocessor=bad_preprocessor,
                                   **params).fit,
          *((idx_fit,) if target is None else (idx_fit, target[idx_fit])))

print('== estimators: pairs')
pairs_fit = rng.randint(0, n, (40, 2))
pairs_fit = pairs_fit[pairs_fit[:, 0] != pairs_fit[:, 1]]
y_fit = np.where(y[pairs_fit[:, 0]] == y[pairs_fit[:, 1]], 1, -1)
pairs_new = rng.randint(0, n, (12, 2)).astype(np.int16)
y_new = np.where(y[pairs_new[:, 0]] == y[pairs_new[:, 1]], 1, -1)
for ename, cls, params in [('MMC', MMC, dict(max_iter=5)),
                           ('ITML', ITML, dict(max_iter=10))]:
  for pname, prep in [('formed', None)] + preprocessors:
    model = cls(preprocessor=prep, **params)
    form = (lambda a: X[a]) if prep is None else (lambda a: a)
    tag = '%s/%s' % (ename, pname)
    if attempt(tag + ' fit', lambda: type(
        model.fit(form(pairs_fit), y_fit)).__name__) is None:
      continue
    show(tag + ' components', model.components_)
    show(tag + ' threshold', float(np.round(model.threshold_, 9)))
    attempt(tag + ' predict', model.predict, form(pairs_new))
    attempt(tag + ' decision_function', model.decision_function,
            form(pairs_new))
    attempt(tag + ' score', model.score, form(pairs_new), y_new)
    attempt(tag + ' pair_distance', model.pair_distance, form(pairs_new))
    attempt(tag + ' pair_score', model.pair_score, X[pairs_new])
    attempt(tag + ' transform', model.transform, form(idx_new))
    attempt(tag + ' calibrate', lambda: (model.calibrate_threshold(
        form(pairs_new), y_new, strategy='f_beta', beta=1.),
        float(np.round(model.threshold_, 9)))[1])
    attempt(tag + ' predict triplets', model.predict,
            form(rng.randint(0, n, (4, 3))))
    attempt(tag + ' n_features_in_', lambda: model.n_features_in_)
  attempt(ename + ' idx no prep', cls(**params).fit, pairs_fit, y_fit)
  attempt(ename + ' bad prep', cls(preprocessor=bad_preprocessor,
                                   **params).fit, pairs_fit, y_fit)
  attempt(ename + ' bad labels', cls(preprocessor=X, **params).fit,
          pairs_fit, np.arange(len(pairs_fit)))
  attempt(ename + ' invalid prep type', cls(preprocessor=3.5, **params).fit,
          pairs_fit, y_fit)
  attempt(ename + ' invalid prep str', cls(preprocessor='abc', **params).fit,
          pairs_fit, y_fit)

print('== estimators: triplets / quadruplets')
trip_fit = np.array([[i, rng.choice(np.flatnonzero(y == y[i])),
                      rng.choice(np.flatnonzero(y != y[i]))]
                     for i in rng.randint(0, n, 40)])
trip_new = rng.randint(0, n, (10, 3)).astype(np.uint8)
quad_fit = np.array([[i, rng.choice(np.flatnonzero(y == y[i])),
                      i, rng.choice(np.flatnonzero(y != y[i]))]
                     for i in rng.randint(0, n, 40)])
quad_new = rng.randint(0, n, (10, 4)).astype(np.int64)
for ename, cls, params, fit_t, new_t in [
    ('SCML', SCML, dict(n_basis=20, max_iter=200, output_iter=50,
                        random_state=0), trip_fit, trip_new),
    ('LSML', LSML, dict(max_iter=10), quad_fit, quad_new)]:
  for pname, prep in [('formed', None)] + preprocessors:
    model = cls(preprocessor=prep, **params)
    form = (lambda a: X[a]) if prep is None else (lambda a: a)
    tag = '%s/%s' % (ename, pname)
    if attempt(tag + ' fit', lambda: type(
        model.fit(form(fit_t))).__name__) is None:
      continue
    show(tag + ' components', model.components_)
    attempt(tag + ' predict', model.predict, form(new_t))
    attempt(tag + ' decision_function', model.decision_function, form(new_t))
    attempt(tag + ' score', model.score, form(new_t))
    attempt(tag + ' pair_distance', model.pair_distance, form(pairs_new))
    attempt(tag + ' transform', model.transform, form(idx_new.tolist()))
    attempt(tag + ' predict pairs', model.predict, form(pairs_new))
  attempt(ename + ' idx no prep', cls(**params).fit, fit_t)
  attempt(ename + ' bad prep', cls(preprocessor=bad_preprocessor,
                                   **params).fit, fit_t)
  attempt(ename + ' invalid prep type', cls(preprocessor=7, **params).fit,
          fit_t)
print('done')
