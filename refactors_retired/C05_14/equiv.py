"""Equivalence digest for property C05 (indices + preprocessor are
interchangeable with formed points / tuples).

Run from the worktree:
  cd /tmp/wt/RC05 && OMP_NUM_THREADS=1 OPENBLAS_NUM_THREADS=1 \
      PYTHONPATH=/tmp/wt/RC05 /venv/bin/python /path/to/equiv.py > out.txt
and diff the output of the unchanged tree against the patched tree.
"""
import hashlib
import warnings

import numpy as np

warnings.simplefilter('ignore')

import metric_learn  # noqa: E402
from metric_learn import (Covariance, NCA, LFDA, MLKR, RCA_Supervised, ITML,
                          MMC, LSML, SCML, LMNN)  # noqa: E402
from metric_learn._util import (check_input, preprocess_points,
                                preprocess_tuples, make_context, make_name,
                                ArrayIndexer, check_tuple_size)  # noqa: E402


def dig(a):
  """short digest of an array (exact bytes + rounded view)"""
  if isinstance(a, tuple):
    return '(' + ', '.join(dig(x) for x in a) + ')'
  a = np.asarray(a)
  h = hashlib.sha1(np.ascontiguousarray(a).tobytes()).hexdigest()[:10]
  flat = a.ravel()[:4]
  if a.dtype.kind == 'f':
    flat = np.round(flat, 10)
    tot = repr(round(float(np.sum(a)), 8))
  else:
    tot = repr(a.sum().item() if a.size else 0)
  return '%s %s %s sum=%s head=%s' % (a.shape, a.dtype, h, tot, flat.tolist())


def attempt(label, fun):
  try:
    out = fun()
  except Exception as e:  # digest of the exception, including the cause
    cause = e.args[0] if e.args else None
    print(label, '-> EXC', type(e).__name__, repr(str(e))[:400],
          '| arg0:', type(cause).__name__)
    return None
  if out is None:
    print(label, '-> None')
  elif np.isscalar(out):
    print(label, '->', repr(out))
  else:
    print(label, '->', dig(out))
  return out


print('module:', metric_learn.__name__)
rng = np.random.RandomState(42)
X = rng.randn(40, 4) + np.repeat(np.arange(4), 10)[:, None]
y = np.repeat(np.arange(4), 10)
yreg = X[:, 0] + 0.1 * rng.randn(40)
Xl = X.tolist()


def fun_prep(idx):
  return X[idx]


class Counting:
  """callable preprocessor that records how it has been called"""
  def __init__(self):
    self.calls = []

  def __call__(self, idx):
    self.calls.append((np.asarray(idx).shape, str(np.asarray(idx).dtype)))
    return X[idx]


def bad_prep(idx):
  raise KeyError('boom %d' % len(idx))


def bad_second_column(idx):
  if idx[0] % 2:
    raise RuntimeError('odd first index')
  return X[idx]


preps = [('ndarray', lambda: X), ('list', lambda: Xl),
         ('callable', lambda: fun_prep), ('counting', Counting)]

idx = rng.randint(0, 40, 60)          # repeats, arbitrary order
idx[:40] = rng.permutation(40)        # every point at least once
idx_variants = [('int64', idx.astype(np.int64)), ('int32', idx.astype('i4')),
                ('uint8', idx.astype(np.uint8)), ('list', idx.tolist())]
pairs_idx = rng.randint(0, 40, (50, 2))
pairs_idx[:, 1] = (pairs_idx[:, 0] + 1 + rng.randint(0, 38, 50)) % 40
y_pairs = np.where(y[pairs_idx[:, 0]] == y[pairs_idx[:, 1]], 1, -1)
y_pairs[:4] = [1, -1, 1, -1]
trip_idx = np.array([rng.permutation(40)[:3] for _ in range(30)])
quad_idx = np.array([rng.permutation(40)[:4] for _ in range(30)])

# ---------------------------------------------------------------- supervised
sup = [('Covariance', lambda p: Covariance(preprocessor=p), y),
       ('NCA', lambda p: NCA(max_iter=5, preprocessor=p), y),
       ('LFDA', lambda p: LFDA(k=3, preprocessor=p), y),
       ('LMNN', lambda p: LMNN(n_neighbors=2, max_iter=5, preprocessor=p), y),
       ('MLKR', lambda p: MLKR(max_iter=5, preprocessor=p), yreg),
       ('RCA_S', lambda p: RCA_Supervised(n_chunks=6, chunk_size=2,
                                          random_state=0, preprocessor=p), y)]
for name, make, target in sup:
  for pname, pmake in preps:
    for iname, ind in idx_variants[:2] if pname != 'ndarray' else idx_variants:
      lab = '%s/%s/%s' % (name, pname, iname)
      p = pmake()
      est = make(p)
      t = np.asarray(target)[np.asarray(ind)]
      if attempt(lab + ' fit', lambda: est.fit(ind, t).components_) is None:
        continue
      attempt(lab + ' transform', lambda: est.transform(ind))
      attempt(lab + ' transform-formed', lambda: est.transform(X[:7]))
      attempt(lab + ' pair_distance', lambda: est.pair_distance(pairs_idx))
      attempt(lab + ' pair_score',
              lambda: est.pair_score(pairs_idx.astype(np.int16).tolist()))
      attempt(lab + ' pair_distance-formed',
              lambda: est.pair_distance(X[pairs_idx]))
      if isinstance(p, Counting):
        print(lab, 'calls', p.calls)
  # formed reference
  est = make(None)
  attempt(name + '/formed fit',
          lambda: est.fit(X[idx], np.asarray(target)[idx]).components_)

# --------------------------------------------------------------------- pairs
pair_learners = [('ITML', lambda p: ITML(max_iter=20, preprocessor=p)),
                 ('MMC', lambda p: MMC(max_iter=5, preprocessor=p))]
for name, make in pair_learners:
  for pname, pmake in preps:
    lab = '%s/%s' % (name, pname)
    p = pmake()
    est = make(p)
    pi = pairs_idx if pname != 'list' else pairs_idx.astype(np.uint16)
    if attempt(lab + ' fit',
               lambda: est.fit(pi, y_pairs).components_) is None:
      continue
    attempt(lab + ' threshold', lambda: est.threshold_)
    attempt(lab + ' predict', lambda: est.predict(pi))
    attempt(lab + ' decision_function',
            lambda: est.decision_function(pi.tolist()))
    attempt(lab + ' score', lambda: est.score(pi, y_pairs))
    attempt(lab + ' pair_distance', lambda: est.pair_distance(pi[::-1]))
    attempt(lab + ' calibrate',
            lambda: (est.calibrate_threshold(pi[:30], y_pairs[:30],
                                             strategy='f_beta', beta=2.),
                     est.threshold_)[1])
    attempt(lab + ' predict-formed', lambda: est.predict(X[pi]))
    attempt(lab + ' transform', lambda: est.transform(idx))
    if isinstance(p, Counting):
      print(lab, 'calls', p.calls)
  est = make(None)
  attempt(name + '/formed fit',
          lambda: est.fit(X[pairs_idx], y_pairs).components_)

# ------------------------------------------------------ triplets/quadruplets
for name, make, tidx in [
    ('SCML', lambda p: SCML(n_basis=20, max_iter=50, output_iter=10,
                            random_state=0,
                            preprocessor=p), trip_idx),
    ('LSML', lambda p: LSML(max_iter=10, preprocessor=p), quad_idx)]:
  for pname, pmake in preps:
    lab = '%s/%s' % (name, pname)
    p = pmake()
    est = make(p)
    ti = tidx if pname != 'list' else tidx.astype(np.int8).tolist()
    if attempt(lab + ' fit', lambda: est.fit(ti).components_) is None:
      continue
    attempt(lab + ' predict', lambda: est.predict(ti))
    attempt(lab + ' decision_function', lambda: est.decision_function(ti))
    attempt(lab + ' score', lambda: est.score(ti))
    attempt(lab + ' predict-formed', lambda: est.predict(X[np.asarray(ti)]))
    attempt(lab + ' pair_score', lambda: est.pair_score(pairs_idx))
    if isinstance(p, Counting):
      print(lab, 'calls', p.calls)
  est = make(None)
  attempt(name + '/formed fit', lambda: est.fit(X[tidx]).components_)

# -------------------------------------------------------------------- errors
print('--- errors')
attempt('bad callable points', lambda: NCA(preprocessor=bad_prep).fit(idx, y[idx]))
attempt('bad callable pairs',
        lambda: ITML(preprocessor=bad_prep).fit(pairs_idx, y_pairs))
attempt('bad second column',
        lambda: ITML(preprocessor=bad_second_column).fit(
            np.array([[0, 1], [2, 3], [4, 5]]), [1, -1, 1]))
attempt('out of range idx',
        lambda: Covariance(preprocessor=X).fit(np.array([0, 1, 99])))
attempt('out of range pairs',
        lambda: MMC(preprocessor=Xl).fit(np.array([[0, 1], [2, 99]]), [1, -1]))
attempt('float idx', lambda: Covariance(preprocessor=X).fit(
    np.array([0., 1., 2.])))
attempt('no preprocessor points', lambda: NCA().fit(idx, y[idx]))
attempt('no preprocessor pairs', lambda: ITML().fit(pairs_idx, y_pairs))
attempt('3D points with prep',
        lambda: NCA(preprocessor=X).fit(X[pairs_idx[:3]], [0, 1, 2]))
attempt('3D points without prep',
        lambda: NCA().fit(X[pairs_idx[:3]], [0, 1, 2]))
attempt('4D tuples with prep',
        lambda: ITML(preprocessor=X).fit(np.zeros((3, 2, 2, 2)), [1, -1, 1]))
attempt('1D tuples without prep',
        lambda: ITML().fit(np.arange(4), [1, -1, 1, -1]))
attempt('1D tuples with prep',
        lambda: ITML(preprocessor=X).fit(np.arange(4), [1, -1, 1, -1]))
attempt('prep returns 1D (points)',
        lambda: Covariance(preprocessor=X[:, 0]).fit(idx))
attempt('prep returns 3D (points)',
        lambda: Covariance(preprocessor=X[pairs_idx]).fit(idx[:20]))
attempt('prep returns 1D (tuples)',
        lambda: ITML(preprocessor=X[:, 0]).fit(pairs_idx, y_pairs))
attempt('prep returns 3D (tuples)',
        lambda: ITML(preprocessor=X[pairs_idx]).fit(pairs_idx, y_pairs))
attempt('invalid preprocessor int', lambda: NCA(preprocessor=3).fit(X, y))
attempt('invalid preprocessor str',
        lambda: ITML(preprocessor='abc').fit(pairs_idx, y_pairs))
attempt('wrong tuple size idx',
        lambda: ITML(preprocessor=X).fit(trip_idx, y_pairs[:30]))
attempt('wrong tuple size formed',
        lambda: LSML(preprocessor=fun_prep).fit(X[trip_idx]))
attempt('wrong pair labels',
        lambda: ITML(preprocessor=X).fit(pairs_idx, np.abs(y_pairs) * 2))
attempt('predict wrong size',
        lambda: ITML(max_iter=5, preprocessor=X).fit(
            pairs_idx, y_pairs).predict(trip_idx))
attempt('nan in prep',
        lambda: NCA(preprocessor=np.where(X > 3.9, np.nan, X)).fit(idx, y[idx]))
attempt('too few samples', lambda: NCA(preprocessor=X).fit([3], [0]))
attempt('empty pairs',
        lambda: ITML(preprocessor=X).fit(np.zeros((0, 2), dtype=int), []))


class CallableList(list):
  """array-like AND callable: must be treated as an array-like"""
  def __call__(self, indices):
    return 2 * X[indices]


from scipy.sparse import csr_matrix  # noqa: E402
attempt('callable list prep',
        lambda: Covariance(preprocessor=CallableList(Xl)).fit(idx).components_)
attempt('callable list prep pairs', lambda: ITML(
    max_iter=5, preprocessor=CallableList(Xl)).fit(pairs_idx,
                                                   y_pairs).components_)
attempt('sparse prep', lambda: Covariance(preprocessor=csr_matrix(X)).fit(idx))
attempt('bool idx', lambda: Covariance(preprocessor=X).fit(
    np.arange(40) % 3 == 0).components_)
attempt('negative idx', lambda: Covariance(preprocessor=Xl).fit(
    idx.astype(np.int16) - 40).components_)
attempt('negative pairs idx', lambda: MMC(max_iter=5, preprocessor=fun_prep).fit(
    pairs_idx - 40, y_pairs).decision_function(pairs_idx.astype(np.int8) - 40))
attempt('tuple preprocessor', lambda: Covariance(
    preprocessor=tuple(map(tuple, Xl))).fit(idx).components_)
attempt('zero-width tuples', lambda: check_input(
    np.zeros((3, 0), dtype=int), type_of_inputs='tuples',
    preprocessor=ArrayIndexer(X)))

# ---------------------------------------------------- direct helper calls
print('--- helpers')
ai = ArrayIndexer(Xl)
attempt('ArrayIndexer list', lambda: ai(idx))
attempt('ArrayIndexer 3D', lambda: ArrayIndexer(X[pairs_idx])(idx[:5] % 50))
attempt('preprocess_points', lambda: preprocess_points(idx, ai))
attempt('preprocess_tuples 2', lambda: preprocess_tuples(pairs_idx, ai))
attempt('preprocess_tuples 3', lambda: preprocess_tuples(trip_idx, fun_prep))
attempt('preprocess_tuples 4', lambda: preprocess_tuples(quad_idx, fun_prep))
attempt('preprocess_tuples 1D-returning',
        lambda: preprocess_tuples(pairs_idx, lambda i: X[i, 0]))
attempt('preprocess_tuples scalar-returning',
        lambda: preprocess_tuples(pairs_idx, lambda i: 3.))
attempt('preprocess_tuples ragged', lambda: preprocess_tuples(
    pairs_idx, lambda i: X[i] if i[0] == pairs_idx[0, 0] else X[i, :2]))
attempt('preprocess_tuples bad', lambda: preprocess_tuples(pairs_idx, bad_prep))
attempt('preprocess_points bad', lambda: preprocess_points(idx, bad_prep))
attempt('preprocess_tuples 1D input',
        lambda: preprocess_tuples(idx, fun_prep))
for args in [dict(type_of_inputs='classic'), dict(type_of_inputs='tuples'),
             dict(type_of_inputs='tuples', tuple_size=2),
             dict(type_of_inputs='tuples', tuple_size=3),
             dict(type_of_inputs='other'),
             dict(type_of_inputs='classic', ensure_min_features=9),
             dict(type_of_inputs='tuples', ensure_min_features=9),
             dict(type_of_inputs='tuples', ensure_min_features=0),
             dict(type_of_inputs='tuples', ensure_min_samples=99),
             dict(type_of_inputs='classic', dtype=None),
             dict(type_of_inputs='tuples', estimator='Foo'),
             dict(type_of_inputs='classic', estimator=NCA())]:
  for dname, data, lab_y in [('idx', idx, y[idx]), ('pairs_idx', pairs_idx,
                                                    y_pairs),
                             ('X', X, y), ('Xpairs', X[pairs_idx], y_pairs),
                             ('intX', (X * 10).astype(np.uint8), y),
                             ('4D', np.zeros((2, 2, 2, 2)), [1, -1]),
                             ('0D-ish', np.zeros((0,)), [])]:
    for prep in (None, ai, lambda i: X[i, 0]):
      pl = 'none' if prep is None else ('ai' if prep is ai else 'col0')
      lab = 'check_input %s %s prep=%s' % (sorted(args.items(), key=str),
                                           dname, pl)
      attempt(lab, lambda: check_input(data, preprocessor=prep, **args))
      attempt(lab + ' +y',
              lambda: check_input(data, lab_y, preprocessor=prep, **args))
for est in [None, 'NCA', NCA(), ITML(), 3]:
  print('context', repr(make_context(est)), repr(make_name(est)))
attempt('check_tuple_size', lambda: check_tuple_size(X[pairs_idx], 3, ' ctx'))
attempt('check_tuple_size ok', lambda: check_tuple_size(X[pairs_idx], 2, ''))
attempt('check_tuple_size none',
        lambda: check_tuple_size(X[pairs_idx], None, ''))
