"""Equivalence digest for the C06 refactoring variants.

Run from the worktree:
  cd /tmp/wt/RC06 && OMP_NUM_THREADS=1 OPENBLAS_NUM_THREADS=1 \
      PYTHONPATH=/tmp/wt/RC06 /venv/bin/python /tmp/wt/refac/C06_k/equiv.py > out.txt
on the unchanged tree and with the variant applied, then `diff` both outputs.

It exercises the input validation layer (check_input, check_input_classic,
check_input_tuples, make_error_input, check_tuple_size,
check_y_valid_values_for_pairs, ArrayIndexer, _check_n_components,
_prepare_inputs, _check_preprocessor) directly and through the public API of
several estimators, on fixed-seed inputs, and prints one line per call: either
a digest of the returned arrays (shape, dtype, rounded values) or the
exception type and message, plus any warning raised.
"""
import warnings
import numpy as np

import metric_learn
from metric_learn import (NCA, LFDA, Covariance, ITML, MMC, LSML, SCML,
                          ITML_Supervised)
from metric_learn import _util
from metric_learn._util import (check_input, make_error_input,
                                check_tuple_size,
                                check_y_valid_values_for_pairs, ArrayIndexer,
                                _check_n_components, preprocess_points,
                                preprocess_tuples)

np.set_printoptions(precision=8, suppress=False, linewidth=100,
                    threshold=60)


def digest(out):
  if isinstance(out, tuple):
    return '(' + ', '.join(digest(o) for o in out) + ')'
  if isinstance(out, np.ndarray):
    if out.dtype.kind in 'fc':
      vals = np.round(out.astype(float), 9).ravel()
      s = ' '.join('%.9g' % v for v in vals[:12])
      tot = '%.9g' % float(np.round(np.nansum(vals), 7))
    else:
      s = ' '.join(str(v) for v in out.ravel()[:12])
      tot = '-'
    return 'arr%s/%s/%s[%s|sum=%s]' % (out.shape, out.dtype,
                                       'C' if out.flags.c_contiguous else
                                       ('F' if out.flags.f_contiguous else
                                        'N'), s, tot)
  if isinstance(out, (float, np.floating)):
    return 'float:%.9g' % out
  return repr(out)


def run(label, fun, *args, **kwargs):
  with warnings.catch_warnings(record=True) as rec:
    warnings.simplefilter('always')
    try:
      res = 'OK ' + digest(fun(*args, **kwargs))
    except Exception as e:  # noqa
      res = 'EXC %s: %s' % (type(e).__name__, str(e).replace('\n', '\\n'))
  print('%s -> %s' % (label, res))
  for w in rec:
    print('    WARN %s: %s' % (w.category.__name__,
                               str(w.message).replace('\n', '\\n')))


rng = np.random.RandomState(42)
X = rng.randn(30, 4)
y = rng.randint(0, 3, 30)
pairs = rng.randn(20, 2, 4)
y_pairs = rng.choice([-1, 1], 20)
y_pairs[:2] = [-1, 1]
triplets = rng.randn(15, 3, 4)
quads = rng.randn(15, 4, 4)
idx_pairs = rng.randint(0, 30, (20, 2))
idx_pairs[:, 1] = (idx_pairs[:, 0] + 1 + rng.randint(0, 28, 20)) % 30
idx_points = rng.randint(0, 30, 12)

# --------------------------------------------------------------------------
print('## check_input, classic')
malformed_classic = {
    'scalar': 3.,
    '1d': X[:, 0],
    '2d': X,
    '2d_list': X.tolist(),
    '2d_int': (X * 10).astype(int),
    '2d_F': np.asfortranarray(X),
    '2d_noncontig': np.repeat(X, 2, axis=1)[:, ::2],
    '3d': pairs,
    '4d': pairs[None],
    'empty_rows': np.empty((0, 4)),
    'empty_cols': np.empty((5, 0)),
    'nan': np.where(np.arange(120).reshape(30, 4) == 7, np.nan, X),
    'inf': np.where(np.arange(120).reshape(30, 4) == 11, np.inf, X),
    'object': np.array([['a', 1.], [2., 'b']], dtype=object),
    'str': np.array([['a', 'b'], ['c', 'd']]),
    'numeric_str': np.array([['1', '2'], ['3', '4']]),
    'ragged': [[1., 2.], [3.]],
    'none': None,
}
for name, data in malformed_classic.items():
  for prep_name, prep in [('noprep', None), ('prep', ArrayIndexer(X))]:
    run('classic/%s/%s' % (name, prep_name), check_input, data,
        type_of_inputs='classic', preprocessor=prep, estimator='Foo')
run('classic/idx/prep', check_input, idx_points, preprocessor=ArrayIndexer(X))
run('classic/idx/prep_callable', check_input, idx_points,
    preprocessor=lambda i: X[i] * 2.)
run('classic/idx/prep_returns_1d', check_input, idx_points,
    preprocessor=lambda i: X[i, 0])
run('classic/idx/prep_returns_3d', check_input, idx_points,
    preprocessor=lambda i: pairs[:12], estimator=NCA())
run('classic/idx/prep_raises', check_input, idx_points,
    preprocessor=lambda i: 1 / 0)
run('classic/idx/prep_returns_nan', check_input, idx_points,
    preprocessor=lambda i: X[i] * np.nan)
run('classic/with_y', check_input, X, y)
run('classic/with_y_list', check_input, X.tolist(), y.tolist())
run('classic/with_y_short', check_input, X, y[:-1])
run('classic/with_y_nan', check_input, X, np.where(y == 1, np.nan, y))
run('classic/with_y_2d', check_input, X, np.c_[y, y])
run('classic/with_y_2d_multi', check_input, X, np.c_[y, y], multi_output=True)
run('classic/with_y_str_numeric', check_input, X, y.astype(str),
    y_numeric=True)
run('classic/min_samples', check_input, X[:1], y[:1], ensure_min_samples=2)
run('classic/min_features', check_input, X, ensure_min_features=5)
run('classic/dtype_float', check_input, (X * 10).astype(int), dtype=float,
    order='F', copy=True)
run('classic/allow_nan', check_input, malformed_classic['nan'],
    force_all_finite='allow-nan')
run('classic/allow_nan_inf', check_input, malformed_classic['inf'],
    force_all_finite='allow-nan')
run('bad_type_of_inputs', check_input, X, type_of_inputs='pairs')
run('bad_type_of_inputs_y', check_input, X, y, type_of_inputs=None)
run('bad_type_of_inputs_3d', check_input, malformed_classic['nan'],
    type_of_inputs='foo')

# --------------------------------------------------------------------------
print('## check_input, tuples')
malformed_tuples = {
    'scalar': 3.,
    '1d': X[:, 0],
    '2d': X,
    '2d_idx': idx_pairs,
    '3d': pairs,
    '3d_list': pairs.tolist(),
    '3d_int': (pairs * 10).astype(int),
    '3d_F': np.asfortranarray(pairs),
    '3d_noncontig': np.repeat(pairs, 2, axis=2)[:, :, ::2],
    '3d_triplets': triplets,
    '3d_quads': quads,
    '3d_size1': pairs[:, :1],
    '3d_size5': np.concatenate([quads, quads[:, :1]], axis=1),
    '4d': pairs[None],
    'empty_rows': np.empty((0, 2, 4)),
    'empty_tuple': np.empty((5, 0, 4)),
    'empty_feat': np.empty((5, 2, 0)),
    'nan': np.where(np.arange(160).reshape(20, 2, 4) == 9, np.nan, pairs),
    'inf': np.where(np.arange(160).reshape(20, 2, 4) == 159, -np.inf, pairs),
    'object': np.array([[['a', 1.], [2., 'b']]], dtype=object),
    'str': np.array([[['a', 'b'], ['c', 'd']]]),
}
for name, data in malformed_tuples.items():
  for prep_name, prep in [('noprep', None), ('prep', ArrayIndexer(X))]:
    for ts in (None, 2, 3):
      run('tuples/%s/%s/ts=%s' % (name, prep_name, ts), check_input, data,
          type_of_inputs='tuples', preprocessor=prep, tuple_size=ts,
          estimator=ITML())
run('tuples/min_features', check_input, pairs, type_of_inputs='tuples',
    ensure_min_features=5, estimator='Bar')
run('tuples/min_features0', check_input, malformed_tuples['empty_feat'],
    type_of_inputs='tuples', ensure_min_features=0, ensure_min_samples=0)
run('tuples/min_features0_rows0', check_input,
    malformed_tuples['empty_rows'], type_of_inputs='tuples',
    ensure_min_features=0, ensure_min_samples=0)
run('tuples/min_samples', check_input, pairs[:1], type_of_inputs='tuples',
    ensure_min_samples=2)
run('tuples/prep_returns_1d', check_input, idx_pairs, type_of_inputs='tuples',
    preprocessor=lambda i: X[i, 0])
run('tuples/prep_returns_1d_nomin', check_input, idx_pairs,
    type_of_inputs='tuples', preprocessor=lambda i: X[i, 0],
    ensure_min_features=0)
run('tuples/prep_returns_3d', check_input, idx_pairs, type_of_inputs='tuples',
    preprocessor=lambda i: pairs[:20], ensure_min_features=0)
run('tuples/prep_raises', check_input, idx_pairs, type_of_inputs='tuples',
    preprocessor=lambda i: {}[i])
run('tuples/prep_oob', check_input, idx_pairs + 100, type_of_inputs='tuples',
    preprocessor=ArrayIndexer(X))
run('tuples/prep_float_idx', check_input, idx_pairs.astype(float),
    type_of_inputs='tuples', preprocessor=ArrayIndexer(X))
label_sets = {
    'pm1': y_pairs, 'pm1_float': y_pairs.astype(float),
    'pm1_list': y_pairs.tolist(), '01': (y_pairs + 1) // 2,
    'with0': np.where(np.arange(20) == 3, 0, y_pairs),
    'with2': np.where(np.arange(20) == 19, 2, y_pairs),
    'half': y_pairs * 0.5, 'bool': y_pairs > 0,
    'all_true': np.ones(20, dtype=bool),
    'nan': np.where(np.arange(20) == 3, np.nan, y_pairs),
    'str': y_pairs.astype(str), 'object': y_pairs.astype(object),
    'short': y_pairs[:-1], '2d_col': y_pairs[:, None],
    'uint': np.ones(20, dtype=np.uint8),
    'almost': y_pairs * (1 + 1e-12),
}
for name, lab in label_sets.items():
  run('tuples/pairs_y/%s' % name, check_input, pairs, lab,
      type_of_inputs='tuples', tuple_size=2)
  run('tuples/idx_pairs_y/%s' % name, check_input, idx_pairs, lab,
      type_of_inputs='tuples', tuple_size=2, preprocessor=ArrayIndexer(X))
run('tuples/triplets_y_any', check_input, triplets, np.arange(15),
    type_of_inputs='tuples', tuple_size=3)
run('tuples/triplets_y_wrong_ts', check_input, triplets, np.ones(15),
    type_of_inputs='tuples', tuple_size=2)

# --------------------------------------------------------------------------
print('## small helpers')
for code in (100, 101, 111, 200, 201, 211, 320, 420, 120, 300, 401, 221):
  run('make_error_input/%d' % code, make_error_input, code, np.arange(3.),
      ' by Foo')
for code in (500, 130, 102, 10, 1000, '201', 20.1):
  run('make_error_input_bad/%r' % (code,), make_error_input, code,
      np.arange(3.), '')
for ts in (None, 2, 3, 0, 2.0, '2'):
  run('check_tuple_size/%r' % (ts,), check_tuple_size, pairs[:2], ts, ' ctx')
for name, lab in label_sets.items():
  run('check_y/%s' % name, check_y_valid_values_for_pairs, np.asarray(lab))
run('check_y/empty', check_y_valid_values_for_pairs, np.array([]))
run('check_y/2d', check_y_valid_values_for_pairs, np.ones((3, 2)))
run('check_y/scalar', check_y_valid_values_for_pairs, np.array(-1))
for nf, nc in [(4, None), (4, 1), (4, 4), (4, 5), (4, 0), (4, -1), (4, 2.5),
               (4, 4.0), (4, np.nan), (4, np.inf), (4, True), (4, False),
               (4, '2'), (4, np.int64(3)), (0, None), (0, 0), (0, 1),
               (4, [1]), (4, np.array([2])), (4, np.array([2, 9]))]:
  run('_check_n_components/%r/%r' % (nf, nc), _check_n_components, nf, nc)
for name, data in [('list', X.tolist()), ('arr', X), ('int', [[1, 2], [3, 4]]),
                   ('1d', [1., 2.]), ('3d', pairs), ('nan', [[np.nan, 1.]]),
                   ('str', [['a', 'b']]), ('empty', []), ('scalar', 2.),
                   ('ragged', [[1.], [1., 2.]]), ('none', None)]:
  run('ArrayIndexer/%s' % name,
      lambda d: ArrayIndexer(d)(np.array([0])), data)
run('ArrayIndexer/same_object', lambda: ArrayIndexer(X).X is X)
run('preprocess_points', preprocess_points, idx_points, ArrayIndexer(X))
run('preprocess_tuples', preprocess_tuples, idx_pairs, ArrayIndexer(X))

# --------------------------------------------------------------------------
print('## estimators')


def fitted_attrs(est):
  # (LFDA's sparse eigen-solver starts from a random vector: the sign of its
  # components is not reproducible from run to run, so we drop it)
  out = [np.abs(est.components_) if isinstance(est, LFDA)
         else est.components_]
  for a in ('n_features_in_', 'threshold_'):
    if hasattr(est, a):
      out.append(getattr(est, a))
  out.append(type(est.preprocessor_).__name__)
  return tuple(out)


def fit_digest(est, *args, **kw):
  est.fit(*args, **kw)
  return fitted_attrs(est)


# supervised, classic inputs
for name, data in malformed_classic.items():
  run('NCA.fit/%s' % name,
      lambda d: fit_digest(NCA(max_iter=5, random_state=0), d,
                           y[:len(d)] if hasattr(d, '__len__') else y), data)
run('NCA.fit/y_short', lambda: fit_digest(NCA(max_iter=5), X, y[:-2]))
run('NCA.fit/y_nan', lambda: fit_digest(
    NCA(max_iter=5), X, np.where(np.arange(30) == 2, np.nan, y)))
run('NCA.fit/one_sample', lambda: fit_digest(NCA(max_iter=5), X[:1], y[:1]))
for nc in (None, 1, 4, 0, 5, -1):
  run('NCA.fit/n_components=%r' % nc, lambda: fit_digest(
      NCA(max_iter=5, n_components=nc, random_state=0), X, y))
  run('LFDA.fit/n_components=%r' % nc, lambda: fit_digest(
      LFDA(n_components=nc, k=2), X, y))
for prep in (X, X.tolist(), (lambda i: X[i]), 'foo', 3, None,
             np.asfortranarray(X)):
  run('NCA.fit/idx/preprocessor=%s' % type(prep).__name__, lambda: fit_digest(
      NCA(max_iter=5, random_state=0, preprocessor=prep), np.arange(30), y))
  run('Covariance.fit/X/preprocessor=%s' % type(prep).__name__,
      lambda: fit_digest(Covariance(preprocessor=prep), X))

nca = NCA(max_iter=5, random_state=0).fit(X, y)
nca_prep = NCA(max_iter=5, random_state=0, preprocessor=X).fit(
    np.arange(30), y)
for name, data in malformed_classic.items():
  run('NCA.transform/%s' % name, nca.transform, data)
  run('NCA_prep.transform/%s' % name, nca_prep.transform, data)
run('NCA.transform/feature_mismatch', nca.transform, X[:, :3])
run('NCA_prep.transform/idx', nca_prep.transform, idx_points)
run('NCA_prep.transform/idx_list', nca_prep.transform, idx_points.tolist())
for name, data in malformed_tuples.items():
  run('NCA.pair_distance/%s' % name, nca.pair_distance, data)
  run('NCA.pair_score/%s' % name, nca.pair_score, data)
  run('NCA.score_pairs/%s' % name, nca.score_pairs, data)
  run('NCA_prep.pair_distance/%s' % name, nca_prep.pair_distance, data)
run('NCA.pair_distance/feature_mismatch', nca.pair_distance,
    pairs[:, :, :3])

# pairs learners
for name, data in malformed_tuples.items():
  run('ITML.fit/%s' % name, lambda d: fit_digest(
      ITML(max_iter=5), d,
      y_pairs[:len(d)] if hasattr(d, '__len__') else y_pairs), data)
  run('ITML_prep.fit/%s' % name, lambda d: fit_digest(
      ITML(max_iter=5, preprocessor=X), d,
      y_pairs[:len(d)] if hasattr(d, '__len__') else y_pairs), data)
for name, lab in label_sets.items():
  run('ITML.fit/y=%s' % name,
      lambda: fit_digest(ITML(max_iter=5), pairs, lab))
  run('MMC.fit/y=%s' % name,
      lambda: fit_digest(MMC(max_iter=3), pairs, lab))
itml = ITML(max_iter=5).fit(pairs, y_pairs)
itml_prep = ITML(max_iter=5, preprocessor=X.tolist()).fit(idx_pairs, y_pairs)
for name, data in malformed_tuples.items():
  for meth in ('predict', 'decision_function', 'pair_distance', 'pair_score',
               'score_pairs'):
    run('ITML.%s/%s' % (meth, name), getattr(itml, meth), data)
    run('ITML_prep.%s/%s' % (meth, name), getattr(itml_prep, meth), data)
  run('ITML.score/%s' % name, lambda d: itml.score(
      d, y_pairs[:len(d)] if hasattr(d, '__len__') else y_pairs), data)
  run('ITML.calibrate_threshold/%s' % name,
      lambda d: (itml.calibrate_threshold(
          d, y_pairs[:len(d)] if hasattr(d, '__len__') else y_pairs),
          itml.threshold_)[1], data)
for name, lab in label_sets.items():
  run('ITML.score/y=%s' % name, itml.score, pairs, lab)
  run('ITML_prep.score/y=%s' % name, itml_prep.score, idx_pairs, lab)
  run('ITML.calibrate_threshold/y=%s' % name,
      lambda: (itml.calibrate_threshold(pairs, lab), itml.threshold_)[1])
run('ITML.predict/feature_mismatch', itml.predict, pairs[:, :, :3])
run('ITML.transform/2d', itml.transform, X)
run('ITML.transform/feature_mismatch', itml.transform, X[:, :2])

# triplets / quadruplets learners
for name, data in malformed_tuples.items():
  run('SCML.fit/%s' % name, lambda d: fit_digest(
      SCML(random_state=0, n_basis=20, max_iter=50, output_iter=10), d), data)
  run('LSML.fit/%s' % name, lambda d: fit_digest(LSML(max_iter=5), d), data)
  run('LSML_prep.fit/%s' % name,
      lambda d: fit_digest(LSML(max_iter=5, preprocessor=X), d), data)
lsml = LSML(max_iter=5).fit(quads)
scml = SCML(random_state=0, n_basis=20, max_iter=50, output_iter=10).fit(triplets)
for name, data in malformed_tuples.items():
  run('LSML.predict/%s' % name, lsml.predict, data)
  run('LSML.decision_function/%s' % name, lsml.decision_function, data)
  run('LSML.score/%s' % name, lsml.score, data)
  run('SCML.predict/%s' % name, scml.predict, data)
  run('SCML.score/%s' % name, scml.score, data)
  run('LSML.pair_distance/%s' % name, lsml.pair_distance, data)

# supervised wrapper (goes through _prepare_inputs twice)
run('ITML_Supervised.fit', lambda: fit_digest(
    ITML_Supervised(n_constraints=30, max_iter=5, random_state=0), X, y))
run('ITML_Supervised.fit/list_int', lambda: fit_digest(
    ITML_Supervised(n_constraints=30, max_iter=5, random_state=0),
    (X * 10).astype(int).tolist(), y.tolist()))
run('ITML_Supervised.fit/nan', lambda: fit_digest(
    ITML_Supervised(n_constraints=30, max_iter=5, random_state=0),
    malformed_classic['nan'], y))
print('done', metric_learn.__file__)
