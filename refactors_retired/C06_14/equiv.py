"""Equivalence digest for property C06 (input validation) - round 3.

Run as:  cd /tmp/wt/RC06 && OMP_NUM_THREADS=1 OPENBLAS_NUM_THREADS=1 \
         PYTHONPATH=/tmp/wt/RC06 /venv/bin/python equiv.py
Prints one line per probe: either a digest of the returned arrays or the
type + message of the exception, plus the warnings raised.
"""
import hashlib
import warnings
import numpy as np
import scipy.sparse as sp
import metric_learn
from metric_learn import (Covariance, NCA, LFDA, MMC, ITML, LSML, SCML, RCA,
                          MLKR)
from metric_learn import _util
from metric_learn._util import (check_input, make_error_input, make_context,
                                make_name, check_tuple_size,
                                check_y_valid_values_for_pairs,
                                preprocess_tuples, preprocess_points,
                                ArrayIndexer, _check_n_components)

assert metric_learn.__file__.startswith('/tmp/wt/RC06/'), metric_learn.__file__


def dig(o):
  if isinstance(o, tuple):
    return '(' + ', '.join(dig(x) for x in o) + ')'
  if isinstance(o, np.ndarray):
    if o.dtype.kind in 'fc':
      body = np.array2string(np.round(o, 9).ravel()[:12], precision=9)
      s = float(np.nansum(np.where(np.isfinite(o), o, 0.)))
      return 'arr%s %s %s sum=%.9g flags=%s' % (
          o.shape, o.dtype, body, s, o.flags['C_CONTIGUOUS'])
    return 'arr%s %s %s' % (o.shape, o.dtype, o.ravel()[:12].tolist())
  return '%s:%r' % (type(o).__name__, o)


def probe(name, f, *a, **k):
  with warnings.catch_warnings(record=True) as w:
    warnings.simplefilter('always')
    try:
      out = 'OK ' + dig(f(*a, **k))
    except BaseException as e:  # noqa
      msg = str(e)
      out = 'EXC %s.%s len=%d md5=%s | %s' % (
          type(e).__module__, type(e).__name__, len(msg),
          hashlib.md5(msg.encode()).hexdigest()[:10],
          msg[:160].replace('\n', '\\n'))
  ws = sorted('%s:%s' % (x.category.__name__, str(x.message)[:80])
              for x in w)
  print('%-44s %s%s' % (name, out, (' WARN=' + repr(ws)) if ws else ''))


rng = np.random.RandomState(0)
X = rng.randn(12, 3)
yc = np.repeat([0, 1, 2], 4)
P = rng.randn(8, 2, 3)
yp = np.array([1, -1, 1, -1, 1, 1, -1, -1])
T3 = rng.randn(8, 3, 3)
Q = rng.randn(8, 4, 3)
Ip = rng.randint(0, 12, (8, 2))
Iq = rng.randint(0, 12, (8, 4))
Ipt = np.arange(12)


def pre_fun(idx):
  return X[idx]


def pre_1d(idx):            # returns one number per point -> 2D after stacking
  return X[idx][:, 0]


def pre_4d(idx):
  return X[idx][:, None, :]


def pre_bad(idx):
  raise RuntimeError('boom %d' % len(idx))


def pre_scalar(idx):
  return np.float64(3.)


def pre_ragged(idx):
  return X[idx][:len(idx) - (int(idx[0]) % 2)]


def mal(base):
  """grammar of malformations of an array"""
  out = {}
  b = np.array(base, dtype=float)
  out['ok'] = b
  out['list'] = b.tolist()
  out['int'] = np.round(b * 3).astype(np.int64)
  out['uint8'] = np.abs(np.round(b * 3)).astype(np.uint8)
  out['bool'] = b > 0
  out['F'] = np.asfortranarray(b)
  out['noncontig'] = np.repeat(b, 2, axis=-1)[..., ::2]
  out['f32'] = b.astype(np.float32)
  nan = b.copy(); nan.flat[5] = np.nan; out['nan'] = nan
  inf = b.copy(); inf.flat[-1] = -np.inf; out['inf'] = inf
  out['obj'] = b.astype(object)
  ob = b.astype(object); ob.flat[1] = 'a'; out['objstr'] = ob
  out['str'] = b.astype(str)
  out['empty0'] = b[:0]
  out['emptyF'] = b[..., :0]
  out['flat'] = b.ravel()
  out['scalar'] = 3.0
  out['up'] = b[None]
  out['up2'] = b[None, None]
  if b.ndim == 3:
    out['empty1'] = b[:, :0]
    for t in (1, 2, 3, 5):
      out['t%d' % t] = np.resize(b, (4, t, 3))
  return out


pres = [('none', None), ('arr', ArrayIndexer(X)), ('fun', pre_fun)]

# ---- 1. check_input directly ------------------------------------------------
for kind, base, ts in [('classic', X, None), ('tuples', P, 2),
                       ('tuples', T3, 3), ('tuples', Q, 4),
                       ('tuples', P, None)]:
  for mname, m in mal(base).items():
    for pname, pre in pres:
      probe('ci/%s/%s/ts%s/%s' % (kind, mname, ts, pname), check_input, m,
            type_of_inputs=kind, tuple_size=ts, preprocessor=pre,
            estimator='Est')
for pname, pre in pres + [('1d', pre_1d), ('4d', pre_4d), ('bad', pre_bad),
                          ('scalar', pre_scalar), ('ragged', pre_ragged)]:
  for emf in (0, 1, 4):
    probe('ci/idx/classic/%s/emf%d' % (pname, emf), check_input, Ipt,
          type_of_inputs='classic', preprocessor=pre,
          ensure_min_features=emf, estimator=NCA())
    probe('ci/idx/pairs/%s/emf%d' % (pname, emf), check_input, Ip,
          type_of_inputs='tuples', tuple_size=2, preprocessor=pre,
          ensure_min_features=emf, estimator=NCA())
    probe('ci/idx/quads/%s/emf%d' % (pname, emf), check_input, Iq,
          type_of_inputs='tuples', tuple_size=2, preprocessor=pre,
          ensure_min_features=emf)
  probe('ci/idx/oob/%s' % pname, check_input, Ip + 20, type_of_inputs='tuples',
        preprocessor=pre)
  probe('ci/idx/float/%s' % pname, check_input, Ip * 1.5,
        type_of_inputs='tuples', preprocessor=pre)
  probe('ci/idx/sparse/%s' % pname, check_input, sp.csr_matrix(Ip),
        type_of_inputs='tuples', preprocessor=pre)
  probe('ci/idx/sparse_cl/%s' % pname, check_input, sp.csr_matrix(X),
        type_of_inputs='classic', preprocessor=pre, accept_sparse=True)
for kind in ('classic', 'tuples', 'other', None, 3, ['classic'], ('tuples',)):
  probe('ci/type/%r' % (kind,), check_input, X, type_of_inputs=kind)
  probe('ci/type3/%r' % (kind,), check_input, P, yp, type_of_inputs=kind)
  probe('ci/typebad/%r' % (kind,), check_input, [[1, 'a']],
        type_of_inputs=kind)
labels = {'pm1': yp, 'list': yp.tolist(), 'float': yp * 1., 'zero': yp * 0,
          '01': (yp > 0).astype(int), 'bool': yp > 0, 'two': yp * 2,
          'nan': np.where(yp > 0, 1., np.nan), 'inf': yp * np.inf,
          'str': yp.astype(str), 'obj': yp.astype(object), 'short': yp[:-1],
          '2d': yp[:, None], '2d2': np.c_[yp, yp], 'uint': yp.astype(np.uint8),
          'i8': yp.astype(np.int8), 'cplx': yp * 1j, 'none_in': [1, None] * 4,
          'empty': []}
for lname, lab in labels.items():
  for dname, d, ts in [('P', P, 2), ('Ip', Ip, 2), ('T3', T3, 3), ('X', X, 0)]:
    kw = dict(type_of_inputs='tuples', tuple_size=ts) if ts else {}
    probe('ci/y/%s/%s' % (lname, dname), check_input, d[:8], lab,
          preprocessor=ArrayIndexer(X), **kw)
  probe('ci/y/%s/num' % lname, check_input, P, lab, type_of_inputs='tuples',
        y_numeric=True, multi_output=True)
for kw in [dict(dtype=None), dict(dtype=np.float32), dict(order='F'),
           dict(copy=True), dict(force_all_finite=False),
           dict(force_all_finite='allow-nan'), dict(ensure_min_samples=20),
           dict(ensure_min_features=4), dict(ensure_min_features=0),
           dict(accept_sparse=True), dict(dtype=[np.float64, np.float32])]:
  for dname, d, kind in [('X', X, 'classic'), ('Xint', mal(X)['int'],
                                               'classic'),
                         ('Xnan', mal(X)['nan'], 'classic'), ('P', P, 'tuples'),
                         ('Pnan', mal(P)['nan'], 'tuples'),
                         ('PemptyF', mal(P)['emptyF'], 'tuples'),
                         ('Ip', Ip, 'tuples')]:
    probe('ci/kw/%s/%s' % (sorted(kw.items()), dname), check_input, d,
          type_of_inputs=kind, preprocessor=pre_fun, **kw)

# ---- 2. small helpers --------------------------------------------------------
for code in (100, 101, 111, 200, 201, 211, 320, 420, 121, 300, 401, 999, 10,
             1000, 150, '101'):
  for ctx in ('', ' by NCA'):
    probe('mei/%s/%r' % (code, ctx), make_error_input, code, X[:2], ctx)
for est in (None, 'NCA', NCA(), Covariance(), 3, ''):
  probe('ctx/%r' % (est,), make_context, est)
  probe('name/%r' % (est,), make_name, est)
for ts in (None, 1, 2, 3, 0, 2.0, '2'):
  for d in (P, T3, Ip, X[0]):
    probe('cts/%r/%s' % (ts, np.shape(d)), check_tuple_size, d, ts, ' by Z')
for lname, lab in labels.items():
  probe('cy/%s' % lname, check_y_valid_values_for_pairs, lab)
  probe('cy/arr/%s' % lname, check_y_valid_values_for_pairs, np.asarray(lab))
for pname, pre in pres[1:] + [('1d', pre_1d), ('4d', pre_4d), ('bad', pre_bad),
                              ('scalar', pre_scalar), ('ragged', pre_ragged),
                              ('list', lambda i: X[i].tolist())]:
  probe('pt/%s' % pname, preprocess_tuples, Iq, pre)
  probe('pt/empty/%s' % pname, preprocess_tuples, Iq[:, :0], pre)
  probe('pt/one/%s' % pname, preprocess_tuples, Iq[:, :1], pre)
  probe('pp/%s' % pname, preprocess_points, Ipt, pre)
for a in (X, X.tolist(), mal(X)['nan'], mal(X)['objstr'], P, 3., [], X[:0],
          sp.csr_matrix(X), 'abc', None, [[1, 2], [3]]):
  probe('ai/%s' % type(a).__name__, lambda a=a: ArrayIndexer(a)([1, 0]))
for nf, nc in [(3, None), (3, 1), (3, 3), (3, 4), (3, 0), (3, -1), (3, 2.5),
               (3, np.int64(2)), (0, None), (0, 0), (3, 'a'), (3, np.nan)]:
  probe('ncomp/%r/%r' % (nf, nc), _check_n_components, nf, nc)

# ---- 3. estimators ----------------------------------------------------------


def fitted(make, *args):
  with warnings.catch_warnings():
    warnings.simplefilter('ignore')
    return make().fit(*args)


for pname, pre in [('none', None), ('arr', X), ('list', X.tolist()),
                   ('fun', pre_fun), ('bad', 3), ('str', 'abc'),
                   ('1d', pre_1d), ('nanarr', mal(X)['nan'])]:
  probe('est/cov/fit/%s' % pname,
        lambda: Covariance(preprocessor=pre).fit(Ipt).components_)
  probe('est/cov/fitX/%s' % pname,
        lambda: Covariance(preprocessor=pre).fit(X).transform(X[:3]))
  probe('est/mmc/fit/%s' % pname,
        lambda: MMC(preprocessor=pre, max_iter=5).fit(Ip, yp).components_)
  probe('est/lsml/fit/%s' % pname,
        lambda: LSML(preprocessor=pre, max_iter=5).fit(Iq).components_)
  probe('est/nfeat/%s' % pname,
        lambda: ITML(preprocessor=pre, max_iter=3).fit(Ip, yp).n_features_in_)

for mname, m in mal(X).items():
  probe('est/nca/fit/%s' % mname,
        lambda: NCA(max_iter=3).fit(m, yc[:np.shape(m)[0] if np.ndim(m) else 1]
                                    ).components_)
  probe('est/cov/fit/%s' % mname, lambda: Covariance().fit(m).components_)
  probe('est/lfda/fit/%s' % mname, lambda: np.abs(LFDA(k=2).fit(m, yc).components_))
cov = fitted(Covariance, X)
nca = fitted(lambda: NCA(max_iter=3, n_components=2), X, yc)
for mname, m in list(mal(X).items()) + [('feat2', X[:, :2]),
                                         ('feat4', np.c_[X, X[:, 0]])]:
  probe('est/cov/transform/%s' % mname, cov.transform, m)
  probe('est/nca/transform/%s' % mname, nca.transform, m)
mmc = fitted(lambda: MMC(max_iter=5), P, yp)
mmc_i = fitted(lambda: MMC(max_iter=5, preprocessor=X), Ip, yp)
lsml = fitted(lambda: LSML(max_iter=5), Q)
scml = fitted(lambda: SCML(n_basis=20, max_iter=5, output_iter=5, random_state=0), T3)
for mname, m in list(mal(P).items()) + [('feat2', P[:, :, :2]), ('idx', Ip),
                                         ('idxoob', Ip + 30)]:
  for meth in ('pair_distance', 'pair_score', 'score_pairs', 'predict',
               'decision_function'):
    probe('est/mmc/%s/%s' % (meth, mname), getattr(mmc, meth), m)
    if mname in ('ok', 'idx', 'idxoob', 'flat', 'up', 't3', 'nan', 'int'):
      probe('est/mmci/%s/%s' % (meth, mname), getattr(mmc_i, meth), m)
  probe('est/mmc/score/%s' % mname, mmc.score, m, yp[:4] if mname[0] == 't'
        else yp)
  probe('est/mmc/calib/%s' % mname,
        lambda: MMC(max_iter=5).fit(P, yp).calibrate_threshold(
            m, yp[:4] if mname[0] == 't' else yp))
  probe('est/mmc/fit/%s' % mname,
        lambda: MMC(max_iter=5).fit(m, yp[:4] if mname[0] == 't' else yp
                                    ).components_)
  probe('est/cov/pair_distance/%s' % mname, cov.pair_distance, m)
for mname, m in mal(Q).items():
  probe('est/lsml/fit/%s' % mname, lambda: LSML(max_iter=5).fit(m).components_)
  probe('est/lsml/predict/%s' % mname, lsml.predict, m)
  probe('est/lsml/score/%s' % mname, lsml.score, m)
for mname, m in mal(T3).items():
  probe('est/scml/predict/%s' % mname, scml.predict, m)
  probe('est/scml/fit/%s' % mname,
        lambda: SCML(n_basis=20, max_iter=5, output_iter=5, random_state=0).fit(m
                                                                  ).components_)
for lname, lab in labels.items():
  probe('est/mmc/fit/y/%s' % lname,
        lambda: MMC(max_iter=5).fit(P, lab).components_)
  probe('est/mmc/score/y/%s' % lname, mmc.score, P, lab)
  probe('est/itml/fit/y/%s' % lname,
        lambda: ITML(max_iter=3, preprocessor=X).fit(Ip, lab).components_)
for nc in (None, 1, 3, 4, 0, -2):
  probe('est/nca/ncomp/%r' % nc,
        lambda: NCA(max_iter=3, n_components=nc).fit(X, yc).components_)
  probe('est/lfda/ncomp/%r' % nc,
        lambda: np.abs(LFDA(k=2, n_components=nc).fit(X, yc).components_))
  probe('est/mlkr/ncomp/%r' % nc,
        lambda: MLKR(max_iter=3, n_components=nc).fit(X, yc * 1.).components_)
  probe('est/rca/ncomp/%r' % nc,
        lambda: RCA(n_components=nc).fit(X, yc).components_)
