"""Equivalence digest for property C09 (Covariance / RCA / LFDA closed forms).

Run from the worktree:
  cd /tmp/wt/RC09 && OMP_NUM_THREADS=1 OPENBLAS_NUM_THREADS=1 \
      PYTHONPATH=/tmp/wt/RC09 /venv/bin/python equiv.py > out.txt
Prints, for each fixed-seed scenario, the learned components_ (10 decimals;
LFDA rows sign-normalised), the warnings raised (category + message) or the repr of the exception.
"""
import warnings
import numpy as np
from metric_learn import Covariance, RCA, RCA_Supervised, LFDA

np.set_printoptions(precision=12, linewidth=200, suppress=False)


def _fix_signs(L):
  # ARPACK (eigsh) starts from a random vector, so the sign of each LFDA
  # eigenvector varies from run to run even on the unchanged tree: make the
  # entry of largest magnitude of every row positive.
  L = np.array(L, copy=True)
  for row in L:
    if np.all(np.isfinite(row)) and row.size:
      j = np.argmax(np.abs(row))
      if row[j] < 0:
        row *= -1
  return L


def run(name, make):
  with warnings.catch_warnings(record=True) as rec:
    warnings.simplefilter('always')
    try:
      est = make()
      L = np.asarray(est.components_)
      if name.startswith('lfda'):
        L = _fix_signs(L)
      out = np.array2string(L, precision=10,
                            floatmode='maxprec')
    except Exception as e:  # noqa
      out = 'EXC %s: %s' % (type(e).__name__, e)
  print('==', name)
  print(out)
  for w in rec:
    print('  W %s: %s' % (w.category.__name__, str(w.message)[:90]))


rng = np.random.RandomState(0)
X = rng.randn(40, 4) @ rng.randn(4, 4) + 3.0
Xint = rng.randint(0, 9, size=(30, 3))
y3 = np.repeat([0, 1, 2], [20, 15, 5])
ystr = np.array(['b'] * 12 + ['a'] * 20 + ['c'] * 8)
Xsing = np.hstack([X, X[:, :1] + X[:, 1:2]])      # singular covariance
X1 = rng.randn(10, 1)

# ---------------------------------------------------------------- Covariance
run('cov full', lambda: Covariance().fit(X))
run('cov singular', lambda: Covariance().fit(Xsing))
run('cov 1d', lambda: Covariance().fit(X1))
run('cov int', lambda: Covariance().fit(Xint))
run('cov const 1d', lambda: Covariance().fit(np.ones((5, 1))))
run('cov const 2d', lambda: Covariance().fit(np.ones((5, 2))))
run('cov one sample', lambda: Covariance().fit(X[:1]))
run('cov list', lambda: Covariance().fit(X[:6, :2].tolist()))

# ----------------------------------------------------------------------- RCA
chunks = np.array([0] * 6 + [1] * 10 + [-1] * 7 + [2] * 3 + [3] * 14)
perm = rng.permutation(40)
chunks_p = chunks[perm]
for nc in (None, 1, 2, 3, 4):
  run('rca n_components=%r' % nc,
      lambda: RCA(n_components=nc).fit(X, chunks_p))
run('rca no unknown', lambda: RCA().fit(X, np.arange(40) // 8))
run('rca gap chunk', lambda: RCA().fit(X, np.where(chunks_p == 2, 5, chunks_p)))
run('rca gap chunk nc2',
    lambda: RCA(n_components=2).fit(X, np.where(chunks_p == 2, 5, chunks_p)))
run('rca singular', lambda: RCA().fit(Xsing, chunks_p))
run('rca singular nc2', lambda: RCA(n_components=2).fit(Xsing, chunks_p))
run('rca int', lambda: RCA().fit(Xint, np.arange(30) % 4))
run('rca int nc1', lambda: RCA(n_components=1).fit(Xint, np.arange(30) % 4))
run('rca 1d', lambda: RCA().fit(X1, np.arange(10) // 5))
run('rca all unknown', lambda: RCA().fit(X, -np.ones(40, dtype=int)))
run('rca bad nc', lambda: RCA(n_components=9).fit(X, chunks_p))
run('rca float chunks', lambda: RCA().fit(X, chunks_p.astype(float)))
run('rca sup', lambda: RCA_Supervised(n_chunks=8, chunk_size=3,
                                      random_state=1
                                      ).fit(X, np.repeat([0, 1], 20)))
run('rca sup small', lambda: RCA_Supervised(n_chunks=1, chunk_size=2,
                                            random_state=1, n_components=2
                                            ).fit(X, np.repeat([0, 1], 20)))

# ---------------------------------------------------------------------- LFDA
for emb in ('weighted', 'orthonormalized', 'plain'):
  for nc in (None, 1, 3):
    for k in (None, 1, 2, 3):
      run('lfda %s nc=%r k=%r' % (emb, nc, k),
          lambda: LFDA(n_components=nc, k=k, embedding_type=emb).fit(X, y3))
run('lfda str labels', lambda: LFDA(k=2).fit(X, ystr))
run('lfda shuffled', lambda: LFDA(k=2, n_components=2).fit(X[perm], y3[perm]))
run('lfda k too large', lambda: LFDA(k=4).fit(X, y3))
run('lfda k float too large', lambda: LFDA(k=7.5).fit(X, y3))
run('lfda k float', lambda: LFDA(k=2.0, n_components=2).fit(X, y3))
run('lfda small class',
    lambda: LFDA(k=3, n_components=2).fit(
        X, np.repeat([0, 1, 2, 3], [18, 18, 2, 2])))
run('lfda singleton class',
    lambda: LFDA(k=2, n_components=2, embedding_type='plain').fit(
        X, np.repeat([0, 1, 2], [20, 19, 1])))
run('lfda int', lambda: LFDA(k=1, n_components=2).fit(Xint, np.arange(30) % 3))
run('lfda duplicates',
    lambda: LFDA(k=1, n_components=2, embedding_type='orthonormalized').fit(
        np.vstack([X[:10], X[:10], X[10:30]]), np.repeat([0, 1], 20)))
run('lfda bad nc', lambda: LFDA(n_components=7).fit(X, y3))
run('lfda 1d', lambda: LFDA().fit(X1, np.arange(10) % 2))
try:
  LFDA(embedding_type='foo')
except Exception as e:  # noqa
  print('== lfda bad emb\nEXC %s: %s' % (type(e).__name__, e))
