#!/usr/bin/env python3
"""Generate /verif/MANIFEST.json from the table below (single source of truth)."""
import json, os, sys
HERE = os.path.dirname(os.path.dirname(os.path.abspath(__file__)))
sys.path.insert(0, HERE)
from manifest_table import CHECKS, NOT_APPLICABLE, NOTES  # noqa

checks = []
for pid, c in sorted(CHECKS.items()):
    checks.append({
        'property_id': pid,
        'quick_cmd': './check %s --tier quick' % pid,
        'thorough_cmd': './check %s --tier thorough' % pid,
        'evidence_file': '/verif/evidence/%s.json' % pid,
        'replay_cmd_template': './check %s --replay {path}' % pid,
        'engine': 'mlstatic',
        'level_claimed': {'category': 'other', 'text': c['text'],
                          'design_ref': c.get('design_ref', 'DESIGN.md section 4, ' + pid)},
        'level_note': c['note'],
        'technique': c['technique'],
    })
m = {
    'version': 1,
    'setup_cmd': 'cd /verif && /venv/bin/python -B -c "import ast, inspect, mlstatic.cli"',
    'hooks': {
        'guard': 'METRIC_LEARN_VERIF',
        'enable': 'no hooks: the checks are static (they parse /repo/metric_learn on every run and never import or run it); the guard variable is reserved and unused',
        'baseline_off_cmd': 'cd /verif && /venv/bin/python tools/baseline.py',
        'source_commits': [],
        'add_only': True,
    },
    'engines': [{
        'name': 'mlstatic',
        'path': '/verif/mlstatic',
        'serves_properties': sorted(CHECKS),
        'kind_free_text': 'repository-specific static analyser: ast program model (imports, C3 MRO, call resolution), structured abstract interpreter with path conditions, domains (tags/events, algebra, freshness, frames, shapes, signs), library-signature conformance',
    }],
    'checks': checks,
    'notes': NOTES,
    'not_applicable': [{'property_id': k, 'reason': v} for k, v in sorted(NOT_APPLICABLE.items())],
}
json.dump(m, open(os.path.join(HERE, 'MANIFEST.json'), 'w'), indent=1)
print('checks:', sorted(CHECKS), 'not_applicable:', sorted(NOT_APPLICABLE))
