#!/usr/bin/env python3
"""Dev aid: run checks against a scratch copy of /repo with one textual edit (or a patch file).
usage: trymut.py C01,C02 FILE OLD NEW      |  trymut.py C01,C02 --patch path.diff
Scratch copy lives in a tempdir outside /repo and /verif and is removed afterwards."""
import os, shutil, subprocess, sys, tempfile
pids = sys.argv[1].split(',')
td = tempfile.mkdtemp(prefix='mlmut_')
try:
    shutil.copytree('/repo/metric_learn', os.path.join(td, 'metric_learn'))
    if sys.argv[2] == '--patch':
        subprocess.check_call(['git', 'init', '-q'], cwd=td)
        r = subprocess.run(['git', 'apply', '--whitespace=nowarn', os.path.abspath(sys.argv[3])], cwd=td)
        if r.returncode:
            sys.exit('patch does not apply')
    else:
        f, old, new = sys.argv[2:5]
        if os.path.isabs(f):
            sys.exit('FILE must be relative to metric_learn/')
        p = os.path.join(td, 'metric_learn', f)
        raw = open(p, 'rb').read().decode()
        crlf = '\r\n' in raw
        s = raw.replace('\r\n', '\n')
        old = old.encode().decode('unicode_escape'); new = new.encode().decode('unicode_escape')
        if s.count(old) != 1:
            sys.exit('old text matches %d times' % s.count(old))
        s = s.replace(old, new)
        if crlf: s = s.replace('\n', '\r\n')
        open(p, 'wb').write(s.encode())
    env = dict(os.environ, MLSTATIC_REPO=td, MLSTATIC_NOEVIDENCE='1')
    for pid in pids:
        r = subprocess.run(['/venv/bin/python', '-B', '-m', 'mlstatic.cli', pid], cwd='/verif', env=env, capture_output=True, text=True)
        lines = [l for l in r.stdout.splitlines() if l.startswith(('REFUTED', 'INCONCLUSIVE', 'ANALYSIS', 'Traceback'))]
        print('%s exit=%d %s' % (pid, r.returncode, ' | '.join(l[:260] for l in lines[:2])))
        if r.returncode == 2 and not lines:
            print(r.stdout[-600:], r.stderr[-1500:])
finally:
    shutil.rmtree(td, ignore_errors=True)
