#!/usr/bin/env python3
"""Confirm a seeded change and record it under /verif/seeded/<name>/.
usage: confirm_seed.py <variant_dir with patch.diff demo.py note.md> <property id> [--skip-suite]
Steps (all in a scratch git worktree of /repo under /tmp, removed afterwards):
  demo on the clean tree (must exit 0); apply patch; package imports; demo (must exit != 0);
  stable-pass baseline tests still pass; every registered quick check run against the patched tree."""
import json, os, shutil, subprocess, sys, tempfile, time
import xml.etree.ElementTree as ET
src, pid = sys.argv[1], sys.argv[2]
skip_suite = '--skip-suite' in sys.argv
name = os.path.basename(src.rstrip('/'))
out = os.path.join('/verif/seeded', name)
wt = tempfile.mkdtemp(prefix='seedwt_')
os.rmdir(wt)
env = dict(os.environ, PYTHONPATH=wt, OMP_NUM_THREADS='1', OPENBLAS_NUM_THREADS='1', MKL_NUM_THREADS='1')
def run(cmd, **kw):
    return subprocess.run(cmd, shell=isinstance(cmd, str), capture_output=True, text=True, **kw)
meta = {'property': pid, 'name': name, 'ran': []}
try:
    subprocess.check_call(['git', '-C', '/repo', 'worktree', 'add', '-q', '--detach', wt, 'HEAD'])
    demo = os.path.join(src, 'demo.py')
    r0 = run(['/venv/bin/python', demo], cwd=wt, env=env)
    meta['demo_exit_clean'] = r0.returncode
    a = run(['git', '-C', wt, 'apply', '--whitespace=nowarn', os.path.join(os.path.abspath(src), 'patch.diff')])
    if a.returncode:
        sys.exit('patch does not apply: ' + a.stderr)
    imp = run(['/venv/bin/python', '-c', 'import metric_learn; print(metric_learn.__file__)'], cwd=wt, env=env)
    meta['imports_from'] = imp.stdout.strip()
    r1 = run(['/venv/bin/python', demo], cwd=wt, env=env)
    meta['demo_exit_patched'] = r1.returncode
    meta['demo_tail_patched'] = (r1.stdout + r1.stderr)[-400:]
    meta['ran'].append('PYTHONPATH=<worktree> /venv/bin/python demo.py (clean: exit %d; patched: exit %d)' % (r0.returncode, r1.returncode))
    if not skip_suite:
        base = json.load(open('/root/.vp/BASELINE.json'))
        jx = os.path.join(wt, '_junit.xml')
        t = time.time()
        p = run('cd %s && /venv/bin/python -m pytest -q -p no:cacheprovider --timeout=900 -n 8 --junitxml=%s' % (wt, jx), env=env)
        passed = set()
        for tc in ET.parse(jx).getroot().iter('testcase'):
            if not any(ch.tag in ('failure', 'error', 'skipped') for ch in tc):
                passed.add(tc.get('classname') + '::' + tc.get('name'))
        missing = sorted(set(base['stable_pass']) - passed)
        meta['suite'] = {'stable_pass_expected': len(base['stable_pass']), 'passed_now': len(passed), 'stable_pass_missing': missing[:10], 'wall_s': round(time.time() - t)}
        meta['ran'].append('pytest (full suite, -n 8) in the patched worktree; stable-pass tests missing: %d' % len(missing))
        os.remove(jx)
    # checks
    man = json.load(open('/verif/MANIFEST.json'))
    res = {}
    cenv = dict(os.environ, MLSTATIC_REPO=wt, MLSTATIC_NOEVIDENCE='1')
    for c in man['checks']:
        q = run(['/venv/bin/python', '-B', '-m', 'mlstatic.cli', c['property_id']], cwd='/verif', env=cenv)
        first = [l for l in q.stdout.splitlines() if l.startswith(('REFUTED', 'INCONCLUSIVE', 'ANALYSIS'))][:1]
        res[c['property_id']] = {'exit': q.returncode, 'first': first[0][:300] if first else ''}
    meta['checks_on_patched_tree'] = res
    meta['caught_by'] = sorted(k for k, v in res.items() if v['exit'] == 1)
    meta['inconclusive'] = sorted(k for k, v in res.items() if v['exit'] == 2)
finally:
    subprocess.run(['git', '-C', '/repo', 'worktree', 'remove', '--force', wt], capture_output=True)
    shutil.rmtree(wt, ignore_errors=True)
ok = meta.get('demo_exit_clean') == 0 and meta.get('demo_exit_patched', 0) != 0 and (skip_suite or not meta['suite']['stable_pass_missing'])
meta['confirmed'] = bool(ok)
note = os.path.join(src, 'note.md')
meta['needs_to_manifest'] = open(note).read()[:1500] if os.path.exists(note) else ''
if ok:
    os.makedirs(out, exist_ok=True)
    for f in ('patch.diff', 'demo.py'):
        shutil.copy(os.path.join(src, f), os.path.join(out, f))
    json.dump(meta, open(os.path.join(out, 'meta.json'), 'w'), indent=1)
print(json.dumps({k: meta.get(k) for k in ('name', 'property', 'confirmed', 'demo_exit_clean', 'demo_exit_patched', 'caught_by', 'inconclusive', 'suite')}, indent=0))
