#!/usr/bin/env python3
"""Print a python source file with long docstrings elided (reading aid only)."""
import ast, sys
for path in sys.argv[1:]:
    src = open(path).read()
    tree = ast.parse(src)
    lines = src.split('\n')
    skip = set()
    for n in ast.walk(tree):
        if isinstance(n, (ast.FunctionDef, ast.ClassDef, ast.Module)):
            if (n.body and isinstance(n.body[0], ast.Expr)
                    and isinstance(n.body[0].value, ast.Constant)
                    and isinstance(n.body[0].value.value, str)):
                d = n.body[0]
                if d.end_lineno - d.lineno > 2:
                    for i in range(d.lineno + 1, d.end_lineno):
                        skip.add(i)
    print('#####', path)
    for i, l in enumerate(lines, 1):
        if i not in skip:
            print(f"{i}\t{l}")
