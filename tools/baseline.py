#!/usr/bin/env python3
"""Run the repository's test suite and compare with /root/.vp/BASELINE.json stable_pass.
Exit 0 iff every stable-pass test still passes. (No verification guard exists: the
checks are static and need no hooks, so 'guard off' is the plain test run.)"""
import json, os, subprocess, sys, tempfile
import xml.etree.ElementTree as ET
base = json.load(open('/root/.vp/BASELINE.json'))
want = set(base['stable_pass'])
with tempfile.TemporaryDirectory() as td:
    out = os.path.join(td, 'j.xml')
    cmd = base['cmd'].replace('<file>', out)
    env = dict(os.environ)
    env.pop('METRIC_LEARN_VERIF', None)
    p = subprocess.run(cmd, shell=True, env=env, capture_output=True, text=True)
    passed = set()
    for tc in ET.parse(out).getroot().iter('testcase'):
        ok = not any(ch.tag in ('failure', 'error', 'skipped') for ch in tc)
        if ok:
            passed.add(tc.get('classname') + '::' + tc.get('name'))
missing = sorted(want - passed)
print('baseline stable_pass=%d passed_now=%d missing=%d' % (len(want), len(passed), len(missing)))
for m in missing[:40]:
    print('  MISSING', m)
sys.exit(1 if missing else 0)
