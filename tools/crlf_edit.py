#!/usr/bin/env python3
"""Apply (old,new) replacements to a file, preserving CRLF/LF line endings.
usage: crlf_edit.py FILE EDITS.py   (EDITS.py defines EDITS = [(old, new), ...] with \n newlines)"""
import sys, runpy
path, edits = sys.argv[1], runpy.run_path(sys.argv[2])['EDITS']
raw = open(path, 'rb').read().decode()
crlf = '\r\n' in raw
s = raw.replace('\r\n', '\n')
for old, new in edits:
    if s.count(old) != 1:
        sys.exit('edit does not match exactly once: %r (%d)' % (old[:60], s.count(old)))
    s = s.replace(old, new, 1)
if crlf:
    s = s.replace('\n', '\r\n')
open(path, 'wb').write(s.encode())
