#!/usr/bin/env python3
"""Dev aid: first-order mutation sweep over the functions a property is
anchored in; runs that property's quick check on each mutant (scratch copies
outside /repo and /verif) and lists the survivors (exit 0) for triage.

usage: mutation_sweep.py Cnn file.py:func[,func...] [file.py:func ...] [--max N]
Operators: comparison flips, + <-> -, * <-> /, numeric constants (0<->1, k->k+1),
True<->False, drop `.T`, delete a statement, swap the first two call arguments,
and/or swap.  Survivors are not necessarily misses: a mutant may be equivalent,
or may change behaviour the property does not speak about."""
import ast, copy, os, shutil, subprocess, sys, tempfile
from concurrent.futures import ThreadPoolExecutor

pid = sys.argv[1]
targets = []
maxn = 400
args = sys.argv[2:]
i = 0
while i < len(args):
  if args[i] == '--max':
    maxn = int(args[i + 1]); i += 2; continue
  fn, funcs = args[i].split(':')
  targets.append((fn, funcs.split(',')))
  i += 1


def mutants_of(tree, funcs):
  """yield (description, lineno, mutated module ast)"""
  sel = [n for n in ast.walk(tree) if isinstance(n, ast.FunctionDef) and
         n.name in funcs]
  sites = []
  for f in sel:
    for n in ast.walk(f):
      sites.append(n)
  seen = set()
  for n in sites:
    muts = []
    if isinstance(n, ast.Compare) and len(n.ops) == 1:
      op = type(n.ops[0])
      alt = {ast.Lt: [ast.LtE, ast.Gt], ast.LtE: [ast.Lt, ast.GtE],
             ast.Gt: [ast.GtE, ast.Lt], ast.GtE: [ast.Gt, ast.LtE],
             ast.Eq: [ast.NotEq], ast.NotEq: [ast.Eq],
             ast.Is: [ast.IsNot], ast.IsNot: [ast.Is]}.get(op, [])
      for a in alt:
        muts.append(('cmp %s->%s' % (op.__name__, a.__name__),
                     lambda m, a=a: setattr(m, 'ops', [a()])))
    if isinstance(n, ast.BinOp):
      alt = {ast.Add: ast.Sub, ast.Sub: ast.Add, ast.Mult: ast.Div,
             ast.Div: ast.Mult}.get(type(n.op))
      if alt:
        muts.append(('binop %s->%s' % (type(n.op).__name__, alt.__name__),
                     lambda m, a=alt: setattr(m, 'op', a())))
    if isinstance(n, ast.AugAssign):
      alt = {ast.Add: ast.Sub, ast.Sub: ast.Add, ast.Mult: ast.Div,
             ast.Div: ast.Mult}.get(type(n.op))
      if alt:
        muts.append(('augop %s->%s' % (type(n.op).__name__, alt.__name__),
                     lambda m, a=alt: setattr(m, 'op', a())))
    if isinstance(n, ast.BoolOp):
      alt = ast.Or if isinstance(n.op, ast.And) else ast.And
      muts.append(('boolop->%s' % alt.__name__,
                   lambda m, a=alt: setattr(m, 'op', a())))
    if isinstance(n, ast.Constant) and isinstance(n.value, bool):
      muts.append(('const %r->%r' % (n.value, not n.value),
                   lambda m: setattr(m, 'value', not m.value)))
    elif isinstance(n, ast.Constant) and isinstance(n.value, (int, float)):
      v = n.value
      nv = 1 if v == 0 else (0 if v == 1 else v + 1)
      muts.append(('const %r->%r' % (v, nv),
                   lambda m, nv=nv: setattr(m, 'value', nv)))
    if isinstance(n, ast.Attribute) and n.attr == 'T':
      muts.append(('drop .T', 'dropT'))
    if isinstance(n, ast.Call) and len(n.args) >= 2 and \
            not any(isinstance(a, ast.Starred) for a in n.args[:2]):
      muts.append(('swap args of %s' % ast.unparse(n.func)[:30],
                   lambda m: m.args.__setitem__(slice(0, 2),
                                                [m.args[1], m.args[0]])))
    if isinstance(n, (ast.Assign, ast.AugAssign, ast.Expr)) and \
            not (isinstance(n, ast.Expr) and isinstance(n.value, ast.Constant)):
      muts.append(('delete stmt', 'delete'))
    for desc, fn in muts:
      key = (desc, getattr(n, 'lineno', 0), getattr(n, 'col_offset', 0))
      if key in seen:
        continue
      seen.add(key)
      yield desc, n, fn


def apply_mut(tree, node, fn):
  """deep copy of tree with the mutation applied at the copy of `node`"""
  idx = None
  for k, x in enumerate(ast.walk(tree)):
    if x is node:
      idx = k
      break
  t2 = copy.deepcopy(tree)
  tgt = list(ast.walk(t2))[idx]
  if fn == 'delete':
    class D(ast.NodeTransformer):
      def generic_visit(self, n):
        for fld in ('body', 'orelse', 'finalbody'):
          b = getattr(n, fld, None)
          if isinstance(b, list) and tgt in b:
            b[b.index(tgt)] = ast.copy_location(ast.Pass(), tgt)
        return super().generic_visit(n)
    D().visit(t2)
  elif fn == 'dropT':
    class T(ast.NodeTransformer):
      def visit_Attribute(self, n):
        self.generic_visit(n)
        return n.value if n is tgt else n
    T().visit(t2)
  else:
    fn(tgt)
  return ast.fix_missing_locations(t2)


jobs = []
for fname, funcs in targets:
  path = os.path.join('/repo/metric_learn', fname)
  src = open(path, 'rb').read().decode().replace('\r\n', '\n')
  tree = ast.parse(src)
  for desc, node, fn in mutants_of(tree, funcs):
    jobs.append((fname, desc, node, fn, tree))
step = max(1, len(jobs) // maxn)
jobs = jobs[::step][:maxn]
root = tempfile.mkdtemp(prefix='mlsweep_')


def run(job):
  fname, desc, node, fn, tree = job
  try:
    t2 = apply_mut(tree, node, fn)
    new = ast.unparse(t2) + '\n'
    compile(new, fname, 'exec')
  except Exception as e:
    return None
  td = tempfile.mkdtemp(dir=root)
  try:
    shutil.copytree('/repo/metric_learn', os.path.join(td, 'metric_learn'))
    open(os.path.join(td, 'metric_learn', fname), 'w').write(new)
    env = dict(os.environ, MLSTATIC_REPO=td, MLSTATIC_NOEVIDENCE='1')
    q = subprocess.run(['/venv/bin/python', '-B', '-m', 'mlstatic.cli', pid],
                       cwd='/verif', env=env, capture_output=True, text=True)
    return (q.returncode, fname, getattr(node, 'lineno', 0), desc,
            ast.unparse(node)[:90].replace('\n', ' '))
  finally:
    shutil.rmtree(td, ignore_errors=True)


try:
  with ThreadPoolExecutor(14) as ex:
    res = [r for r in ex.map(run, jobs) if r is not None]
finally:
  shutil.rmtree(root, ignore_errors=True)
k = {0: 0, 1: 0, 2: 0}
for r in res:
  k[r[0]] = k.get(r[0], 0) + 1
print('%s: %d mutants: reported(exit 1)=%d inconclusive(exit 2)=%d '
      'survived(exit 0)=%d' % (pid, len(res), k.get(1, 0), k.get(2, 0),
                               k.get(0, 0)))
for r in sorted(res, key=lambda r: (r[1], r[2])):
  if r[0] == 0:
    print('  SURVIVED %s:%d %s | %s' % (r[1], r[2], r[3], r[4]))
