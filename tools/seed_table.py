#!/usr/bin/env python3
"""Write /verif/seeded/README.md: one row per confirmed seeded change (from meta.json)."""
import json, os
root = '/verif/seeded'
rows = []
for d in sorted(os.listdir(root)):
    mp = os.path.join(root, d, 'meta.json')
    if not os.path.exists(mp):
        continue
    m = json.load(open(mp))
    note = (m.get('needs_to_manifest') or '').strip().split('\n')
    first = next((l.strip('# -*').strip() for l in note if l.strip()), '')
    rows.append((d, m['property'], ', '.join(m.get('caught_by', [])) or '-', ', '.join(m.get('inconclusive', [])) or '-',
                 'yes' if m.get('confirmed') else 'NO', first[:110]))
out = ['# Seeded changes (independent sub-agents; confirmed in scratch worktrees)', '',
       'Each directory holds `patch.diff` (never committed to /repo), `demo.py` (exits 0 on the clean tree, non-zero with the patch)',
       'and `meta.json` (property broken, what it needs to manifest, what was run, which checks report it).',
       'Refresh `caught by` with `tools/recheck_seeds.py`; regenerate this file with `tools/seed_table.py`.', '',
       '| seed | breaks | caught by (exit 1) | inconclusive (exit 2) | confirmed | change |', '|---|---|---|---|---|---|']
for r in rows:
    out.append('| %s | %s | %s | %s | %s | %s |' % r)
own = sum(1 for r in rows if r[1] in r[2].split(', '))
out += ['', '%d seeds; %d reported by the check of the property they were written against; %d reported by some check.' % (
    len(rows), own, sum(1 for r in rows if r[2] != '-'))]
open(os.path.join(root, 'README.md'), 'w').write('\n'.join(out) + '\n')
print('\n'.join(out[-1:]))
