#!/usr/bin/env python3
"""Re-run every registered quick check against every seeded change (static, fast) and refresh
seeded/<name>/meta.json (caught_by / inconclusive / false alarms on other properties).
Prints a table. Scratch copies live in a tempdir outside /repo and /verif."""
import json, os, shutil, subprocess, sys, tempfile
from concurrent.futures import ThreadPoolExecutor
man = json.load(open('/verif/MANIFEST.json'))
pids = [c['property_id'] for c in man['checks']]
seeds = sorted(d for d in os.listdir('/verif/seeded') if os.path.isdir(os.path.join('/verif/seeded', d)))
if len(sys.argv) > 1:
    seeds = [d for d in seeds if d in sys.argv[1:]]
def one(name):
    d = os.path.join('/verif/seeded', name)
    td = tempfile.mkdtemp(prefix='seedchk_')
    try:
        shutil.copytree('/repo/metric_learn', os.path.join(td, 'metric_learn'))
        subprocess.check_call(['git', 'init', '-q'], cwd=td)
        r = subprocess.run(['git', 'apply', '--whitespace=nowarn', os.path.join(d, 'patch.diff')], cwd=td, capture_output=True, text=True)
        if r.returncode:
            return name, None, 'patch does not apply: ' + r.stderr[:200]
        env = dict(os.environ, MLSTATIC_REPO=td, MLSTATIC_NOEVIDENCE='1')
        res = {}
        for pid in pids:
            q = subprocess.run(['/venv/bin/python', '-B', '-m', 'mlstatic.cli', pid], cwd='/verif', env=env, capture_output=True, text=True)
            first = [l for l in q.stdout.splitlines() if l.startswith(('REFUTED', 'INCONCLUSIVE', 'ANALYSIS'))][:1]
            res[pid] = {'exit': q.returncode, 'first': first[0][:300] if first else ''}
        return name, res, ''
    finally:
        shutil.rmtree(td, ignore_errors=True)
with ThreadPoolExecutor(8) as ex:
    out = list(ex.map(one, seeds))
for name, res, err in out:
    mp = os.path.join('/verif/seeded', name, 'meta.json')
    meta = json.load(open(mp))
    if res is None:
        print(name, 'ERROR', err); continue
    meta['checks_on_patched_tree'] = res
    meta['caught_by'] = sorted(k for k, v in res.items() if v['exit'] == 1)
    meta['inconclusive'] = sorted(k for k, v in res.items() if v['exit'] == 2)
    json.dump(meta, open(mp, 'w'), indent=1)
    own = meta['property']
    print('%-8s breaks %s  caught_by=%s  inconclusive=%s%s' % (name, own, meta['caught_by'], meta['inconclusive'], '' if own in meta['caught_by'] else '   <-- MISSED by own check'))
