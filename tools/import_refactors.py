#!/usr/bin/env python3
"""Dev aid: copy finished refactor-agent outputs (/tmp/wt/refac/<Cnn>_<k>/{patch.diff,note.md,equiv.py})
into /verif/refactors/ and run all 20 quick checks against each on a scratch copy of /repo.
usage: import_refactors.py Cnn [Cnn ...]"""
import os, shutil, subprocess, sys, tempfile
from concurrent.futures import ThreadPoolExecutor
SRC = '/tmp/wt/refac'
PIDS = ['C%02d' % i for i in range(1, 21)]


def one(name):
  src = os.path.join(SRC, name)
  pp = os.path.join(src, 'patch.diff')
  if not os.path.exists(pp):
    return name, 'no patch', []
  td = tempfile.mkdtemp(prefix='mlref_')
  try:
    shutil.copytree('/repo/metric_learn', os.path.join(td, 'metric_learn'))
    subprocess.check_call(['git', 'init', '-q'], cwd=td)
    r = subprocess.run(['git', 'apply', '--whitespace=nowarn', pp], cwd=td, capture_output=True, text=True)
    if r.returncode:
      return name, 'does not apply: ' + r.stderr[:200], []
    dst = os.path.join('/verif/refactors', name)
    os.makedirs(dst, exist_ok=True)
    for fn in ('patch.diff', 'note.md', 'equiv.py'):
      if os.path.exists(os.path.join(src, fn)):
        shutil.copy(os.path.join(src, fn), os.path.join(dst, fn))
    env = dict(os.environ, MLSTATIC_REPO=td, MLSTATIC_NOEVIDENCE='1')
    bad = []
    for pid in PIDS:
      q = subprocess.run(['/venv/bin/python', '-B', '-m', 'mlstatic.cli', pid], cwd='/verif', env=env,
                         capture_output=True, text=True)
      if q.returncode != 0:
        lines = [l for l in q.stdout.splitlines() if l.startswith(('REFUTED', 'INCONCLUSIVE', 'ANALYSIS', 'Traceback'))]
        bad.append((pid, q.returncode, (lines or [q.stderr[-300:]])[0][:330]))
    return name, 'ok', bad
  finally:
    shutil.rmtree(td, ignore_errors=True)


names = []
for pid in sys.argv[1:]:
  names += sorted(d for d in os.listdir(SRC) if d.startswith(pid + '_') and os.path.isdir(os.path.join(SRC, d))
                  and d[len(pid) + 1:].isdigit() and not os.path.exists(os.path.join("/verif/refactors", d)))
with ThreadPoolExecutor(6) as ex:
  for name, st, bad in ex.map(one, names):
    print(name, st, 'all 20 silent' if st == 'ok' and not bad else '')
    for b in bad:
      print('   %s exit=%d %s' % b)
