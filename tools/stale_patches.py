#!/usr/bin/env python3
"""List stored seeds / refactors whose patch no longer applies to /repo HEAD (after a fix: commit the context
lines of a stored patch may have changed; they are then rebased by hand)."""
import os, subprocess, sys, tempfile, shutil
stale = []
for kind in ('seeded', 'refactors'):
  d = os.path.join('/verif', kind)
  for name in sorted(os.listdir(d)):
    pp = os.path.join(d, name, 'patch.diff')
    if not os.path.exists(pp):
      continue
    r = subprocess.run(['git', '-C', '/repo', 'apply', '--check', '--whitespace=nowarn', pp], capture_output=True, text=True)
    if r.returncode:
      stale.append((kind, name, pp))
print('stale:', [n for _, n, _ in stale])
