#!/usr/bin/env python3
"""Dev aid: behaviour-preserving whole-package rewrites, to look for false
alarms / inconclusive verdicts of the checks on code where the properties
hold.  Each transformation is applied to a scratch copy of /repo/metric_learn
(tempdir outside /repo and /verif, removed afterwards) and every check is run
against it with MLSTATIC_REPO.

usage: refactor_fuzz.py [transform ...] [--checks C01,C02]
transforms: roundtrip rename dot ifswap matmul
"""
import ast, os, shutil, subprocess, sys, symtable, tempfile
from concurrent.futures import ThreadPoolExecutor

ALL = ['C%02d' % i for i in range(1, 21)]


def roundtrip(src, path):
  return ast.unparse(ast.parse(src)) + '\n'


def rename(src, path):
  """rename every pure local (assigned, not a parameter, not global /
  nonlocal / free in a nested scope) of every function to <name>_r"""
  tree = ast.parse(src)
  table = symtable.symtable(src, path, 'exec')

  def scopes(t):
    yield t
    for c in t.get_children():
      yield from scopes(c)
  by_line = {}
  for t in scopes(table):
    if t.get_type() == 'function':
      by_line.setdefault((t.get_name(), t.get_lineno()), t)

  class R(ast.NodeTransformer):
    def visit_FunctionDef(self, node):
      t = by_line.get((node.name, node.lineno))
      self.generic_visit(node)          # inner functions first
      if t is None:
        return node
      # names captured by nested scopes stay
      captured = set()
      for c in scopes(t):
        if c is t:
          continue
        for s in c.get_symbols():
          if s.is_free():
            captured.add(s.get_name())
      loc = set()
      for s in t.get_symbols():
        if s.is_local() and s.is_assigned() and not s.is_parameter() and \
                not s.is_global() and not s.is_nonlocal() and \
                not s.is_imported() and s.get_name() not in captured and \
                not s.get_name().startswith('_') and \
                not s.is_namespace():
          loc.add(s.get_name())
      inner = [n for n in ast.walk(node) if isinstance(
          n, (ast.FunctionDef, ast.Lambda, ast.ListComp, ast.SetComp,
              ast.DictComp, ast.GeneratorExp)) and n is not node]
      skip = set()
      for i in inner:
        for x in ast.walk(i):
          skip.add(id(x))
      for n in ast.walk(node):
        if isinstance(n, ast.Name) and n.id in loc and id(n) not in skip:
          n.id = n.id + '_r'
        if isinstance(n, ast.ExceptHandler) and n.name in loc and \
                id(n) not in skip:
          n.name = n.name + '_r'
      # uses inside comprehensions / lambdas refer to the same local
      for i in inner:
        if isinstance(i, ast.FunctionDef):
          continue
        bound = set()
        for x in ast.walk(i):
          if isinstance(x, ast.comprehension):
            for y in ast.walk(x.target):
              if isinstance(y, ast.Name):
                bound.add(y.id)
          if isinstance(x, ast.Lambda):
            for a in x.args.args:
              bound.add(a.arg)
        for x in ast.walk(i):
          if isinstance(x, ast.Name) and x.id in loc and x.id not in bound:
            x.id = x.id + '_r'
      return node
  return ast.unparse(R().visit(tree)) + '\n'


def dot(src, path):
  """a.dot(b) -> np.dot(a, b) when np is imported"""
  if 'import numpy as np' not in src:
    return ast.unparse(ast.parse(src)) + '\n'

  class D(ast.NodeTransformer):
    def visit_Call(self, node):
      self.generic_visit(node)
      if isinstance(node.func, ast.Attribute) and node.func.attr == 'dot' \
              and len(node.args) == 1 and not node.keywords and \
              not (isinstance(node.func.value, ast.Name) and
                   node.func.value.id == 'np'):
        return ast.Call(func=ast.Attribute(value=ast.Name('np', ast.Load()),
                                           attr='dot', ctx=ast.Load()),
                        args=[node.func.value, node.args[0]], keywords=[])
      return node
  return ast.unparse(ast.fix_missing_locations(D().visit(ast.parse(src)))) \
      + '\n'


def matmul(src, path):
  """a.dot(b) -> a @ b is only valid for arrays; use for 2-operand np.dot
  calls written as np.dot(a, b) -> a.dot(b) instead (the converse of dot)"""
  class D(ast.NodeTransformer):
    def visit_Call(self, node):
      self.generic_visit(node)
      if isinstance(node.func, ast.Attribute) and node.func.attr == 'dot' \
              and isinstance(node.func.value, ast.Name) and \
              node.func.value.id == 'np' and len(node.args) == 2 and \
              not node.keywords and isinstance(node.args[0], (ast.Name,
                                                              ast.Attribute)):
        return ast.Call(func=ast.Attribute(value=node.args[0], attr='dot',
                                           ctx=ast.Load()),
                        args=[node.args[1]], keywords=[])
      return node
  return ast.unparse(ast.fix_missing_locations(D().visit(ast.parse(src)))) \
      + '\n'


def ifswap(src, path):
  """if c: A else: B  ->  if not c: B else: A   (plain if/else only)"""
  class S(ast.NodeTransformer):
    def visit_If(self, node):
      self.generic_visit(node)
      if node.orelse and not (len(node.orelse) == 1 and
                              isinstance(node.orelse[0], ast.If)):
        return ast.If(test=ast.UnaryOp(op=ast.Not(), operand=node.test),
                      body=node.orelse, orelse=node.body)
      return node
  return ast.unparse(ast.fix_missing_locations(S().visit(ast.parse(src)))) \
      + '\n'


def cmpflip(src, path):
  """a < b -> b > a (single-operator comparisons of side-effect-free
  operands)"""
  flip = {ast.Lt: ast.Gt, ast.Gt: ast.Lt, ast.LtE: ast.GtE, ast.GtE: ast.LtE,
          ast.Eq: ast.Eq, ast.NotEq: ast.NotEq}

  class C(ast.NodeTransformer):
    def visit_Compare(self, node):
      self.generic_visit(node)
      if len(node.ops) == 1 and type(node.ops[0]) in flip and \
              not isinstance(node.comparators[0], ast.Constant):
        return ast.Compare(left=node.comparators[0],
                           ops=[flip[type(node.ops[0])]()],
                           comparators=[node.left])
      return node
  return ast.unparse(ast.fix_missing_locations(C().visit(ast.parse(src)))) \
      + '\n'


def isnot(src, path):
  """x is not None -> not x is None ; x is None stays"""
  class C(ast.NodeTransformer):
    def visit_Compare(self, node):
      self.generic_visit(node)
      if len(node.ops) == 1 and isinstance(node.ops[0], ast.IsNot):
        return ast.UnaryOp(op=ast.Not(), operand=ast.Compare(
            left=node.left, ops=[ast.Is()], comparators=node.comparators))
      return node
  return ast.unparse(ast.fix_missing_locations(C().visit(ast.parse(src)))) \
      + '\n'


def earlyret(src, path):
  """if c: ...return/raise  else: B   ->   if c: ...return/raise ; B"""
  def ends(body):
    return body and isinstance(body[-1], (ast.Return, ast.Raise))

  class E(ast.NodeTransformer):
    def _block(self, body):
      out = []
      for st in body:
        st = self.visit(st)
        if isinstance(st, ast.If) and st.orelse and ends(st.body) and \
                not (len(st.orelse) == 1 and isinstance(st.orelse[0], ast.If)):
          rest = st.orelse
          st.orelse = []
          out.append(st)
          out.extend(rest)
        else:
          out.append(st)
      return out

    def generic_visit(self, node):
      for fld in ('body', 'orelse', 'finalbody'):
        b = getattr(node, fld, None)
        if isinstance(b, list) and b and isinstance(b[0], ast.stmt):
          setattr(node, fld, self._block(b))
      for h in getattr(node, 'handlers', []):
        h.body = self._block(h.body)
      return node
  t = ast.parse(src)
  E().visit(t)
  return ast.unparse(ast.fix_missing_locations(t)) + '\n'


def tempify(src, path):
  """x = f(g(a), b)  ->  _t1 = g(a); x = f(_t1, b)   for plain assignments
  and returns inside functions (only the first positional call argument, only
  when that argument is itself a call; evaluation order is unchanged)"""
  counter = [0]

  class Tm(ast.NodeTransformer):
    def _block(self, body, infunc):
      out = []
      for st in body:
        st = self.visit(st)
        if infunc and isinstance(st, (ast.Assign, ast.Return)) and \
                isinstance(st.value, ast.Call) and st.value.args and \
                isinstance(st.value.args[0], ast.Call) and \
                not any(isinstance(a, ast.Starred) for a in st.value.args):
          counter[0] += 1
          nm = '_tmp%d' % counter[0]
          out.append(ast.Assign(targets=[ast.Name(nm, ast.Store())],
                                value=st.value.args[0]))
          st.value.args[0] = ast.Name(nm, ast.Load())
        out.append(st)
      return out

    def visit_FunctionDef(self, node):
      self.infunc = True
      self.generic_visit(node)
      return node

    def generic_visit(self, node):
      infunc = getattr(self, 'infunc', False) or \
          isinstance(node, ast.FunctionDef)
      for fld in ('body', 'orelse', 'finalbody'):
        b = getattr(node, fld, None)
        if isinstance(b, list) and b and isinstance(b[0], ast.stmt):
          if isinstance(node, ast.FunctionDef):
            self.infunc = True
          setattr(node, fld, self._block(b, getattr(self, 'infunc', False)))
      for h in getattr(node, 'handlers', []):
        h.body = self._block(h.body, getattr(self, 'infunc', False))
      if isinstance(node, ast.ClassDef) or isinstance(node, ast.Module):
        pass
      return node
  t = ast.parse(src)
  Tm().visit(t)
  return ast.unparse(ast.fix_missing_locations(t)) + '\n'


T = dict(roundtrip=roundtrip, rename=rename, dot=dot, ifswap=ifswap,
         matmul=matmul, cmpflip=cmpflip, isnot=isnot, earlyret=earlyret, tempify=tempify)


def run(name, checks, keep=None):
  td = tempfile.mkdtemp(prefix='mlrf_')
  try:
    dst = os.path.join(td, 'metric_learn')
    shutil.copytree('/repo/metric_learn', dst)
    for fn in sorted(os.listdir(dst)):
      if fn.endswith('.py'):
        p = os.path.join(dst, fn)
        src = open(p, 'rb').read().decode().replace('\r\n', '\n')
        open(p, 'w').write(T[name](src, p))
    r = subprocess.run(['/venv/bin/python', '-c', 'import ast,sys,glob\n'
                        'for f in glob.glob(sys.argv[1]+"/*.py"): '
                        'compile(open(f).read(), f, "exec")', dst],
                       capture_output=True, text=True)
    if r.returncode:
      print(name, 'DOES NOT COMPILE', r.stderr[-300:])
      return
    if keep:
      shutil.rmtree(keep, ignore_errors=True)
      shutil.copytree(td, keep)
      print('kept in', keep)
      return
    # behaviour check: the package imports and a smoke fit works
    r = subprocess.run(['/venv/bin/python', '-c',
                        'import numpy as np, metric_learn\n'
                        'from sklearn.datasets import load_iris\n'
                        'X, y = load_iris(return_X_y=True)\n'
                        'for E in (metric_learn.NCA(max_iter=3), metric_learn.LMNN(max_iter=3), metric_learn.LFDA(), metric_learn.RCA_Supervised(n_chunks=20, random_state=0), metric_learn.MMC_Supervised(max_iter=3, random_state=0), metric_learn.ITML_Supervised(max_iter=3, random_state=0), metric_learn.LSML_Supervised(max_iter=3, random_state=0), metric_learn.SCML_Supervised(max_iter=500, random_state=0, n_basis=40), metric_learn.Covariance(), metric_learn.MLKR(max_iter=3)):\n'
                        '  E.fit(X, y); print(type(E).__name__, round(float(np.abs(E.components_).sum()), 6))'],
                       capture_output=True, text=True,
                       env=dict(os.environ, PYTHONPATH=td, OMP_NUM_THREADS='1',
                                PYTHONWARNINGS='ignore'))
    print(name, 'smoke:', 'ok' if r.returncode == 0 else 'FAILED ' +
          r.stderr[-400:], '|', ' '.join(r.stdout.split()))
    env = dict(os.environ, MLSTATIC_REPO=td, MLSTATIC_NOEVIDENCE='1')

    def one(pid):
      q = subprocess.run(['/venv/bin/python', '-B', '-m', 'mlstatic.cli', pid],
                         cwd='/verif', env=env, capture_output=True, text=True)
      lines = [l for l in q.stdout.splitlines() if l.startswith(
          ('REFUTED', 'INCONCLUSIVE', 'ANALYSIS', 'Traceback'))]
      return pid, q.returncode, lines, q.stdout[-300:] + q.stderr[-600:]
    with ThreadPoolExecutor(8) as ex:
      for pid, rc, lines, tail in ex.map(one, checks):
        if rc != 0:
          print('  %s %s exit=%d (%d lines)' % (name, pid, rc, len(lines)))
          for l in lines[:4]:
            print('     ', l[:230])
          if not lines:
            print('     ', tail[-500:])
  finally:
    shutil.rmtree(td, ignore_errors=True)


if __name__ == '__main__':
  args = [a for a in sys.argv[1:] if not a.startswith('--')]
  checks = ALL
  for i, a in enumerate(sys.argv):
    if a == '--checks':
      checks = sys.argv[i + 1].split(',')
      args = [x for x in args if x != sys.argv[i + 1]]
  keep = None
  for i, a in enumerate(sys.argv):
    if a == '--keep':
      keep = sys.argv[i + 1]
      args = [x for x in args if x != keep]
  for name in (args or list(T)):
    run(name, checks, keep)
