"""F21 probe: indicators whose preprocessor yields ONE NUMBER per indicator
(1-D data behind the indices) form 2-D "tuples".  check_input_tuples has a
documented error for that (3D array of formed tuples expected after the
preprocessor has been applied -> ValueError) but tested the feature count
(input_data.shape[2]) first: with the default ensure_min_features=1 every
estimator raised IndexError instead.  Run with PYTHONPATH=<tree>."""
import numpy as np
from metric_learn._util import check_input
from metric_learn import ITML
idx = np.array([[0, 1], [2, 3]])
bad = 0
for kw in ({}, {'ensure_min_features': 0}, {'ensure_min_features': 3}):
  try:
    check_input(idx, type_of_inputs='tuples',
                preprocessor=lambda i: np.asarray(i, dtype=float), **kw)
    print(kw, 'accepted'); bad += 1
  except ValueError as e:
    print(kw, 'ValueError', str(e)[:60])
  except Exception as e:
    print(kw, type(e).__name__, e); bad += 1
try:
  ITML(preprocessor=np.arange(6.)).fit(idx, [1, -1])
  bad += 1
except ValueError as e:
  print('ITML(1-D array preprocessor).fit: ValueError', str(e)[:60])
except Exception as e:
  print('ITML(1-D array preprocessor).fit:', type(e).__name__, e); bad += 1
print('DEFECT' if bad else 'OK', bad)
raise SystemExit(1 if bad else 0)
