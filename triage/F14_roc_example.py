import numpy as np, warnings
warnings.filterwarnings('ignore')
from metric_learn import MMC
m = MMC(); m.components_ = np.eye(1); m.preprocessor_ = None; m.threshold_ = 0.; m.n_features_in_ = 1
d = np.array([3., 1., 0., 1., 3.]); y = np.array([-1, -1, 1, 1, 1])
pairs = np.stack([np.zeros(5), d], axis=1)[:, :, None]
for r in (0., .25, .5, .75, 1.):
    m.calibrate_threshold(pairs, y, strategy='max_tpr', min_rate=r)
    pred = m.predict(pairs)
    tpr = np.mean(pred[y == 1] == 1); tnr = np.mean(pred[y == -1] == -1)
    best = max(np.mean((d <= t)[y == 1]) for t in (-1, 0, 1, 3) if np.mean(~(d <= t)[y == -1]) >= r)
    print('min_rate', r, 'threshold', m.threshold_, 'tpr', tpr, 'tnr', tnr, 'best attainable tpr', best)
