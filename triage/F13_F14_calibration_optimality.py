import numpy as np, warnings, itertools
warnings.filterwarnings('ignore')
from sklearn.metrics import fbeta_score
from metric_learn import MMC
rng = np.random.RandomState(0)
# a fitted model with identity metric: use 1-d points so distance = |a-b|
m = MMC()
m.components_ = np.eye(1); m.preprocessor_ = None; m.threshold_ = 0.; m.n_features_in_ = 1
def crit(strategy, y, pred, beta=1., min_rate=None):
    tp = np.sum((pred == 1) & (y == 1)); tn = np.sum((pred == -1) & (y == -1))
    P = np.sum(y == 1); N = np.sum(y == -1)
    if strategy == 'accuracy': return (tp + tn) / len(y)
    if strategy == 'f_beta': return fbeta_score(y, pred, beta=beta, pos_label=1, zero_division=0)
    tpr, tnr = tp / P, tn / N
    if strategy == 'max_tpr': return tpr if tnr >= min_rate else -1
    if strategy == 'max_tnr': return tnr if tpr >= min_rate else -1
bad = {}
for trial in range(3000):
    n = rng.randint(2, 9)
    d = rng.randint(0, 4, size=n).astype(float)      # tied distances, zeros
    y = rng.choice([-1, 1], size=n)
    if len(set(y)) < 2: continue
    pairs = np.stack([np.zeros(n), d], axis=1)[:, :, None]
    b = float(rng.choice([0., .5, 1., 2., 10.])); r = float(rng.choice([0., .25, .5, .75, 1.]))
    for strategy, kw in (('accuracy', {}), ('f_beta', {'beta': b}), ('max_tpr', {'min_rate': r}), ('max_tnr', {'min_rate': r})):
        m.calibrate_threshold(pairs, y, strategy=strategy, **kw)
        got = crit(strategy, y, m.predict(pairs), **kw)
        cands = sorted(set(d)) + [-1., d.max() + 1]
        best = max(crit(strategy, y, np.where(d <= t, 1, -1), **kw) for t in cands)
        if got < best - 1e-12 and strategy not in bad:
            bad[strategy] = (d.tolist(), y.tolist(), float(m.threshold_), float(got), float(best))
for k, v in bad.items(): print(k, v)
print('strategies violated:', sorted(bad))
