"""F15: LFDA's neighbour rank k is clipped with `k = min(k, nc - 1)` inside the
class loop, overwriting k for all later classes.  After a small class has
been visited every later class uses the small rank, so the learned metric
depends on the order of the class labels: relabelling the classes (a pure
renaming) changes the result, and a class with plenty of points does not use
its k-th nearest neighbour as local scale."""
import numpy as np, warnings
warnings.simplefilter('ignore')
from metric_learn import LFDA
rng = np.random.RandomState(0)
Xs = rng.randn(3, 4)              # small class: 3 points
Xb = rng.randn(40, 4) + 2.0       # big class: 40 points
X = np.vstack([Xs, Xb])
y_small_first = np.r_[np.zeros(3, int), np.ones(40, int)]
y_small_last = 1 - y_small_first   # same partition, labels renamed
m1 = LFDA(k=3, n_components=2).fit(X, y_small_first).get_mahalanobis_matrix()
m2 = LFDA(k=3, n_components=2).fit(X, y_small_last).get_mahalanobis_matrix()
print('max |M(small class first) - M(small class last)| = %.3g'
      % np.abs(m1 - m2).max())
print('relative: %.3g' % (np.abs(m1 - m2).max() / np.abs(m1).max()))
