"""C10, zero-iterations clause: with max_iter=0 the result should be exactly the
documented initialisation.  NCA / MLKR hand maxiter=0 to scipy's L-BFGS-B; does
the installed scipy return x0?"""
import numpy as np, warnings, scipy
warnings.simplefilter('ignore')
from metric_learn import NCA, MLKR, LMNN
rng = np.random.RandomState(0)
X = rng.randn(30, 3); y = (X[:, 0] > 0).astype(int); yr = X[:, 0] + 0.1 * rng.randn(30)
print('scipy', scipy.__version__)
for name, est, yy in (('NCA', NCA(max_iter=0, init='identity'), y),
                      ('MLKR', MLKR(max_iter=0, init='identity'), yr),
                      ('LMNN', LMNN(max_iter=0, init='identity', n_neighbors=3), y)):
    est.fit(X, yy)
    print(name, 'max |L - I| =', np.abs(est.components_ - np.eye(3)).max(), 'n_iter_', getattr(est, 'n_iter_', None))
