"""F19/F20 probe: integer data of an unsigned or narrow dtype holding the same
numbers as a float64 array must give the same results (C06), and integer-dtype
query arrays are in the quantifier of C02.  Run with PYTHONPATH=<tree>."""
import numpy as np, warnings
warnings.simplefilter('ignore')
from metric_learn import Covariance, ITML, MMC, LSML, SDML, LFDA
rng = np.random.RandomState(0)
Xf = rng.randint(0, 20, size=(60, 3)).astype(float)
y = rng.randint(0, 2, size=60)
bad = 0
for dt in (np.uint8, np.uint64, np.int8, np.int64):
  X = Xf.astype(dt)
  pairs = np.stack([X[:30], X[30:]], axis=1)
  pf = pairs.astype(float)
  yp = np.where(rng.rand(30) < .5, 1, -1)
  m = Covariance().fit(Xf)
  g = m.get_metric()
  e1 = np.abs(m.pair_distance(pairs) - m.pair_distance(pf)).max()
  e2 = abs(g(X[0], X[30]) - g(Xf[0], Xf[30]))
  print(dt.__name__, 'pair_distance err', e1, 'get_metric err', e2)
  bad += e1 > 1e-9 or e2 > 1e-9
  q = np.concatenate([pairs, pairs[::-1]], axis=1)
  for name, mk, args in (
      ('ITML', lambda: ITML(max_iter=5), (pairs, pf, yp)),
      ('MMC', lambda: MMC(max_iter=5), (pairs, pf, yp)),
      ('SDML', lambda: SDML(prior='identity', balance_param=1e-3), (pairs, pf, yp)),
      ('LSML', lambda: LSML(max_iter=5), (q, q.astype(float), None)),
      ('LFDA', lambda: LFDA(k=2), (X, Xf, y))):
    a_in, b_in, lab = args
    try:
      b = (mk().fit(b_in, lab) if lab is not None else mk().fit(b_in)).get_mahalanobis_matrix()
    except Exception as e:
      print('   ', name, 'skipped: the float64 fit itself fails on this draw')
      continue
    try:
      a = (mk().fit(a_in, lab) if lab is not None else mk().fit(a_in)).get_mahalanobis_matrix()
      err = np.abs(a - b).max()
      print('   ', name, 'fit err', err)
      bad += not (err < 1e-9)
    except Exception as e:
      print('   ', name, 'EXC', type(e).__name__, str(e)[:70])
      bad += 1
print('DEFECT' if bad else 'OK', bad)
raise SystemExit(1 if bad else 0)
