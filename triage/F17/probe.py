"""Integer-valued array hyper-parameters: an array prior / init / bounds given with an integer dtype
(np.array([[2, 0], [0, 1]]), np.eye(d, dtype=int), bounds=(1, 5)) holds the same numbers as its float64
copy.  Does fit give the same result?"""
import numpy as np, warnings
warnings.simplefilter('ignore')
from metric_learn import ITML, MMC, LSML, SDML
rng = np.random.RandomState(0)
X = rng.randn(40, 2)
pairs = np.stack([X[:20], X[20:]], axis=1); y = np.r_[np.ones(10), -np.ones(10)]
Pi = np.array([[2, 0], [0, 1]]); Pf = Pi.astype(float)
def run(name, mk):
    out = []
    for P in (Pf, Pi):
        try:
            m = mk(P); out.append(np.round(m.get_mahalanobis_matrix(), 6).tolist())
        except Exception as e:
            out.append('%s: %s' % (type(e).__name__, str(e)[:80]))
    print(name, 'float:', out[0], '| int:', out[1], '| same:', out[0] == out[1])
run('ITML prior ', lambda P: ITML(prior=P).fit(pairs, y))
run('MMC init   ', lambda P: MMC(init=P, max_iter=5).fit(pairs, y))
run('MMC diag   ', lambda P: MMC(init=P, diagonal=True, max_iter=5).fit(pairs, y))
run('SDML prior ', lambda P: SDML(prior=P, balance_param=0.1, sparsity_param=0.01).fit(pairs, y))
quads = np.stack([X[:10], X[10:20], X[20:30], X[30:]], axis=1)
run('LSML prior ', lambda P: LSML(prior=P).fit(quads))
for b in ((1., 5.), (1, 5)):
    try:
        m = ITML().fit(pairs, y, bounds=np.array(b)); print('ITML bounds', b, np.round(m.get_mahalanobis_matrix(), 6).tolist())
    except Exception as e:
        print('ITML bounds', b, type(e).__name__, str(e)[:80])
for b in ((0., 5.), (0, 5)):
    try:
        m = ITML().fit(pairs, y, bounds=np.array(b)); print('ITML bounds', b, 'bounds_ =', m.bounds_.tolist(), np.round(m.get_mahalanobis_matrix(), 4).tolist())
    except Exception as e:
        print('ITML bounds', b, type(e).__name__, str(e)[:80])
