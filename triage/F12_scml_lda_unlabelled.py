import numpy as np, warnings
warnings.filterwarnings('ignore')
from sklearn.datasets import load_iris
from metric_learn import SCML_Supervised
X, y = load_iris(return_X_y=True)
rng = np.random.RandomState(0)
y2 = y.copy()
unl = rng.choice(len(y), 40, replace=False)
y2[unl] = -1
keep = y2 >= 0
for basis in ('triplet_diffs', 'lda'):
    a = SCML_Supervised(basis=basis, n_basis=40, random_state=0).fit(X, y2)
    b = SCML_Supervised(basis=basis, n_basis=40, random_state=0).fit(X[keep], y2[keep])
    Ma, Mb = a.get_mahalanobis_matrix(), b.get_mahalanobis_matrix()
    print(basis, 'max abs diff of M:', np.abs(Ma - Mb).max(), 'scale', np.abs(Mb).max())
    # moving the unlabelled points must not matter
    X3 = X.copy(); X3[unl] += 5 * rng.randn(len(unl), X.shape[1])
    c = SCML_Supervised(basis=basis, n_basis=40, random_state=0).fit(X3, y2)
    print(basis, 'after moving the unlabelled points:', np.abs(c.get_mahalanobis_matrix() - Ma).max())
