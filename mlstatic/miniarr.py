"""A model of the numpy re-arrangement functions used by index bookkeeping
code (`tile`, `repeat`, `ravel`, `hstack`, `vstack`, `.T`, `reshape`,
`column_stack`, `concatenate`), on small N-d arrays whose elements are opaque
atoms.  Used to decide, on representative shapes, which atom lands where."""
import itertools


class ShapeMismatch(Exception):
  """numpy would raise ValueError: dimensions do not match"""


class MArr:
  def __init__(self, shape, flat):
    self.shape = tuple(shape)
    self.flat = list(flat)          # C order
    n = 1
    for s in self.shape:
      n *= s
    assert n == len(self.flat), (shape, len(flat))

  @staticmethod
  def of(v):
    if isinstance(v, MArr):
      return v
    if isinstance(v, (list, tuple)):
      subs = [MArr.of(x) for x in v]
      if not subs:
        return MArr((0,), [])
      sh = subs[0].shape
      if any(s.shape != sh for s in subs):
        raise ValueError('ragged')
      return MArr((len(subs),) + sh, [x for s in subs for x in s.flat])
    return MArr((), [v])

  @property
  def ndim(self):
    return len(self.shape)

  def __len__(self):
    if not self.shape:
      raise TypeError('len of 0-d')
    return self.shape[0]

  def at(self, idx):
    k = 0
    for i, s in zip(idx, self.shape):
      k = k * s + i
    return self.flat[k]

  def rows(self):
    if self.ndim == 0:
      raise TypeError('iteration over 0-d')
    sub = self.shape[1:]
    n = 1
    for s in sub:
      n *= s
    return [MArr(sub, self.flat[i * n:(i + 1) * n])
            for i in range(self.shape[0])]

  def ravel(self, order='C'):
    if order == 'C':
      return MArr((len(self.flat),), self.flat)
    if order == 'F':
      out = []
      for idx in itertools.product(*[range(s) for s in reversed(self.shape)]):
        out.append(self.at(tuple(reversed(idx))))
      return MArr((len(out),), out)
    raise ValueError(order)

  def T(self):
    out = []
    sh = tuple(reversed(self.shape))
    for idx in itertools.product(*[range(s) for s in sh]):
      out.append(self.at(tuple(reversed(idx))))
    return MArr(sh, out)

  def reshape(self, shape):
    shape = list(shape)
    n = len(self.flat)
    if -1 in shape:
      k = 1
      for s in shape:
        if s != -1:
          k *= s
      shape[shape.index(-1)] = n // k if k else 0
    return MArr(shape, self.flat)

  def __repr__(self):
    return 'MArr(%r, %r)' % (self.shape, self.flat)


def tile(a, reps):
  a = MArr.of(a)
  reps = (reps,) if isinstance(reps, int) else tuple(reps)
  d = max(len(reps), a.ndim)
  shape = (1,) * (d - a.ndim) + a.shape
  reps = (1,) * (d - len(reps)) + reps
  a = MArr(shape, a.flat)
  out_shape = tuple(s * r for s, r in zip(shape, reps))
  out = []
  for idx in itertools.product(*[range(s) for s in out_shape]):
    out.append(a.at(tuple(i % s for i, s in zip(idx, shape))))
  return MArr(out_shape, out)


def repeat(a, r, axis=None):
  a = MArr.of(a)
  if axis is None:
    return MArr((len(a.flat) * r,), [x for x in a.flat for _ in range(r)])
  if a.ndim == 2 and axis in (0, 1):
    rows = [row.flat for row in a.rows()]
    if axis == 0:
      rows = [row for row in rows for _ in range(r)]
    else:
      rows = [[x for x in row for _ in range(r)] for row in rows]
    return MArr.of(rows)
  raise ValueError('repeat')


def concatenate(seq, axis=0):
  arrs = [MArr.of(x) for x in (seq.rows() if isinstance(seq, MArr) else seq)]
  if all(a.ndim == 1 for a in arrs) and axis == 0:
    return MArr((sum(a.shape[0] for a in arrs),),
                [x for a in arrs for x in a.flat])
  if all(a.ndim == 2 for a in arrs):
    if axis == 0:
      if len(set(a.shape[1] for a in arrs)) > 1:
        raise ShapeMismatch('concatenate axis 0')
      return MArr.of([r.flat for a in arrs for r in a.rows()])
    if axis == 1:
      if len(set(a.shape[0] for a in arrs)) > 1:
        raise ShapeMismatch('concatenate axis 1')
      n = arrs[0].shape[0]
      return MArr.of([[x for a in arrs for x in a.rows()[i].flat]
                      for i in range(n)])
  raise ValueError('concatenate')


def hstack(seq):
  arrs = [MArr.of(x) for x in (seq.rows() if isinstance(seq, MArr) else seq)]
  arrs = [a if a.ndim else MArr((1,), a.flat) for a in arrs]
  if all(a.ndim == 1 for a in arrs):
    return concatenate(arrs, 0)
  return concatenate(arrs, 1)


def vstack(seq):
  arrs = [MArr.of(x) for x in (seq.rows() if isinstance(seq, MArr) else seq)]
  arrs = [a if a.ndim >= 2 else MArr((1, len(a.flat)), a.flat) for a in arrs]
  return concatenate(arrs, 0)


def column_stack(seq):
  arrs = [MArr.of(x) for x in seq]
  arrs = [a if a.ndim >= 2 else MArr((len(a.flat), 1), a.flat) for a in arrs]
  return concatenate(arrs, 1)
