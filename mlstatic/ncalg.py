"""Non-commutative polynomials in matrix atoms with exact rational-function
coefficients (ratfunc.Rat), and an evaluator from expression ASTs.

Used by formula rules that must not depend on how a matrix expression is
spelled: `a.dot(b)`, `np.dot(a, b)`, `a @ b`; factored or expanded products;
`np.outer(s, s)` with `s = X.sum(axis=0)` or a helper that computes it;
`v[:, None] * M` or `np.diag(v).dot(M)`; named temporaries or inline
expressions.  Everything is brought to a sum of words over the atoms

  ('m', name, transposed)     a matrix (symmetric ones are never transposed)
  ('1',) / ('1t',)            the column / row of ones (X.sum(axis=0) = X^T 1)
  ('diag', key)               Diag(v) for the vector v with canonical key
"""
import ast
from fractions import Fraction
from .ratfunc import Rat


class NC:
  __slots__ = ('terms', 'kind')

  def __init__(self, terms=None, kind='mat'):
    self.terms = {}
    for w, c in (terms or {}).items():
      if not c.is_zero():
        self.terms[w] = c
    self.kind = kind        # 'mat' | 'col' | 'row'

  @staticmethod
  def atom(name, symmetric=False, kind='mat'):
    return NC({(('m', name, False, symmetric),): Rat.const(1)}, kind)

  @staticmethod
  def ones():
    return NC({(('1',),): Rat.const(1)}, 'col')

  def key(self):
    return tuple(sorted((repr(w), repr(c)) for w, c in self.terms.items()))

  def __eq__(self, o):
    if not isinstance(o, NC):
      return False
    ks = set(self.terms) | set(o.terms)
    for k in ks:
      a = self.terms.get(k, Rat.const(0))
      b = o.terms.get(k, Rat.const(0))
      if not (a - b).is_zero():
        return False
    return True

  def __hash__(self):
    return hash(self.key())

  def add(self, o, sign=1):
    t = dict(self.terms)
    for w, c in o.terms.items():
      t[w] = (t[w] + c if sign > 0 else t[w] - c) if w in t else \
          (c if sign > 0 else -c)
    return NC(t, self.kind)

  def scale(self, r):
    return NC({w: c * r for w, c in self.terms.items()}, self.kind)

  def mul(self, o):
    t = {}
    for w1, c1 in self.terms.items():
      for w2, c2 in o.terms.items():
        w = w1 + w2
        c = c1 * c2
        t[w] = t[w] + c if w in t else c
    kind = {'mat': {'mat': 'mat', 'col': 'col'},
            'row': {'mat': 'row', 'col': 'scalar'},
            'col': {'row': 'mat'}}.get(self.kind, {}).get(o.kind)
    return NC(t, kind or 'mat')

  def T(self):
    t = {}
    for w, c in self.terms.items():
      nw = tuple(_t_atom(a) for a in reversed(w))
      t[nw] = t[nw] + c if nw in t else c
    return NC(t, {'col': 'row', 'row': 'col'}.get(self.kind, self.kind))

  def __repr__(self):
    if not self.terms:
      return '0'
    bits = []
    for w, c in sorted(self.terms.items(), key=lambda kv: repr(kv[0])):
      bits.append('(%r)*%s' % (c, '.'.join(_a_str(a) for a in w)))
    return ' + '.join(bits)


def _t_atom(a):
  if a[0] == 'm':
    return a if a[3] else ('m', a[1], not a[2], a[3])
  if a[0] == '1':
    return ('1t',)
  if a[0] == '1t':
    return ('1',)
  return a      # diag


def _a_str(a):
  if a[0] == 'm':
    return a[1] + ("'" if a[2] else '')
  if a[0] == 'diag':
    return 'Diag[%s]' % a[1]
  return {'1': '1', '1t': "1'"}[a[0]]


class NCEval:
  """AST -> NC | Rat | None.  `mats`: {name: NC}; `scalars`: {source text:
  Rat}; `canon_of(expr)` gives the canonical library name of a callee;
  `helper(call)` may return (params, body) of a straight-line repo function
  to inline."""

  def __init__(self, mats, scalars, canon_of, helper=None, special=None):
    self.mats = dict(mats)
    self.scalars = dict(scalars)
    self.canon_of = canon_of
    self.helper = helper
    self.special = special      # expr -> NC | Rat | None, tried first
    self.depth = 0

  def ev(self, e):
    if self.special is not None:
      v = self.special(e)
      if v is not None:
        return v
    txt = ast.unparse(e)
    if txt in self.scalars:
      return self.scalars[txt]
    if isinstance(e, ast.Name):
      return self.mats.get(e.id)
    if isinstance(e, ast.Constant) and isinstance(e.value, (int, float)) and \
            not isinstance(e.value, bool):
      return Rat.const(Fraction(e.value).limit_denominator(10 ** 9))
    if isinstance(e, ast.UnaryOp) and isinstance(e.op, ast.USub):
      v = self.ev(e.operand)
      if isinstance(v, Rat):
        return -v
      if isinstance(v, NC):
        return v.scale(Rat.const(-1))
      return None
    if isinstance(e, ast.Attribute) and e.attr == 'T':
      v = self.ev(e.value)
      return v.T() if isinstance(v, NC) else None
    if isinstance(e, ast.Subscript):
      # v[:, None] / v[None, :] : the same vector, orientation made explicit
      v = self.ev(e.value)
      st = ast.unparse(e.slice)
      if isinstance(v, NC) and v.kind in ('col', 'row'):
        if st in ('(slice(None, None, None), None)', ':, None',
                  '(:, None)', ':, np.newaxis'):
          return v if v.kind == 'col' else v.T()
        if st in ('None, :', '(None, :)', 'np.newaxis, :'):
          return v if v.kind == 'row' else v.T()
      return None
    if isinstance(e, ast.BinOp):
      a, b = self.ev(e.left), self.ev(e.right)
      if a is None or b is None:
        return None
      op = e.op
      if isinstance(op, ast.MatMult):
        return a.mul(b) if isinstance(a, NC) and isinstance(b, NC) else None
      if isinstance(op, (ast.Add, ast.Sub)):
        if isinstance(a, NC) and isinstance(b, NC):
          return a.add(b, 1 if isinstance(op, ast.Add) else -1)
        if isinstance(a, Rat) and isinstance(b, Rat):
          return a + b if isinstance(op, ast.Add) else a - b
        return None
      if isinstance(op, ast.Mult):
        if isinstance(a, Rat) and isinstance(b, Rat):
          return a * b
        if isinstance(a, Rat) and isinstance(b, NC):
          return b.scale(a)
        if isinstance(a, NC) and isinstance(b, Rat):
          return a.scale(b)
        # column vector * matrix: row scaling Diag(v) M ; matrix * row
        # vector: column scaling M Diag(v)
        if isinstance(a, NC) and isinstance(b, NC):
          if a.kind == 'col' and b.kind == 'mat':
            return _diag(a).mul(b)
          if a.kind == 'mat' and b.kind == 'col':
            return _diag(b).mul(a)
          if a.kind == 'mat' and b.kind == 'row':
            return a.mul(_diag(b.T()))
          if a.kind == 'row' and b.kind == 'mat':
            return b.mul(_diag(a.T()))
        return None
      if isinstance(op, ast.Div):
        if isinstance(b, Rat) and not b.is_zero():
          if isinstance(a, Rat):
            return a / b
          return a.scale(Rat.const(1) / b)
        return None
      if isinstance(op, ast.Pow) and isinstance(a, Rat) and \
              isinstance(e.right, ast.Constant) and \
              isinstance(e.right.value, int):
        return a.pow(e.right.value)
      return None
    if isinstance(e, ast.Call):
      return self.ev_call(e)
    return None

  def ev_call(self, e):
    d = self.canon_of(e.func)
    f = e.func
    kw = {k.arg: ast.unparse(k.value) for k in e.keywords if k.arg}
    if isinstance(f, ast.Attribute) and d is None:
      recv = self.ev(f.value)
      if f.attr == 'dot' and len(e.args) == 1:
        b = self.ev(e.args[0])
        return recv.mul(b) if isinstance(recv, NC) and isinstance(b, NC) \
            else None
      if f.attr == 'sum' and isinstance(recv, NC) and recv.kind == 'mat':
        ax = kw.get('axis', ast.unparse(e.args[0]) if e.args else None)
        if ax == '0':
          return recv.T().mul(NC.ones())        # column sums: M^T 1
        if ax in ('1', '-1'):
          return recv.mul(NC.ones())            # row sums: M 1
        return None
      if f.attr in ('copy',) and isinstance(recv, NC):
        return recv
      if f.attr == 'transpose' and not e.args and isinstance(recv, NC):
        return recv.T()
    np_ = lambda n: d is not None and d.split('.')[-1] == n and \
        d.startswith('numpy')
    if d is not None and (np_('dot') or np_('matmul')) and len(e.args) == 2:
      a, b = self.ev(e.args[0]), self.ev(e.args[1])
      return a.mul(b) if isinstance(a, NC) and isinstance(b, NC) else None
    if d is not None and np_('outer') and len(e.args) == 2:
      a, b = self.ev(e.args[0]), self.ev(e.args[1])
      if isinstance(a, NC) and isinstance(b, NC) and \
              a.kind in ('col', 'row') and b.kind in ('col', 'row'):
        a = a if a.kind == 'col' else a.T()
        b = b if b.kind == 'row' else b.T()
        return a.mul(b)
      return None
    if d is not None and np_('diag') and len(e.args) == 1:
      v = self.ev(e.args[0])
      if isinstance(v, NC) and v.kind in ('col', 'row'):
        return _diag(v if v.kind == 'col' else v.T())
      return None
    if d is not None and np_('sum') and e.args:
      v = self.ev(e.args[0])
      ax = kw.get('axis', ast.unparse(e.args[1]) if len(e.args) > 1 else None)
      if isinstance(v, NC) and v.kind == 'mat':
        if ax == '0':
          return v.T().mul(NC.ones())
        if ax in ('1', '-1'):
          return v.mul(NC.ones())
      return None
    if d is not None and np_('transpose') and len(e.args) == 1:
      v = self.ev(e.args[0])
      return v.T() if isinstance(v, NC) else None
    if self.helper is not None and self.depth < 3:
      h = self.helper(e)
      if h is not None:
        params, body = h
        if len(params) == len(e.args) and not e.keywords:
          vals = [self.ev(a) for a in e.args]
          if all(v is not None for v in vals):
            sub = NCEval({}, self.scalars, self.canon_of, self.helper,
                         self.special)
            sub.depth = self.depth + 1
            for p, v in zip(params, vals):
              if isinstance(v, NC):
                sub.mats[p] = v
              else:
                sub.scalars[p] = v
            return sub.run_body(body)
    return None

  def run_body(self, body):
    """straight-line statements ending with a return"""
    for s in body:
      if isinstance(s, ast.Expr) and isinstance(s.value, ast.Constant):
        continue      # docstring
      if isinstance(s, ast.Assign) and len(s.targets) == 1 and \
              isinstance(s.targets[0], ast.Name):
        v = self.ev(s.value)
        if isinstance(v, NC):
          self.mats[s.targets[0].id] = v
        elif isinstance(v, Rat):
          self.scalars[s.targets[0].id] = v
        else:
          self.mats.pop(s.targets[0].id, None)
        continue
      if isinstance(s, ast.Return):
        return self.ev(s.value) if s.value is not None else None
      return None
    return None


def _diag(colvec):
  """Diag(v) as a matrix word (v a column vector NC)"""
  return NC({(('diag', repr(colvec)),): Rat.const(1)}, 'mat')
