"""./check <Cnn> [--tier quick|thorough] [--replay path]   exit 0/1/2"""
import importlib
import os
import sys
import traceback


def main(argv=None):
  argv = list(sys.argv[1:] if argv is None else argv)
  tier = os.environ.get('VERIF_TIER', 'quick') or 'quick'
  pid = None
  i = 0
  while i < len(argv):
    a = argv[i]
    if a == '--tier':
      tier = argv[i + 1]
      i += 1
    elif a == '--replay':
      i += 1          # a replay re-runs the (deterministic) check
    elif a.startswith('C'):
      pid = a
    i += 1
  if pid is None:
    print('usage: check <Cnn> [--tier quick|thorough]')
    return 2
  if tier not in ('quick', 'thorough'):
    tier = 'quick'
  try:
    from .model import Repo, AnalysisError
    from .report import Report
    try:
      mod = importlib.import_module('mlstatic.rules.' + pid.lower())
    except ModuleNotFoundError:
      print('ANALYSIS-ERROR no check implemented for %s' % pid)
      return 2
    rep = Report(pid, tier)
    try:
      repo = Repo()
      mod.check(repo, rep, tier)
      if tier == 'thorough' and hasattr(mod, 'thorough'):
        mod.thorough(repo, rep)
    except AnalysisError as e:
      print('ANALYSIS-ERROR %s: %s' % (pid, e))
      rep.unknown('analysis', 'anchor', '', str(e))
    code = rep.finish()
    if tier == 'thorough' and code == 0:
      from . import selftest
      code = selftest.run(pid, rep)
    return code
  except SystemExit:
    raise
  except BaseException:
    traceback.print_exc()
    print('ANALYSIS-ERROR %s: analyser crashed' % pid)
    return 2


if __name__ == '__main__':
  sys.exit(main())
