"""A small interpreter for the integer / index bookkeeping of a function on
representatives of its argument space.

The constraint generators of metric-learn (`generate_knntriplets`, `chunks`,
`comb`) are bookkeeping code: how many neighbours per class, which slice of
the output a class fills, which pool a chunk is drawn from, when a request is
infeasible.  Their behaviour depends on the data only through a *layout* (how
many points each class has, which labels are unknown) and a few integers, and
everything data dependent (which point is whose neighbour, which members a
draw picks) enters through library calls whose contract is known.  Such a
function is decided by interpreting its syntax tree on representative
layouts, with

  * integers, tuples, Python lists and 1-D integer arrays (`Arr`) computed
    concretely,
  * everything else symbolic: a rule supplies a `World` whose hooks give
    meaning to the attribute reads, calls, subscripts and comparisons that
    involve symbolic values (and records the effects it cares about),
  * non-determinism (random draws) enumerated: `choose(n)` forks the run; all
    runs are explored by `runs()`.

No code of the repository is executed: this module walks the AST.  Anything
outside the interpreted subset raises Undecided (-> inconclusive, never a
refutation).
"""
import ast
from fractions import Fraction


class Undecided(Exception):
  pass


class Raised(Exception):
  """the interpreted function raises; .names = resolved base names"""

  def __init__(self, names, node=None):
    Exception.__init__(self, ','.join(names))
    self.names = names
    self.node = node


class ExcValue:
  """the exception object bound by `except ... as e`"""

  def __init__(self, names):
    self.names = names

  def __repr__(self):
    return 'ExcValue(%s)' % self.names[0]


class RepoFunc:
  """a function of the repository used as a value (passed as an argument)"""

  def __init__(self, g):
    self.g = g

  def __repr__(self):
    return 'RepoFunc(%s)' % self.g.key

  def __eq__(self, o):
    return isinstance(o, RepoFunc) and o.g.key == self.g.key

  def __hash__(self):
    return hash(self.g.key)


class Closure:
  """a function defined inside the interpreted function"""

  def __init__(self, node, env):
    self.node, self.env = node, env

  def __repr__(self):
    return 'Closure(%s)' % self.node.name


class _Return(Exception):
  def __init__(self, v):
    self.v = v


class _Break(Exception):
  pass


class _Continue(Exception):
  pass


class Arr:
  """1-D integer numpy array, element-wise arithmetic"""

  def __init__(self, xs, mask=False, root=None, idx=None):
    self.is_mask = mask     # boolean array (result of a comparison)
    # a basic slice of an array is a VIEW: it reads and writes the memory of
    # the array it was taken from (`lam_pos = lam[:k]; lam_pos[i] -= a`)
    self.root = root
    self.idx = idx
    if root is None:
      self._xs = list(xs)

  @property
  def xs(self):
    if self.root is None:
      return self._xs
    return [self.root._xs[i] for i in self.idx]

  @xs.setter
  def xs(self, v):
    v = list(v)
    if self.root is None:
      self._xs = v
    else:
      if len(v) != len(self.idx):
        raise ValueError('view length')
      for i, x in zip(self.idx, v):
        self.root._xs[i] = x

  def setitem(self, k, v):
    if self.root is None:
      self._xs[k] = v
    else:
      self.root._xs[self.idx[k]] = v

  def view(self, sl):
    """the view selected by a slice object"""
    root = self if self.root is None else self.root
    base_idx = list(range(len(self._xs))) if self.root is None else self.idx
    return Arr((), mask=self.is_mask, root=root, idx=base_idx[sl])

  def __len__(self):
    return len(self.xs)

  def __repr__(self):
    return 'Arr(%r)' % (self.xs,)

  def __eq__(self, o):
    return isinstance(o, Arr) and self.xs == o.xs

  def __hash__(self):
    return hash(tuple(self.xs))


class Lib:
  """a library object named by its dotted path (np.intp, np.random, ...)"""

  def __init__(self, dotted):
    self.dotted = dotted

  def __repr__(self):
    return 'Lib(%s)' % self.dotted

  def __eq__(self, o):
    return isinstance(o, Lib) and o.dotted == self.dotted

  def __hash__(self):
    return hash(self.dotted)


class World:
  """hooks for symbolic values; every hook returns NotImplemented to decline"""

  def name(self, interp, ident):
    return NotImplemented

  def attr(self, interp, value, attr, node):
    return NotImplemented

  def call(self, interp, fname, recv, args, kwargs, node):
    """fname: canonical dotted name of a library function, or '.method' for
    a method call on the symbolic / concrete receiver recv"""
    return NotImplemented

  def subscript(self, interp, value, index, node):
    return NotImplemented

  def store(self, interp, target_value, index, value, node):
    return NotImplemented

  def setattr(self, interp, obj, attr, value, node):
    return NotImplemented

  def compare(self, interp, op, left, right, node):
    return NotImplemented

  def unary(self, interp, op, value, node):
    return NotImplemented

  def binop(self, interp, op, left, right, node):
    return NotImplemented

  def truth(self, interp, value, node):
    return NotImplemented

  def iterate(self, interp, value, node):
    return NotImplemented

  def warn(self, interp, node):
    pass


def _is_int(v):
  return isinstance(v, int) and not isinstance(v, bool)


def _is_num(v):
  return isinstance(v, (int, Fraction)) and not isinstance(v, bool)


class Interp:
  FUEL = 4000

  def __init__(self, repo, func, world, choices=()):
    self.repo = repo
    self.func = func
    self.world = world
    self.choices = list(choices)
    self.taken = []       # [(choice, arity)]
    self.fuel = self.FUEL
    self.env = {}

  # ------------------------------------------------------------ nondeterminism
  def choose(self, n):
    if n <= 0:
      raise Undecided('empty choice')
    k = len(self.taken)
    c = self.choices[k] if k < len(self.choices) else 0
    self.taken.append((c, n))
    return c

  # ------------------------------------------------------------ running
  def run(self, env):
    self.env = dict(env)
    try:
      self.block(self.func.node.body)
    except _Return as r:
      return ('return', r.v)
    except Raised as r:
      return ('raise', r.names, r.node)
    return ('return', None)

  def tick(self):
    self.fuel -= 1
    if self.fuel < 0:
      raise Undecided('interpretation does not terminate within the step '
                      'budget')

  def block(self, stmts):
    for s in stmts:
      self.stmt(s)

  def stmt(self, s):
    self.tick()
    if isinstance(s, ast.Expr):
      if isinstance(s.value, ast.Constant):
        return
      self.ev(s.value)
      return
    if isinstance(s, ast.Assign):
      v = self.ev(s.value)
      for t in s.targets:
        self.assign(t, v, s)
      return
    if isinstance(s, ast.AugAssign):
      cur = self.ev(_load(s.target))
      v = self.binop(s.op, cur, self.ev(s.value), s)
      # `x op= y` on an array / list updates the object in place: every other
      # name of it (an alias, the caller's variable when x is a parameter)
      # sees the change
      if isinstance(cur, Arr) and isinstance(v, Arr) and v is not cur and \
              len(v) == len(cur):
        cur.xs = v.xs
        v = cur
      elif isinstance(cur, list) and isinstance(v, list) and v is not cur \
              and isinstance(s.op, ast.Add):
        cur[:] = v
        v = cur
      elif v is not cur and isinstance(s.target, ast.Name) and \
              not isinstance(cur, (int, Fraction, str, tuple, bool, float,
                                   type(None))):
        others = [k for k, x in self.env.items()
                  if x is cur and k != s.target.id]
        if others or id(cur) in getattr(self, 'arg_ids', ()):
          raise Undecided('in-place update %s of an object that has another '
                          'name (%s): aliasing is not modelled for this value'
                          % (ast.unparse(s)[:40], ', '.join(others) or
                             'the caller\'s argument'))
      self.assign(s.target, v, s)
      return
    if isinstance(s, ast.If):
      self.block(s.body if self.truth(self.ev(s.test), s.test) else s.orelse)
      return
    if isinstance(s, ast.For):
      it = self.iterate(self.ev(s.iter), s.iter)
      broke = False
      for x in it:
        self.tick()
        self.assign(s.target, x, s)
        try:
          self.block(s.body)
        except _Break:
          broke = True
          break
        except _Continue:
          continue
      if not broke:
        self.block(s.orelse)
      return
    if isinstance(s, ast.While):
      broke = False
      while self.truth(self.ev(s.test), s.test):
        self.tick()
        try:
          self.block(s.body)
        except _Break:
          broke = True
          break
        except _Continue:
          continue
      if not broke:
        self.block(s.orelse)
      return
    if isinstance(s, ast.Return):
      raise _Return(self.ev(s.value) if s.value is not None else None)
    if isinstance(s, ast.Raise):
      if s.exc is None:
        raise Undecided('bare raise')
      names = self.repo.exception_bases(self.func.module, s.exc)
      if isinstance(s.exc, ast.Call):
        for a_ in s.exc.args:       # the message is evaluated first
          try:
            self.ev(a_)
          except Undecided:
            pass                    # an opaque message changes nothing
      if not names:
        raise Undecided('raise %s' % ast.unparse(s.exc)[:40])
      raise Raised(names, s)
    if isinstance(s, ast.Pass):
      return
    if isinstance(s, ast.Break):
      raise _Break()
    if isinstance(s, ast.Continue):
      raise _Continue()
    if isinstance(s, ast.With):
      self.block(s.body)
      return
    if isinstance(s, ast.Delete):
      for t in s.targets:
        if isinstance(t, ast.Subscript):
          base = self.ev(t.value)
          idx = self.ev(t.slice)
          if isinstance(base, list) and _is_int(idx):
            if not -len(base) <= idx < len(base):
              raise Raised(['IndexError'], s)
            del base[idx]
            continue
        raise Undecided('del %s' % ast.unparse(t))
      return
    if isinstance(s, ast.Try):
      try:
        try:
          self.block(s.body)
        except Raised as r:
          for h in s.handlers:
            if h.type is None:
              caught = None
            else:
              types = h.type.elts if isinstance(h.type, ast.Tuple) \
                  else [h.type]
              caught = set()
              for t in types:
                caught |= set(self.repo.exception_bases(self.func.module,
                                                        t)[:1])
            if caught is None or caught & set(r.names) or \
                    caught & {'Exception', 'BaseException'}:
              if h.name:
                self.env[h.name] = ExcValue(r.names)
              self.block(h.body)
              break
          else:
            raise
        else:
          self.block(s.orelse)
      finally:
        if s.finalbody:
          self.block(s.finalbody)
      return
    if isinstance(s, ast.Assert):
      return
    if isinstance(s, ast.FunctionDef) and not s.decorator_list:
      self.env[s.name] = Closure(s, self.env)
      return
    raise Undecided('statement %s' % type(s).__name__)

  def assign(self, t, v, node):
    if isinstance(t, ast.Name):
      self.env[t.id] = v
      return
    if isinstance(t, (ast.Tuple, ast.List)):
      vals = self.iterate(v, node)
      if any(isinstance(e, ast.Starred) for e in t.elts):
        i = [k for k, e in enumerate(t.elts)
             if isinstance(e, ast.Starred)][0]
        after = len(t.elts) - i - 1
        if len(vals) < len(t.elts) - 1:
          raise Raised(['ValueError'], node)
        for e, x in zip(t.elts[:i], vals[:i]):
          self.assign(e, x, node)
        self.assign(t.elts[i].value, list(vals[i:len(vals) - after]), node)
        for e, x in zip(t.elts[i + 1:], vals[len(vals) - after:]):
          self.assign(e, x, node)
        return
      if len(vals) != len(t.elts):
        raise Raised(['ValueError'], node)
      for e, x in zip(t.elts, vals):
        self.assign(e, x, node)
      return
    if isinstance(t, ast.Subscript):
      base = self.ev(t.value)
      idx = self.ev_index(t.slice)
      if isinstance(base, dict):
        try:
          base[idx] = v
        except TypeError:
          raise Undecided('unhashable key')
        return
      if isinstance(base, Arr) and isinstance(idx, Arr) and \
              len(idx) == len(base) and all(x in (0, 1) for x in idx.xs) \
              and getattr(idx, 'is_mask', False):
        if isinstance(v, Arr):
          if len(v) != sum(idx.xs):
            raise Raised(['ValueError'], node)
          vals = list(v.xs)
        else:
          vals = [v] * sum(idx.xs)
        for k_, m_ in enumerate(idx.xs):
          if m_:
            base.setitem(k_, vals.pop(0))
        return
      if isinstance(base, (list, Arr)) and _is_int(idx):
        xs = base if isinstance(base, list) else base.xs
        if not -len(xs) <= idx < len(xs):
          raise Raised(['IndexError'], node)
        if isinstance(base, Arr):
          base.setitem(idx % len(xs), v)
        else:
          xs[idx] = v
        return
      if isinstance(base, Arr) and isinstance(idx, slice) and all(
              x is None or _is_int(x)
              for x in (idx.start, idx.stop, idx.step)):
        tgt = base.view(idx)
        vals = list(v.xs) if isinstance(v, Arr) else [v] * len(tgt)
        if len(vals) != len(tgt):
          raise Raised(['ValueError'], node)
        tgt.xs = vals
        return
      r = self.world.store(self, base, idx, v, node)
      if r is NotImplemented:
        raise Undecided('store into %s' % ast.unparse(t))
      return
    if isinstance(t, ast.Attribute):
      base = self.ev(t.value)
      r = self.world.setattr(self, base, t.attr, v, node)
      if r is NotImplemented:
        raise Undecided('attribute store %s' % ast.unparse(t))
      return
    raise Undecided('assignment target %s' % ast.unparse(t))

  # ------------------------------------------------------------ expressions
  def truth(self, v, node):
    if isinstance(v, (bool, int, str, list, tuple, dict, set, frozenset,
                      Fraction)) or v is None:
      return bool(v)
    if isinstance(v, Arr):
      if len(v) == 1:
        return bool(v.xs[0])
      raise Raised(['ValueError'], node)
    r = self.world.truth(self, v, node)
    if r is NotImplemented:
      raise Undecided('truth value of %r' % (v,))
    return r

  def iterate(self, v, node):
    if isinstance(v, (list, tuple)):
      return list(v)
    if isinstance(v, range):
      return list(v)
    if isinstance(v, Arr):
      return list(v.xs)
    if isinstance(v, (set, frozenset)):
      return sorted(v, key=repr)
    if isinstance(v, dict):
      return list(v)
    r = self.world.iterate(self, v, node)
    if r is NotImplemented:
      raise Undecided('iteration over %r' % (v,))
    return r

  def ev_index(self, e):
    if isinstance(e, ast.Slice):
      lo = self.ev(e.lower) if e.lower is not None else None
      hi = self.ev(e.upper) if e.upper is not None else None
      st = self.ev(e.step) if e.step is not None else None
      return slice(lo, hi, st)
    if isinstance(e, ast.Tuple):
      return tuple(self.ev_index(x) for x in e.elts)
    return self.ev(e)

  def binop(self, op, a, b, node):
    if _is_num(a) and _is_num(b):
      try:
        if isinstance(op, ast.Add):
          return a + b
        if isinstance(op, ast.Sub):
          return a - b
        if isinstance(op, ast.Mult):
          return a * b
        if isinstance(op, ast.FloorDiv):
          return a // b
        if isinstance(op, ast.Mod):
          return a % b
        if isinstance(op, ast.Div):
          return Fraction(a) / b
        if isinstance(op, ast.Pow) and _is_int(b) and b >= 0:
          return a ** b
      except ZeroDivisionError:
        raise Raised(['ZeroDivisionError'], node)
      raise Undecided('operator %s' % type(op).__name__)
    if isinstance(a, Arr) or isinstance(b, Arr):
      if isinstance(a, Arr) and isinstance(b, Arr):
        if len(a) != len(b):
          if len(a) == 1:
            a = Arr(a.xs * len(b))
          elif len(b) == 1:
            b = Arr(b.xs * len(a))
          else:
            raise Raised(['ValueError'], node)
        return Arr(self.binop(op, x, y, node) for x, y in zip(a.xs, b.xs))
      if isinstance(a, Arr) and _is_num(b):
        return Arr(self.binop(op, x, b, node) for x in a.xs)
      if _is_num(a) and isinstance(b, Arr):
        return Arr(self.binop(op, a, y, node) for y in b.xs)
    if isinstance(a, str) and isinstance(op, ast.Mod):
      return '<message>'
    if isinstance(a, str) and isinstance(b, str) and isinstance(op, ast.Add):
      return a + b
    if isinstance(a, list) and isinstance(b, list) and \
            isinstance(op, ast.Add):
      return a + b
    if isinstance(a, tuple) and isinstance(b, tuple) and \
            isinstance(op, ast.Add):
      return a + b
    if isinstance(a, (list, tuple)) and _is_int(b) and \
            isinstance(op, ast.Mult):
      return a * b
    r = self.world.binop(self, op, a, b, node)
    if r is NotImplemented:
      raise Undecided('%s of %r and %r' % (type(op).__name__, a, b))
    return r

  def compare1(self, op, a, b, node):
    if isinstance(op, ast.Is):
      return a is b or (a is None and b is None)
    if isinstance(op, ast.IsNot):
      return not (a is b or (a is None and b is None))
    plain = (int, str, bool, tuple, type(None))
    if isinstance(op, (ast.In, ast.NotIn)):
      if isinstance(b, (list, tuple, set, frozenset, range, str, dict)):
        try:
          r = a in b
        except TypeError:
          raise Undecided('membership test')
      elif isinstance(b, Arr):
        r = a in b.xs
      else:
        r = self.world.compare(self, op, a, b, node)
        if r is NotImplemented:
          raise Undecided('membership in %r' % (b,))
        return r
      return r if isinstance(op, ast.In) else not r
    if isinstance(a, Arr) or isinstance(b, Arr):
      if isinstance(a, Arr) and isinstance(b, Arr) and len(a) == len(b):
        return Arr((int(self.compare1(op, x, y, node))
                    for x, y in zip(a.xs, b.xs)), mask=True)
      if isinstance(a, Arr) and _is_num(b):
        return Arr((int(self.compare1(op, x, b, node)) for x in a.xs),
                   mask=True)
      if _is_num(a) and isinstance(b, Arr):
        return Arr((int(self.compare1(op, a, y, node)) for y in b.xs),
                   mask=True)
    if _is_num(a) and _is_num(b):
      return {ast.Lt: a < b, ast.LtE: a <= b, ast.Gt: a > b,
              ast.GtE: a >= b, ast.Eq: a == b,
              ast.NotEq: a != b}[type(op)]
    if isinstance(a, plain) and isinstance(b, plain):
      if isinstance(op, ast.Eq):
        return a == b
      if isinstance(op, ast.NotEq):
        return a != b
      if _is_int(a) and _is_int(b):
        return {ast.Lt: a < b, ast.LtE: a <= b, ast.Gt: a > b,
                ast.GtE: a >= b}[type(op)]
    r = self.world.compare(self, op, a, b, node)
    if r is NotImplemented:
      raise Undecided('comparison %s of %r and %r'
                      % (type(op).__name__, a, b))
    return r

  def ev(self, e):
    self.tick()
    if isinstance(e, ast.Constant):
      if isinstance(e.value, float):
        return Fraction(e.value)
      return e.value
    if isinstance(e, ast.Name):
      if e.id in self.env:
        return self.env[e.id]
      if e.id in self._locals():
        raise Raised(['UnboundLocalError', 'NameError'], e)
      r = self.world.name(self, e.id)
      if r is NotImplemented:
        d_ = self.repo.dotted(self.func.module, e)
        g_ = self.repo.func_by_dotted(d_) if d_ else None
        if g_ is not None and g_.cls is None:
          return RepoFunc(g_)
      if r is NotImplemented and \
              e.id in getattr(self.func.module, 'const_exprs', {}):
        # a module-level constant: evaluate its defining expression
        busy = getattr(self, '_busy', set())
        if e.id in busy:
          raise Undecided('cyclic module constant %s' % e.id)
        self._busy = busy | {e.id}
        saved = self.env
        self.env = {}
        try:
          return self.ev(self.func.module.const_exprs[e.id])
        finally:
          self.env = saved
          self._busy = busy
      if r is NotImplemented:
        import builtins
        if isinstance(getattr(builtins, e.id, None), type):
          return Lib(e.id)
        raise Undecided('name %s' % e.id)
      return r
    if isinstance(e, ast.Lambda):
      fnode = ast.FunctionDef(name='<lambda>', args=e.args,
                              body=[ast.Return(value=e.body)],
                              decorator_list=[], lineno=e.lineno,
                              col_offset=e.col_offset)
      ast.fix_missing_locations(fnode)
      return Closure(fnode, dict(self.env))
    if isinstance(e, ast.Tuple):
      return tuple(self.ev(x) for x in e.elts)
    if isinstance(e, ast.List):
      return [self.ev(x) for x in e.elts]
    if isinstance(e, ast.Set):
      try:
        return set(self.ev(x) for x in e.elts)
      except TypeError:
        raise Undecided('unhashable set element')
    if isinstance(e, ast.JoinedStr):
      return '<message>'
    if isinstance(e, ast.Dict):
      out = {}
      for k_, v_ in zip(e.keys, e.values):
        if k_ is None:
          dv = self.ev(v_)
          if not isinstance(dv, dict):
            raise Undecided('dict unpacking')
          out.update(dv)
          continue
        kk = self.ev(k_)
        try:
          hash(kk)
        except TypeError:
          raise Undecided('unhashable dict key')
        out[kk] = self.ev(v_)
      return out
    if isinstance(e, ast.UnaryOp):
      v = self.ev(e.operand)
      if isinstance(e.op, ast.Not):
        return not self.truth(v, e)
      if isinstance(e.op, ast.USub) and _is_num(v):
        return -v
      if isinstance(e.op, ast.Invert) and isinstance(v, Arr) and \
              all(x in (0, 1) for x in v.xs):
        return Arr((1 - x for x in v.xs), mask=True)
      if isinstance(e.op, ast.USub) and isinstance(v, Arr):
        return Arr(-x for x in v.xs)
      r = self.world.unary(self, e.op, v, e)
      if r is NotImplemented:
        raise Undecided('unary %s of %r' % (type(e.op).__name__, v))
      return r
    if isinstance(e, ast.BoolOp):
      res = None
      for x in e.values:
        res = self.ev(x)
        t = self.truth(res, x)
        if isinstance(e.op, ast.And) and not t:
          return res
        if isinstance(e.op, ast.Or) and t:
          return res
      return res
    if isinstance(e, ast.IfExp):
      return self.ev(e.body if self.truth(self.ev(e.test), e.test)
                     else e.orelse)
    if isinstance(e, ast.Compare):
      left = self.ev(e.left)
      res = True
      for op, r_ in zip(e.ops, e.comparators):
        right = self.ev(r_)
        res = self.compare1(op, left, right, e)
        if len(e.ops) > 1 and not self.truth(res, e):
          return False
        left = right
      return res
    if isinstance(e, ast.BinOp):
      return self.binop(e.op, self.ev(e.left), self.ev(e.right), e)
    if isinstance(e, ast.Attribute):
      d = self.repo.dotted(self.func.module, e)
      if d is not None and not self._local_root(e):
        if d == 'numpy.newaxis':
          return None
        return Lib(d)
      base = self.ev(e.value)
      r = self.world.attr(self, base, e.attr, e)
      if r is not NotImplemented:
        return r
      if isinstance(base, Arr):
        if e.attr == 'shape':
          return (len(base),)
        if e.attr == 'size':
          return len(base)
      raise Undecided('attribute %s of %r' % (e.attr, base))
    if isinstance(e, ast.Subscript):
      base = self.ev(e.value)
      idx = self.ev_index(e.slice)
      return self.subscript(base, idx, e)
    if isinstance(e, (ast.ListComp, ast.GeneratorExp, ast.SetComp)):
      out = []
      self.comp(e, 0, out)
      return set(out) if isinstance(e, ast.SetComp) else out
    if isinstance(e, ast.Call):
      return self.call(e)
    if isinstance(e, ast.Starred):
      raise Undecided('starred expression')
    raise Undecided('expression %s' % type(e).__name__)

  def _locals(self):
    if getattr(self, '_loc', None) is None:
      loc = set()
      for n in ast.walk(self.func.node):
        if isinstance(n, ast.Name) and isinstance(n.ctx, ast.Store):
          loc.add(n.id)
      # comprehension targets are not function locals, parameters are bound
      for n in ast.walk(self.func.node):
        if isinstance(n, (ast.ListComp, ast.GeneratorExp, ast.SetComp,
                          ast.DictComp)):
          for g in n.generators:
            for x in ast.walk(g.target):
              if isinstance(x, ast.Name):
                loc.discard(x.id)
      self._loc = loc
    return self._loc

  def _local_root(self, e):
    while isinstance(e, ast.Attribute):
      e = e.value
    return isinstance(e, ast.Name) and e.id in self.env

  def comp(self, e, k, out):
    if k == len(e.generators):
      out.append(self.ev(e.elt))
      return
    g = e.generators[k]
    saved = dict(self.env)
    for x in self.iterate(self.ev(g.iter), g.iter):
      self.assign(g.target, x, e)
      if all(self.truth(self.ev(c), c) for c in g.ifs):
        self.comp(e, k + 1, out)
    # comprehension variables do not leak
    for nm in [n.id for n in ast.walk(g.target) if isinstance(n, ast.Name)]:
      if nm in saved:
        self.env[nm] = saved[nm]
      else:
        self.env.pop(nm, None)

  def subscript(self, base, idx, node):
    if isinstance(base, dict):
      try:
        if idx in base:
          return base[idx]
      except TypeError:
        raise Undecided('unhashable key')
      raise Raised(['KeyError'], node)
    if isinstance(base, (list, tuple, str, range)):
      if _is_int(idx) or isinstance(idx, slice):
        if isinstance(idx, slice) and not all(
                x is None or _is_int(x)
                for x in (idx.start, idx.stop, idx.step)):
          raise Undecided('slice bounds')
        try:
          r = base[idx]
        except IndexError:
          raise Raised(['IndexError'], node)
        return list(r) if isinstance(r, range) else r
    if isinstance(base, Arr):
      if _is_int(idx):
        try:
          return base.xs[idx]
        except IndexError:
          raise Raised(['IndexError'], node)
      if isinstance(idx, slice) and all(
              x is None or _is_int(x)
              for x in (idx.start, idx.stop, idx.step)):
        return base.view(idx)
      if isinstance(idx, Arr) and len(idx) == len(base) and \
              all(x in (0, 1) for x in idx.xs) and \
              getattr(idx, 'is_mask', False):
        return Arr(x for x, m in zip(base.xs, idx.xs) if m)
    r = self.world.subscript(self, base, idx, node)
    if r is NotImplemented:
      raise Undecided('subscript %s' % ast.unparse(node)[:60])
    return r

  def call(self, e):
    f = e.func
    args = []
    for a in e.args:
      if isinstance(a, ast.Starred):
        args.extend(self.iterate(self.ev(a.value), a))
      else:
        args.append(self.ev(a))
    kwargs = {}
    for k in e.keywords:
      if k.arg is None:
        dv = self.ev(k.value)
        if not isinstance(dv, dict) or \
                not all(isinstance(x, str) for x in dv):
          raise Undecided('**%r' % (dv,))
        for kk, vv in dv.items():
          if kk in kwargs:
            raise Raised(['TypeError'], e)
          kwargs[kk] = vv
        continue
      if k.arg in kwargs:
        raise Raised(['TypeError'], e)
      kwargs[k.arg] = self.ev(k.value)
    # builtins
    if isinstance(f, ast.Name) and f.id not in self.env and \
            self.repo.dotted(self.func.module, f) is None:
      r = self.world.call(self, f.id, None, args, kwargs, e)
      if r is not NotImplemented:
        return r
      r = self.builtin(f.id, args, kwargs, e)
      if r is not NotImplemented:
        return r
    d = self.repo.dotted(self.func.module, f)
    if d is not None:
      if d == 'warnings.warn':
        self.world.warn(self, e)
        return None
      r = self.world.call(self, d, None, args, kwargs, e)
      if r is not NotImplemented:
        return r
      r = self.libcall(d, args, kwargs, e)
      if r is not NotImplemented:
        return r
      g = self.repo.func_by_dotted(d)
      if g is not None and g.cls is None:
        return self.invoke(g, args, kwargs, e)
      raise Undecided('call of %s' % d)
    if isinstance(f, ast.Attribute):
      recv = self.ev(f.value)
      r = self.world.call(self, '.' + f.attr, recv, args, kwargs, e)
      if r is not NotImplemented:
        return r
      r = self.method(recv, f.attr, args, kwargs, e)
      if r is not NotImplemented:
        return r
      if isinstance(f.value, ast.Name) and f.value.id == 'self' and \
              self.func.cls is not None:
        g = self.repo.resolve_method(self.func.cls, f.attr)
        if g is not None:
          decos = [ast.unparse(d_) for d_ in g.node.decorator_list]
          if 'staticmethod' in decos:
            return self.invoke(g, args, kwargs, e)
          return self.invoke(g, [recv] + args, kwargs, e)
      raise Undecided('method %s of %r' % (f.attr, recv))
    if isinstance(f, ast.Name) and f.id in self.env:
      callee = self.env[f.id]
      if isinstance(callee, Closure):
        return self.call_closure(callee, args, kwargs, e)
      if isinstance(callee, RepoFunc):
        r = self.world.call(self, callee.g.module.name + '.' +
                            callee.g.name, None, args, kwargs, e)
        if r is not NotImplemented:
          return r
        return self.invoke(callee.g, args, kwargs, e)
      r = self.world.call(self, '()', callee, args, kwargs, e)
      if r is not NotImplemented:
        return r
    if isinstance(f, (ast.Call, ast.Subscript, ast.Lambda, ast.IfExp)):
      # the callee is itself computed (an entry of a dispatch table, ...)
      callee = self.ev(f)
      if isinstance(callee, Closure):
        return self.call_closure(callee, args, kwargs, e)
      if isinstance(callee, RepoFunc):
        return self.invoke(callee.g, args, kwargs, e)
      r = self.world.call(self, '()', callee, args, kwargs, e)
      if r is not NotImplemented:
        return r
    raise Undecided('call %s' % ast.unparse(f)[:50])

  def call_closure(self, c, args, kwargs, node):
    depth = getattr(self, 'depth', 0)
    if depth >= 6:
      raise Undecided('call depth')
    a = c.node.args
    if a.vararg or a.kwarg or a.posonlyargs or a.kwonlyargs:
      raise Undecided('signature of closure %s' % c.node.name)
    names = [x.arg for x in a.args]
    if len(args) > len(names):
      raise Raised(['TypeError'], node)
    env = dict(c.env)             # reads of the enclosing scope
    env.update(zip(names, args))
    for k, v in kwargs.items():
      if k not in names:
        raise Raised(['TypeError'], node)
      env[k] = v
    for nm, dv in zip(names[len(names) - len(a.defaults):], a.defaults):
      if nm not in env or nm not in list(names[:len(args)]) + list(kwargs):
        env.setdefault(nm, self.ev(dv))
    sub = Interp(self.repo, self.func, self.world, ())
    sub.arg_ids = set(id(x) for x in list(args) + list(kwargs.values()))
    sub.depth = depth + 1
    sub.fuel = self.fuel
    sub.choices = self.choices
    sub.taken = self.taken
    sub.env = env
    try:
      sub.block(c.node.body)
      res = None
    except _Return as r:
      res = r.v
    self.fuel = sub.fuel
    return res

  def invoke(self, g, args, kwargs, node):
    """interpret a function of the repository with the same world"""
    depth = getattr(self, 'depth', 0)
    if depth >= 4:
      raise Undecided('call depth')
    a = g.node.args
    if a.vararg or a.kwarg or a.posonlyargs:
      raise Undecided('signature of %s' % g.key)
    names = [x.arg for x in a.args]
    if len(args) > len(names):
      raise Raised(['TypeError'], node)
    env = dict(zip(names, args))
    for k, v in kwargs.items():
      if k in env or (k not in names and
                      k not in [x.arg for x in a.kwonlyargs]):
        raise Raised(['TypeError'], node)
      env[k] = v
    defaults = a.defaults
    for nm, dv in zip(names[len(names) - len(defaults):], defaults):
      if nm not in env:
        env[nm] = self.ev(dv)
    for x, dv in zip(a.kwonlyargs, a.kw_defaults):
      if x.arg not in env:
        if dv is None:
          raise Raised(['TypeError'], node)
        env[x.arg] = self.ev(dv)
    if any(nm not in env for nm in names):
      raise Raised(['TypeError'], node)
    sub = Interp(self.repo, g, self.world, ())
    sub.arg_ids = set(id(x) for x in env.values())
    sub.depth = depth + 1
    sub.fuel = self.fuel
    sub.choices = self.choices
    sub.taken = self.taken          # one choice sequence for the whole run
    out = sub.run(env)
    self.fuel = sub.fuel
    if out[0] == 'raise':
      raise Raised(out[1], out[2])
    return out[1]

  def call_value(self, callee, args, kwargs, node):
    """call a first-class value (closure, or a symbolic callable through the
    world)"""
    if isinstance(callee, Closure):
      return self.call_closure(callee, args, kwargs, node)
    r = self.world.call(self, '()', callee, args, kwargs, node)
    if r is NotImplemented:
      raise Undecided('call of %r' % (callee,))
    return r

  def builtin(self, name, args, kwargs, node):
    if name == 'len' and len(args) == 1:
      v = args[0]
      if isinstance(v, (list, tuple, str, set, frozenset, dict, Arr, range)):
        return len(v)
      raise Undecided('len of %r' % (v,))
    if name == 'range' and all(_is_int(a) for a in args) and args:
      return list(range(*args))
    if name == 'enumerate' and len(args) >= 1:
      start = args[1] if len(args) > 1 else kwargs.get('start', 0)
      return [(i + start, x)
              for i, x in enumerate(self.iterate(args[0], node))]
    if name == 'slice' and 1 <= len(args) <= 3 and all(
            a is None or _is_int(a) for a in args):
      return slice(*args)
    if name == 'reversed' and len(args) == 1:
      return list(reversed(self.iterate(args[0], node)))
    if name == 'zip':
      return [tuple(t) for t in zip(*[self.iterate(a, node) for a in args])]
    if name in ('min', 'max'):
      vals = args if len(args) > 1 else self.iterate(args[0], node)
      if all(_is_num(v) for v in vals) and vals:
        return min(vals) if name == 'min' else max(vals)
      raise Undecided('%s of %r' % (name, vals))
    if name == 'sum' and len(args) == 1:
      vals = self.iterate(args[0], node)
      if all(_is_int(v) for v in vals):
        return sum(vals)
      raise Undecided('sum of %r' % (vals,))
    if name == 'int' and len(args) == 1:
      if _is_int(args[0]):
        return args[0]
      if isinstance(args[0], Arr) and len(args[0]) == 1:
        return args[0].xs[0]
      raise Undecided('int of %r' % (args[0],))
    if name == 'divmod' and len(args) == 2 and _is_int(args[0]) and \
            _is_int(args[1]) and args[1] != 0:
      return divmod(args[0], args[1])
    if name == 'abs' and len(args) == 1 and _is_num(args[0]):
      return abs(args[0])
    if name == 'abs' and len(args) == 1 and isinstance(args[0], Arr):
      return Arr(abs(x) for x in args[0].xs)
    if name == 'list' and len(args) <= 1:
      return list(self.iterate(args[0], node)) if args else []
    if name == 'tuple' and len(args) <= 1:
      return tuple(self.iterate(args[0], node)) if args else ()
    if name == 'sorted' and len(args) == 1 and not kwargs:
      vals = self.iterate(args[0], node)
      if all(_is_int(v) for v in vals):
        return sorted(vals)
    if name == 'any' and len(args) == 1:
      return any(self.truth(v, node) for v in self.iterate(args[0], node))
    if name == 'all' and len(args) == 1:
      return all(self.truth(v, node) for v in self.iterate(args[0], node))
    if name == 'bool' and len(args) == 1:
      return self.truth(args[0], node)
    if name == 'isinstance':
      raise Undecided('isinstance')
    if name == 'callable' and len(args) == 1:
      if args[0] is None or isinstance(args[0], (int, str, list, tuple, dict,
                                                  Arr, Fraction)):
        return False
      raise Undecided('callable(%r)' % (args[0],))
    if name == 'type' and len(args) == 1:
      return Lib('type-of')
    if name == 'print':
      return None
    if name == 'dict' and not args:
      return dict(kwargs)
    if name == 'dict' and len(args) == 1 and isinstance(args[0], dict):
      d_ = dict(args[0])
      d_.update(kwargs)
      return d_
    if name == 'str' and len(args) == 1:
      if isinstance(args[0], (int, str)) and not isinstance(args[0], bool):
        return str(args[0])
      return '<message>'
    if name == 'repr' and len(args) == 1:
      return '<message>'
    if name == 'set' and len(args) <= 1:
      vals = self.iterate(args[0], node) if args else []
      try:
        return set(vals)
      except TypeError:
        raise Undecided('set of unhashable values')
    return NotImplemented

  def libcall(self, d, args, kwargs, node):
    """numpy functions on concrete integer vectors"""
    short = d.rsplit('.', 1)[-1]
    if not d.startswith('numpy.'):
      return NotImplemented

    def vec(v):
      if isinstance(v, Arr):
        return v.xs
      if isinstance(v, (list, tuple)) and all(_is_num(x) for x in v):
        return list(v)
      return None
    if short in ('abs', 'absolute', 'fabs') and len(args) == 1:
      if _is_num(args[0]):
        return abs(args[0])
      if vec(args[0]) is not None:
        return Arr(abs(x) for x in vec(args[0]))
    if short in ('less', 'less_equal', 'greater', 'greater_equal', 'equal',
                 'not_equal') and len(args) == 2 and not kwargs:
      op = {'less': ast.Lt(), 'less_equal': ast.LtE(), 'greater': ast.Gt(),
            'greater_equal': ast.GtE(), 'equal': ast.Eq(),
            'not_equal': ast.NotEq()}[short]
      return self.compare1(op, args[0], args[1], node)
    if short == 'reciprocal' and len(args) == 1 and \
            isinstance(args[0], Arr):
      where, out = kwargs.get('where'), kwargs.get('out')
      src = args[0]
      if where is not None and not isinstance(out, Arr):
        raise Undecided('np.reciprocal(where=...) without out: '
                        'uninitialised entries')
      wv = where.xs if isinstance(where, Arr) else [1] * len(src)
      res = []
      for k_, x in enumerate(src.xs):
        if wv[k_]:
          if x == 0:
            raise Undecided('division by zero')
          res.append(1 / Fraction(x))
        else:
          res.append(out.xs[k_] if isinstance(out, Arr) else x)
      if isinstance(out, Arr):
        out.xs = res
        return out
      return Arr(res)
    if short in ('putmask', 'place') and len(args) == 3 and \
            isinstance(args[0], Arr) and isinstance(args[1], Arr) and \
            len(args[0]) == len(args[1]) and _is_num(args[2]):
      args[0].xs = [args[2] if m else x
                    for x, m in zip(args[0].xs, args[1].xs)]
      return None
    if short == 'copyto' and len(args) == 2 and isinstance(args[0], Arr) \
            and not kwargs:
      src = args[1]
      vals = list(src.xs) if isinstance(src, Arr) else (
          [src] * len(args[0]) if _is_num(src) else None)
      if vals is not None and len(vals) == len(args[0]):
        args[0].xs = vals
        return None
    if short == 'flatnonzero' and len(args) == 1 and \
            isinstance(args[0], Arr):
      return Arr(i for i, x in enumerate(args[0].xs) if x)
    if short == 'nonzero' and len(args) == 1 and isinstance(args[0], Arr):
      return (Arr(i for i, x in enumerate(args[0].xs) if x),)
    if short == 'count_nonzero' and len(args) == 1 and \
            isinstance(args[0], Arr):
      return sum(1 for x in args[0].xs if x)
    if short == 'array_equal' and len(args) == 2 and \
            vec(args[0]) is not None and vec(args[1]) is not None:
      return list(vec(args[0])) == list(vec(args[1]))
    if short in ('isin', 'in1d') and len(args) == 2 and \
            vec(args[0]) is not None and vec(args[1]) is not None:
      inv = bool(kwargs.get('invert', False))
      return Arr((int((x in vec(args[1])) != inv) for x in vec(args[0])),
                 mask=True)
    if short == 'sign' and len(args) == 1 and vec(args[0]) is not None:
      return Arr((x > 0) - (x < 0) for x in vec(args[0]))
    if short in ('square',) and len(args) == 1 and vec(args[0]) is not None:
      return Arr(x * x for x in vec(args[0]))
    if short in ('logical_not',) and len(args) == 1 and \
            isinstance(args[0], Arr):
      return Arr((int(not x) for x in args[0].xs), mask=True)
    if short in ('logical_or', 'logical_and') and len(args) == 2 and \
            isinstance(args[0], Arr) and isinstance(args[1], Arr) and \
            len(args[0]) == len(args[1]):
      f_ = (lambda a, b: a or b) if short == 'logical_or' else \
          (lambda a, b: a and b)
      return Arr((int(bool(f_(a, b))) for a, b in zip(args[0].xs,
                                                      args[1].xs)), mask=True)
    if short in ('unique',) and len(args) == 1 and not kwargs and \
            vec(args[0]) is not None:
      return Arr(sorted(set(vec(args[0]))))
    if short in ('setdiff1d',) and len(args) == 2 and \
            vec(args[0]) is not None and vec(args[1]) is not None:
      return Arr(sorted(set(vec(args[0])) - set(vec(args[1]))))
    if short in ('amax', 'max', 'amin', 'min') and len(args) == 1 and \
            vec(args[0]):
      return (max if short in ('amax', 'max') else min)(vec(args[0]))
    if short in ('divide', 'true_divide') and len(args) == 2:
      where = kwargs.get('where')
      out = kwargs.get('out')
      a, b = args
      n = len(b) if isinstance(b, Arr) else (len(a) if isinstance(a, Arr)
                                             else None)
      if n is not None and (where is None or isinstance(where, Arr)):
        av = a.xs if isinstance(a, Arr) else [a] * n
        bv = b.xs if isinstance(b, Arr) else [b] * n
        wv = where.xs if where is not None else [1] * n
        if where is not None and not isinstance(out, Arr):
          raise Undecided('np.divide(where=...) without out: '
                          'uninitialised entries')
        res = []
        for k_ in range(n):
          if wv[k_]:
            if bv[k_] == 0:
              raise Undecided('division by zero')
            res.append(Fraction(av[k_]) / bv[k_])
          else:
            res.append(out.xs[k_])
        if isinstance(out, Arr):
          out.xs = res
          return out
        return Arr(res)
    if short in ('any', 'all') and len(args) == 1 and vec(args[0]) is not None:
      return (any if short == 'any' else all)(bool(x) for x in vec(args[0]))
    if short in ('logical_not',) and len(args) == 1 and \
            isinstance(args[0], Arr):
      return Arr((int(not x) for x in args[0].xs), mask=True)
    if short == 'where' and len(args) == 3 and isinstance(args[0], Arr):
      n = len(args[0])
      av = args[1].xs if isinstance(args[1], Arr) else [args[1]] * n
      bv = args[2].xs if isinstance(args[2], Arr) else [args[2]] * n
      return Arr(av[k_] if args[0].xs[k_] else bv[k_] for k_ in range(n))
    if short in ('full_like',) and len(args) == 2 and _is_int(args[1]):
      n = len(args[0]) if isinstance(args[0], (Arr, list, tuple)) else None
      if n is not None:
        return Arr([args[1]] * n)
    if short in ('zeros_like', 'ones_like', 'empty_like') and \
            len(args) == 1 and isinstance(args[0], (Arr, list, tuple)):
      return Arr([1 if short == 'ones_like' else 0] * len(args[0]))
    if short in ('full',) and len(args) == 2 and _is_int(args[1]):
      n = args[0][0] if isinstance(args[0], tuple) and len(args[0]) == 1 \
          else args[0]
      if _is_int(n):
        return Arr([args[1]] * n)
    if short in ('zeros', 'ones') and len(args) == 1:
      n = args[0][0] if isinstance(args[0], tuple) and len(args[0]) == 1 \
          else args[0]
      if _is_int(n):
        return Arr([0 if short == 'zeros' else 1] * n)
    if short in ('hstack', 'concatenate', 'append', 'r_') and args:
      parts = args[0] if short != 'append' else args
      out = []
      for p in parts:
        if _is_int(p):
          out.append(p)
        elif vec(p) is not None:
          out.extend(vec(p))
        else:
          return NotImplemented
      return Arr(out)
    if short == 'cumsum' and len(args) == 1 and vec(args[0]) is not None:
      out, t = [], 0
      for x in vec(args[0]):
        t += x
        out.append(t)
      return Arr(out)
    if short in ('sum',) and len(args) == 1 and vec(args[0]) is not None:
      return sum(vec(args[0]))
    if short in ('prod',) and len(args) == 1 and vec(args[0]) is not None:
      t = 1
      for x in vec(args[0]):
        t *= x
      return t
    if short in ('minimum', 'maximum') and len(args) == 2:
      fn = min if short == 'minimum' else max
      a, b = args
      if _is_int(a) and _is_int(b):
        return fn(a, b)
      va, vb = vec(a), vec(b)
      if va is not None and _is_int(b):
        return Arr(fn(x, b) for x in va)
      if vb is not None and _is_int(a):
        return Arr(fn(a, y) for y in vb)
      if va is not None and vb is not None and len(va) == len(vb):
        return Arr(fn(x, y) for x, y in zip(va, vb))
    if short in ('clip',) and len(args) == 3 and vec(args[0]) is not None:
      lo, hi = args[1], args[2]
      if (lo is None or _is_int(lo)) and (hi is None or _is_int(hi)):
        return Arr(min(max(x, lo) if lo is not None else x, hi)
                   if hi is not None else (max(x, lo) if lo is not None
                                           else x) for x in vec(args[0]))
    if short in ('asarray', 'array', 'copy', 'asanyarray',
                 'ascontiguousarray') and len(args) >= 1 and \
            vec(args[0]) is not None:
      dt = kwargs.get('dtype', args[1] if len(args) > 1 and
                      short != 'copy' else None)
      out = Arr(vec(args[0]), mask=getattr(args[0], 'is_mask', False))
      if dt is not None:
        # a conversion: the same effect as .astype(dt) (C truncation for int)
        return self.method(out, 'astype', [dt], {}, node)
      if short in ('asarray', 'asanyarray') and isinstance(args[0], Arr):
        return args[0]             # no copy is made of an array
      return out
    if short in ('arange',) and all(_is_int(a) for a in args) and args:
      return Arr(range(*args))
    if short in ('multiply', 'add', 'subtract') and len(args) == 2:
      op = {'multiply': ast.Mult(), 'add': ast.Add(),
            'subtract': ast.Sub()}[short]
      return self.binop(op, args[0], args[1], node)
    return NotImplemented

  def method(self, recv, attr, args, kwargs, node):
    if isinstance(recv, str) and attr in ('format', 'join'):
      return '<message>'
    if isinstance(recv, list):
      if attr == 'append' and len(args) == 1:
        recv.append(args[0])
        return None
      if attr == 'extend' and len(args) == 1:
        recv.extend(self.iterate(args[0], node))
        return None
      if attr == 'pop':
        try:
          return recv.pop(*args)
        except IndexError:
          raise Raised(['IndexError'], node)
      if attr == 'remove' and len(args) == 1:
        try:
          recv.remove(args[0])
        except ValueError:
          raise Raised(['ValueError'], node)
        return None
      if attr == 'copy':
        return list(recv)
    if isinstance(recv, Arr):
      if attr == 'cumsum' and not args:
        return self.libcall('numpy.cumsum', [recv], {}, node)
      if attr == 'sum' and not args:
        return sum(recv.xs)
      if attr == 'astype':
        t = args[0] if args else kwargs.get('dtype')
        if t in (Lib('int'), Lib('numpy.int64'), Lib('numpy.int32'),
                 Lib('numpy.intp'), 'int', 'int64'):
          import math
          return Arr(math.trunc(x) for x in recv.xs)   # C truncation
        if t in (Lib('float'), Lib('numpy.float64'), 'float', 'float64'):
          return Arr(recv.xs)
        if t in (Lib('bool'), Lib('numpy.bool_'), 'bool'):
          return Arr((int(x != 0) for x in recv.xs), mask=True)
        if all(_is_int(x) for x in recv.xs) and not recv.is_mask:
          raise Undecided('astype(%r) of an integer vector' % (t,))
        raise Undecided('astype(%r)' % (t,))
      if attr == 'ravel' or (attr == 'reshape' and args in ([-1], [(-1,)])):
        return recv.view(slice(None, None, None))    # a view of 1-D data
      if attr in ('copy', 'flatten'):
        return Arr(recv.xs, mask=recv.is_mask)
      if attr in ('all', 'any') and not args and not kwargs:
        return (all if attr == 'all' else any)(bool(x) for x in recv.xs)
      if attr == 'tolist':
        return list(recv.xs)
      if attr == 'max' and recv.xs:
        return max(recv.xs)
      if attr == 'min' and recv.xs:
        return min(recv.xs)
    if isinstance(recv, dict):
      if attr == 'get' and 1 <= len(args) <= 2:
        try:
          return recv.get(args[0], args[1] if len(args) > 1 else None)
        except TypeError:
          raise Undecided('unhashable key')
      if attr == 'items' and not args:
        return list(recv.items())
      if attr == 'keys' and not args:
        return list(recv.keys())
      if attr == 'values' and not args:
        return list(recv.values())
      if attr == 'copy' and not args:
        return dict(recv)
      if attr == 'update' and len(args) <= 1:
        if args:
          if not isinstance(args[0], dict):
            raise Undecided('dict.update')
          recv.update(args[0])
        recv.update(kwargs)
        return None
      if attr == 'pop' and 1 <= len(args) <= 2:
        if args[0] in recv:
          return recv.pop(args[0])
        if len(args) == 2:
          return args[1]
        raise Raised(['KeyError'], node)
    if isinstance(recv, set):
      if attr == 'add' and len(args) == 1:
        try:
          recv.add(args[0])
        except TypeError:
          raise Undecided('unhashable set member')
        return None
    return NotImplemented


def _load(t):
  import copy
  t2 = copy.deepcopy(t)
  for n in ast.walk(t2):
    if hasattr(n, 'ctx'):
      n.ctx = ast.Load()
  return t2


def runs(repo, func, make_world, env_of, limit=400):
  """every run of func over the choice tree: yields (world, outcome, interp).
  make_world() -> fresh World; env_of(world) -> initial environment."""
  prefix = []
  n = 0
  while True:
    n += 1
    if n > limit:
      raise Undecided('more than %d runs' % limit)
    w = make_world()
    it = Interp(repo, func, w, prefix)
    out = it.run(env_of(w))
    yield w, out, it
    # next choice vector (odometer over the taken choices)
    taken = it.taken
    k = len(taken) - 1
    while k >= 0 and taken[k][0] + 1 >= taken[k][1]:
      k -= 1
    if k < 0:
      return
    prefix = [c for c, _ in taken[:k]] + [taken[k][0] + 1]
