"""SHAPE domain: symbolic array dimensions along the def-use chain to
components_ / n_features_in_.

payload:
  ('arr', dims)   array with dims a tuple over {'n','t','d','k','?', int, ...}
  ('dim', s)      python scalar holding the dimension s
  ('shape', dims) the tuple x.shape
  ('size', dims)  1-D length given as a product of dims
  None            unknown"""
import ast
from .engine import Domain, V, NOCONST
from .tags import EventsMixin
from .model import canon

UNK = None


def arr(*dims):
  return ('arr', tuple(dims))


def dims_of(d):
  if isinstance(d, tuple) and d and d[0] == 'arr':
    return d[1]
  return None


def dimval(v):
  """dimension symbol a scalar value denotes, or None"""
  d = v.d
  if isinstance(d, tuple) and d[0] == 'dim':
    return d[1]
  c = v.const()
  if isinstance(c, int) and not isinstance(c, bool):
    return c
  return None


class ShapeDomain(EventsMixin, Domain):
  name = 'shape'
  # path-sensitive: a store on one option path must not be hidden by the
  # join with another path (identical states are merged, capped)
  fork = True
  max_states = 24

  def event(self, st, ev):
    if ev[0] == 'fact':
      EventsMixin.event(self, st, ev)

  def on_branch(self, test, val, taken, node, st):
    # `k < d` false (with k <= d from _check_n_components) means k == d
    if isinstance(test, ast.Compare) and len(test.ops) == 1 and \
            isinstance(test.ops[0], (ast.Lt, ast.GtE, ast.Gt, ast.LtE,
                                     ast.Eq, ast.NotEq)):
      l = self.eng.eval(test.left, st.copy(), self.eng.stack[-1])
      r = self.eng.eval(test.comparators[0], st.copy(), self.eng.stack[-1])
      a, b = dimval(l), dimval(r)
      op = type(test.ops[0])
      if (a, b) == ('d', 'k'):
        # d OP k  ==  k OP' d
        a, b = 'k', 'd'
        op = {ast.Lt: ast.Gt, ast.Gt: ast.Lt, ast.LtE: ast.GtE,
              ast.GtE: ast.LtE}.get(op, op)
      if (a, b) == ('k', 'd'):
        # with k <= d: (k < d) false, (k >= d) true, (k == d) true,
        # (k != d) false all mean k == d
        means_eq = {ast.Lt: False, ast.GtE: True, ast.Eq: True,
                    ast.NotEq: False}
        if op in means_eq and taken == means_eq[op]:
          self.event(st, ('fact', 'k==d'))
    # n_components is None: no reduction requested, k == d
    if isinstance(test, ast.Compare) and len(test.ops) == 1 and \
            isinstance(test.ops[0], (ast.Is, ast.IsNot)) and \
            isinstance(test.comparators[0], ast.Constant) and \
            test.comparators[0].value is None and \
            taken == isinstance(test.ops[0], ast.Is):
      src = ast.unparse(test.left)
      if src != 'self.n_components' and isinstance(test.left, ast.Name):
        fn = self.eng.stack[-1].node
        for n in ast.walk(fn):
          if isinstance(n, ast.Assign) and isinstance(n.targets[0], ast.Name) \
                  and n.targets[0].id == test.left.id and \
                  ast.unparse(n.value) == 'self.n_components':
            src = 'self.n_components'
      if src == 'self.n_components':
        self.event(st, ('fact', 'k==d'))

  def __init__(self):
    self._ev_init()
    self.sinks = []

  def top(self, node=None):
    return UNK

  def const(self, value, node=None):
    return ('none',) if value is None else UNK

  def join(self, a, b):
    if a == b:
      return a
    # None is not an array: where the value is used as one, it is the other
    if a == ('none',) and b is not None:
      return b
    if b == ('none',) and a is not None:
      return a
    da, db = dims_of(a), dims_of(b)
    if da is not None and db is not None and len(da) == len(db):
      out = []
      for x, y in zip(da, db):
        if x == y:
          out.append(x)
        else:
          out.append('?')
      return ('arr', tuple(out))
    return UNK

  def unbound_name(self, name, node, st):
    # reading an unbound local raises: that path contributes no value
    return ('none',)

  def hyperparam(self, cls, name, node):
    if name == 'n_components':
      return ('dim', 'k')
    if name == 'basis':
      # documented (n_basis, n_features); the feature dimension is checked
      # against the data by _initialize_basis (ValueError otherwise)
      return arr('?', 'd')
    return UNK

  def summary(self, target, args, kwargs, node, st):
    n = target.name
    if n == '_prepare_inputs' and target.cls is not None or \
            target.key == '_util.check_input':
      off = 1 if n == '_prepare_inputs' else 0
      toi = kwargs.get('type_of_inputs')
      tup = toi is not None and toi.const() == 'tuples'
      x = V(arr('n', 't', 'd') if tup else arr('n', 'd'), ty='ndarray')
      y = args[off + 1] if len(args) > off + 1 else kwargs.get('y')
      if n == '_prepare_inputs' and target.cls is not None:
        # records n_features_in_ itself: analysed separately
        pass
      if y is None or (y.c is not NOCONST and y.const() is None):
        return x
      return V(UNK, elts=(x, V(arr('n'), ty='ndarray')))
    if n == '_check_n_components':
      return ('dim', 'k')
    if n == 'components_from_metric' and args:
      return args[0].d
    if n == '_components_from_basis_weights' and len(args) >= 3 and \
            ('none',) in (args[1].d, args[2].d):
      return ('none',)
    if n == '_initialize_metric_mahalanobis':
      ri = kwargs.get('return_inverse')
      if ri is not None and ri.const() is True:
        return V(UNK, elts=(V(arr('d', 'd')), V(arr('d', 'd'))))
      return arr('d', 'd')
    if n == '_initialize_components' and args:
      k = dimval(args[0])
      return arr(k if k is not None else '?', 'd')
    if n in ('wrap_pairs',):
      return V(UNK, elts=(V(arr('n', 2, 'd')), V(arr('n'))))
    return None

  # ---------------------------------------------------------------- exprs
  def attr(self, v, name, node, st):
    if v.d == ('none',):
      return ('none',)
    d = dims_of(v.d)
    if name == 'shape' and d is not None:
      return V(('shape', d), elts=tuple(
          V(('dim', x)) if not isinstance(x, int)
          else V(('dim', x), c=frozenset([x])) for x in d))
    if name == 'T' and d is not None:
      return ('arr', tuple(reversed(d)))
    if name in ('real', 'imag') and d is not None:
      return v.d
    if name == 'x' and v.origin == ('optres',):
      return v.d
    if v.origin and v.origin[0] == 'extinst':
      cls = v.origin[1].rsplit('.', 1)[-1]
      if cls == 'PCA' and name == 'components_':
        return arr(v.origin[2] if v.origin[2] is not None else '?', 'd')
      if cls == 'LinearDiscriminantAnalysis' and name == 'scalings_':
        return arr('d', 'classes-1')
      return UNK
    if name == 'size' and d is not None:
      return ('size', d)
    return UNK

  def subscript(self, v, idx, node, st):
    if v.d == ('none',):
      return ('none',)      # None[...] raises: infeasible path
    d = dims_of(v.d)
    if d is None:
      return UNK
    out = []
    pos = 0
    parts = list(idx)
    if any(p[0] == 'ellipsis' for p in parts):
      i = [p[0] for p in parts].index('ellipsis')
      fill = len(d) - (len(parts) - 1 - sum(1 for p in parts
                                            if p[0] == 'newaxis'))
      parts = parts[:i] + [('slice', None, None, None)] * max(0, fill) + \
          parts[i + 1:]
    for p in parts:
      if p[0] == 'newaxis':
        out.append(1)
        continue
      if pos >= len(d):
        return UNK
      if p[0] == 'slice':
        lo, hi, stp = p[1], p[2], p[3]
        if lo is None and hi is None:
          out.append(d[pos])
        elif lo is None and hi is not None and stp is None:
          h = dimval(hi)
          out.append(h if h is not None else '?')
        else:
          out.append('?')
        pos += 1
      elif p[0] == 'expr':
        iv = p[1]
        idd = dims_of(iv.d)
        if idd is not None:
          # index / boolean array: replaces the axis by the index length
          out.extend(idd if len(idd) == 1 else ['?'])
          pos += 1
        elif iv.elts is not None:
          out.append(len(iv.elts))
          pos += 1
        elif dimval(iv) is not None or iv.const() is not NOCONST or \
                iv.d == ('scalar',):
          # scalar index (constant, dimension value, loop counter): drops
          # the axis
          pos += 1
        else:
          # an index of unknown nature (scalar? index vector? mask?)
          return UNK
    out.extend(d[pos:])
    return ('arr', tuple(out))

  def binop(self, op, l, r, node, st):
    if ('none',) in (l.d, r.d):
      return ('none',)      # arithmetic on None raises: infeasible path
    dl, dr = dims_of(l.d), dims_of(r.d)
    if isinstance(op, ast.MatMult):
      return self._dot(dl, dr)
    if dl is not None and dr is not None:
      if len(dl) == len(dr):
        return ('arr', tuple(x if x == y or y == 1 else y if x == 1 else x
                             for x, y in zip(dl, dr)))
      return ('arr', dl if len(dl) > len(dr) else dr)
    if dl is not None:
      return ('arr', dl)
    if dr is not None:
      return ('arr', dr)
    a, b = dimval(l), dimval(r)
    if isinstance(op, ast.Mult) and isinstance(l.d, tuple) and \
            l.d[0] == 'size':
      return UNK
    return UNK

  def unop(self, op, v, node, st):
    return v.d if dims_of(v.d) is not None else UNK

  def compare(self, ops, vals, node, st):
    for v in vals:
      if dims_of(v.d) is not None:
        return v.d
    return UNK

  def ifexp(self, test, a, b, node, st):
    return self.join(a.d, b.d)

  def tuple(self, elts, node, st):
    return UNK

  def iter_elem(self, v, node, st):
    d = dims_of(v.d)
    if d is not None and len(d) >= 1:
      return V(('arr', d[1:]))
    # for i in range(...): a scalar index
    it = getattr(node, 'iter', None)
    if isinstance(it, ast.Call) and isinstance(it.func, ast.Name) and \
            it.func.id == 'range':
      return V(('scalar',))
    return V(UNK)

  def unpack(self, v, n, node, st):
    if isinstance(v.d, tuple) and v.d[0] == 'shape' and len(v.d[1]) == n:
      return [V(('dim', x)) for x in v.d[1]]
    d = dims_of(v.d)
    if d is not None and len(d) >= 1:
      return [V(('arr', d[1:])) for _ in range(n)]
    return [V(UNK) for _ in range(n)]

  def _dot(self, dl, dr):
    if dl is None or dr is None:
      return UNK
    if len(dl) == 2 and len(dr) == 2:
      return arr(dl[0], dr[1])
    if len(dl) == 1 and len(dr) == 2:
      return arr(dr[1])
    if len(dl) == 2 and len(dr) == 1:
      return arr(dl[0])
    if len(dl) == 1 and len(dr) == 1:
      return arr()
    if len(dl) > 2 and len(dr) == 2:
      return ('arr', tuple(dl[:-1]) + (dr[1],))
    return UNK

  def _shape_arg(self, v):
    """dims from a shape argument: tuple of dims / single dim / x.shape"""
    if isinstance(v.d, tuple) and v.d[0] == 'shape':
      return v.d[1]
    if v.elts is not None:
      out = []
      for e in v.elts:
        x = dimval(e)
        out.append(x if x is not None else '?')
      return tuple(out)
    x = dimval(v)
    if x is not None:
      return (x,)
    return None

  def ext_call(self, dotted, args, kwargs, node, st, eng):
    name = dotted.rsplit('.', 1)[-1]
    a0 = args[0] if args else None
    d0 = dims_of(a0.d) if a0 is not None else None
    if name in ('zeros', 'ones', 'empty', 'full') and a0 is not None:
      s = self._shape_arg(a0)
      return ('arr', s) if s is not None else UNK
    if name == 'eye' and a0 is not None:
      a = dimval(a0)
      b = dimval(args[1]) if len(args) > 1 else a
      if a is not None and b is not None:
        return arr(a, b)
      return UNK
    if name in ('zeros_like', 'ones_like', 'full_like', 'empty_like', 'abs',
                'sqrt', 'exp', 'log', 'square', 'maximum', 'minimum', 'real',
                'conjugate', 'copy', 'asarray', 'asanyarray', 'array',
                'ascontiguousarray', 'pinvh', 'inv', 'pinv', 'cholesky',
                'nan_to_num', 'sign', 'negative', 'check_array', 'normalize',
                'float', 'absolute', 'isfinite', 'isnan'):
      for a in args[:2]:
        if dims_of(a.d) is not None:
          return a.d
      return UNK
    if name in ('flatnonzero', 'argwhere') and d0 is not None and \
            name == 'flatnonzero':
      return arr('?')        # index vector of unknown length
    if name == 'atleast_2d' and d0 is not None:
      return a0.d if len(d0) >= 2 else ('arr', (1,) * (2 - len(d0)) + d0)
    if name == 'cov' and d0 is not None and len(d0) == 2:
      rv = kwargs.get('rowvar')
      rowvar = True if rv is None else rv.const()
      if rowvar in (False, 0):
        return arr(d0[1], d0[1])
      return arr(d0[0], d0[0])
    if name in ('dot', 'matmul') and len(args) == 2:
      return self._dot(d0, dims_of(args[1].d))
    if name == 'outer' and len(args) == 2:
      d1 = dims_of(args[1].d)
      if d0 is not None and d1 is not None and len(d0) == len(d1) == 1:
        return arr(d0[0], d1[0])
      return UNK
    if name in ('eigh', 'eig') and d0 is not None and len(d0) == 2:
      return V(UNK, elts=(V(arr(d0[0])), V(arr(d0[0], d0[0]))))
    if name == 'eigsh' and d0 is not None and len(d0) == 2:
      k = kwargs.get('k')
      kk = dimval(k) if k is not None else 6
      kk = kk if kk is not None else '?'
      return V(UNK, elts=(V(arr(kk)), V(arr(d0[0], kk))))
    if name == 'qr' and d0 is not None and len(d0) == 2:
      mode = kwargs.get('mode')
      m = mode.const() if mode is not None else None
      default_full = dotted.startswith('scipy.')
      if m is None:
        m = 'full' if default_full else 'reduced'
      if m in ('reduced', 'economic'):
        k = d0[1]            # tall matrix: K = min(M, N) = N (k <= d)
        return V(UNK, elts=(V(arr(d0[0], k)), V(arr(k, d0[1]))))
      if m in ('full', 'complete'):
        return V(UNK, elts=(V(arr(d0[0], d0[0])), V(arr(d0[0], d0[1]))))
      return UNK
    if name in ('argsort', 'sort', 'partition', 'argpartition') and \
            d0 is not None:
      return a0.d
    if name in ('sum', 'mean', 'max', 'min', 'std', 'var', 'prod',
                'linalg.norm', 'norm') and d0 is not None:
      ax = kwargs.get('axis') or (args[1] if len(args) > 1 else None)
      if ax is None:
        return arr()
      c = ax.const()
      if isinstance(c, int) and -len(d0) <= c < len(d0):
        c = c % len(d0)
        keep = kwargs.get('keepdims')
        if keep is not None and keep.const() is True:
          return ('arr', d0[:c] + (1,) + d0[c + 1:])
        return ('arr', d0[:c] + d0[c + 1:])
      return UNK
    if name == 'diag' and d0 is not None:
      if len(d0) == 1:
        return arr(d0[0], d0[0])
      if len(d0) == 2:
        return arr(d0[0])
    if name in ('PCA', 'LinearDiscriminantAnalysis', 'KMeans',
                'NearestNeighbors'):
      k = kwargs.get('n_components')
      return V(UNK, origin=('extinst', dotted,
                            dimval(k) if k is not None else None))
    if name == 'minimize':
      x0 = kwargs.get('x0') or (args[1] if len(args) > 1 else None)
      return V(x0.d if x0 is not None else UNK, origin=('optres',))
    if name in ('graphical_lasso', '_graphical_lasso') and d0 is not None:
      return V(UNK, elts=(V(a0.d), V(a0.d), V(UNK), V(UNK)))
    if name == 'unique' and d0 is not None:
      ax = kwargs.get('axis')
      if ax is not None and ax.const() == 0:
        r = ('arr', ('?',) + d0[1:])
      else:
        r = arr('?')
      if any(k.startswith('return_') for k in kwargs):
        return V(UNK, elts=(V(r), V(arr(d0[0]) if len(d0) else UNK)))
      return r
    if name == 'vstack' and a0 is not None:
      dd = d0
      if dd is not None and len(dd) == 3:
        return arr('?', dd[2])
      if a0.elts:
        ds = [dims_of(e.d) for e in a0.elts]
        if ds[0] is not None and len(ds[0]) == 2:
          return arr('?', ds[0][1])
      return UNK
    if name == 'lstsq' and len(args) >= 2:
      d1 = dims_of(args[1].d)
      if d0 is not None and d1 is not None and len(d0) == 2 and len(d1) == 2:
        return V(UNK, elts=(V(arr(d0[1], d1[1])), V(UNK), V(UNK), V(UNK)))
      return UNK
    if name == 'len' and d0 is not None and d0:
      return ('dim', d0[0])
    if name in ('min', 'max') and dotted.startswith('builtins.'):
      vs = [dimval(a) for a in args]
      if len(vs) == 2 and vs[0] is not None and vs[0] == vs[1]:
        return ('dim', vs[0])
      return UNK
    if name == 'int' and a0 is not None:
      x = dimval(a0)
      return ('dim', x) if x is not None else UNK
    return UNK

  def method_call(self, recv, name, args, kwargs, node, st, eng):
    d = dims_of(recv.d)
    if recv.origin and recv.origin[0] == 'extinst':
      return V(UNK, origin=recv.origin)
    if name in ('randn', 'rand', 'random_sample') and args:
      ds = [dimval(a) for a in args]
      return ('arr', tuple(x if x is not None else '?' for x in ds))
    if d is None:
      return UNK
    if name == 'dot' and len(args) == 1:
      return self._dot(d, dims_of(args[0].d))
    if name in ('copy', 'astype', 'conj', 'conjugate', 'round', 'clip'):
      return recv.d
    if name in ('ravel', 'flatten'):
      return ('arr', (('*',) + tuple(d),))
    if name == 'transpose' and not args:
      return ('arr', tuple(reversed(d)))
    if name == 'reshape':
      shp = None
      if len(args) == 1:
        shp = self._shape_arg(args[0])
      elif len(args) > 1:
        shp = tuple(dimval(a) if dimval(a) is not None else '?'
                    for a in args)
      if shp is None:
        return UNK
      total = d[0][1:] if len(d) == 1 and isinstance(d[0], tuple) and \
          d[0][0] == '*' else tuple(d)
      if -1 in shp:
        known = [x for x in shp if x != -1]
        rest = list(total)
        ok = True
        for x in known:
          if x in rest:
            rest.remove(x)
          else:
            ok = False
        fill = rest[0] if ok and len(rest) == 1 else '?'
        shp = tuple(fill if x == -1 else x for x in shp)
      return ('arr', shp)
    if name in ('sum', 'mean', 'max', 'min', 'std', 'var', 'prod'):
      return self.ext_call('numpy.' + name, [recv] + list(args), kwargs,
                           node, st, eng)
    if name == 'squeeze':
      return ('arr', tuple(x for x in d if x != 1))
    return UNK

  def on_augassign(self, kind, target, op, val, node, st):
    return target.d

  def on_store_attr(self, objv, attr, val, node, st):
    EventsMixin.on_store_attr(self, objv, attr, val, node, st)
    if objv.obj is not None and objv.obj.oid == 'self' and \
            attr in ('components_', 'n_features_in_') and \
            val.d != ('none',):
      self.sinks.append((attr, val.d, self.site(node),
                         ('fact', 'k==d') in self.must(st)))
