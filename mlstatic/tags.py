"""TagDomain: payload = frozenset of tags (union join) + per-state event sets.

One generic taint / dependence / typestate domain:
  * tags flow from sources (parameters, hyper-parameters, fitted attributes,
    library calls) through every derived computation (dependence) unless a
    subclass filters them;
  * state.aux = (must, may): events that have happened on *every* path to
    this point (join = intersection: the must-pass-through / dominance
    query) and on *some* path (join = union: who-may-write / may-call);
  * observation hooks record call sites (for the API conformance rule),
    reads of unassigned fitted attributes, stores, raises.
"""
import ast
from .engine import Domain, V, NOCONST
from .model import FuncInfo, canon

EMPTY = frozenset()


class EventsMixin:
  """state.aux = (must, may) event sets + observation hooks."""

  def _ev_init(self):
    self.calls = {}
    self.events = []
    self.probes = []
    self.eng = None

  # ---- events
  def aux_init(self):
    return (EMPTY, EMPTY)

  def aux_join(self, a, b):
    if a is None:
      return b
    if b is None:
      return a
    return (a[0] & b[0], a[1] | b[1])

  def event(self, st, ev):
    must, may = st.aux
    st.aux = (must | {ev}, may | {ev})

  def must(self, st):
    return st.aux[0]

  def may(self, st):
    return st.aux[1]

  def cur(self):
    return self.eng.stack[-1] if (self.eng and self.eng.stack) else None

  def site(self, node):
    f = self.cur()
    if f is None:
      return '?'
    return '%s:%d %s' % (f.module.relpath, getattr(node, 'lineno', 0),
                         f.qualname)

  def on_call(self, kind, target, args, kwargs, node, st):
    if kind == 'repo':
      self.event(st, ('call', target.key))
    elif kind == 'ext':
      self.event(st, ('call', target))
      if target == 'warnings.warn':
        cat = kwargs.get('category') or (args[1] if len(args) > 1 else None)
        name = 'UserWarning'
        if cat is not None and cat.fn and cat.fn[0] == 'ext':
          name = cat.fn[1].rsplit('.', 1)[-1]
        self.event(st, ('warn', name))
    elif kind == 'method':
      self.event(st, ('mcall', target[1]))
    elif kind == 'class':
      self.event(st, ('new', target.key))
    for pred, cb in self.probes:
      if pred(kind, target, node):
        cb(kind, target, args, kwargs, node, st)

  def on_store_attr(self, objv, attr, val, node, st):
    if objv.obj is not None:
      self.event(st, ('store', objv.obj.oid if objv.obj.oid == 'self'
                      else objv.obj.cls.name, attr))

  def on_raise(self, excnames, node, st):
    self.events.append(('raise', excnames, node, self.cur()))


class TagDomain(EventsMixin, Domain):
  name = 'tags'

  def __init__(self):
    self._ev_init()

  # ---- payload
  def top(self, node=None):
    return EMPTY

  def const(self, value, node=None):
    return EMPTY

  def join(self, a, b):
    if a is None:
      return b
    if b is None:
      return a
    return a | b

  def flow(self, tags):
    """Tags that propagate into a value computed from a tagged value."""
    return tags

  def _u(self, *vals):
    out = EMPTY
    for v in vals:
      if v is None:
        continue
      d = v.d if isinstance(v, V) else v
      if d:
        out = out | d
      if isinstance(v, V):
        if v.elts is not None:
          for x in v.elts:
            out = out | self._u(x)
        if v.kv is not None:
          for x in v.kv.values():
            out = out | self._u(x)
    return out

  def binop(self, op, l, r, node, st):
    return self.flow(self._u(l, r))

  def unop(self, op, v, node, st):
    return self.flow(self._u(v))

  def compare(self, ops, vals, node, st):
    return self.flow(self._u(*vals))

  def boolop(self, op, vals, node, st):
    return self.flow(self._u(*vals))

  def ifexp(self, test, a, b, node, st):
    return self._u(a, b) | self.flow(self._u(test))

  def attr(self, v, name, node, st):
    return self.flow(self._u(v))

  def subscript(self, v, idx, node, st):
    return self.flow(self._u(v, *self._idx_vals(idx)))

  def _idx_vals(self, idx):
    out = []
    for p in idx:
      if p[0] == 'expr':
        out.append(p[1])
      elif p[0] == 'slice':
        out.extend(x for x in p[1:] if x is not None)
    return out

  def tuple(self, elts, node, st):
    return self._u(*elts)

  def dict(self, kv, node, st):
    return self._u(*kv.values())

  def fstring(self, vals, node, st):
    return self.flow(self._u(*vals))

  def comprehension(self, elt, iters, node, st):
    return self.flow(self._u(elt, *iters))

  def iter_elem(self, v, node, st):
    return V(self.flow(self._u(v)))

  def unpack(self, v, n, node, st):
    return [V(self.flow(self._u(v))) for _ in range(n)]

  def ext_call(self, dotted, args, kwargs, node, st, eng):
    return self.flow(self._u(*args, *kwargs.values()))

  def method_call(self, recv, name, args, kwargs, node, st, eng):
    return self.flow(self._u(recv, *args, *kwargs.values()))

  def on_augassign(self, kind, target, op, val, node, st):
    return self.flow(self._u(target, val))

  def on_store_subscript(self, target, idx, val, node, st):
    # weak update: the array now also depends on what was written into it
    # and on where it was written
    return self._u(target) | self.flow(self._u(val, *self._idx_vals(idx)))

