"""Thorough tier: checker self-validation on single-edit variants of the
current tree (written to a temp dir outside /repo and /verif, removed
afterwards). The verdict on the property always comes from /repo itself;
a failed self-validation ends the run as ANALYSIS-ERROR (exit 2)."""
import json
import os
import shutil
import subprocess
import sys
import tempfile
import time
from concurrent.futures import ThreadPoolExecutor
from .model import REPO
from .report import EVIDENCE_DIR, VERIF
from .selftest_corpus import CORPUS


def _variant(args):
  pid, idx, kind, fname, old, new, root = args
  src = os.path.join(REPO, 'metric_learn')
  td = tempfile.mkdtemp(prefix='mlstatic_var_', dir=root)
  try:
    shutil.copytree(src, os.path.join(td, 'metric_learn'))
    p = os.path.join(td, 'metric_learn', fname)
    raw = open(p, 'rb').read().decode()
    crlf = '\r\n' in raw
    s = raw.replace('\r\n', '\n')
    if s.count(old) != 1:
      return dict(idx=idx, kind=kind, file=fname, status='stale')
    s = s.replace(old, new)
    if crlf:
      s = s.replace('\n', '\r\n')
    open(p, 'wb').write(s.encode())
    env = dict(os.environ, MLSTATIC_REPO=td, MLSTATIC_NOEVIDENCE='1',
               VERIF_TIER='quick')
    r = subprocess.run([sys.executable, '-B', '-m', 'mlstatic.cli', pid,
                        '--tier', 'quick'], cwd=VERIF, env=env,
                       capture_output=True, text=True)
    first = [l for l in r.stdout.splitlines()
             if l.startswith(('REFUTED', 'INCONCLUSIVE', 'ANALYSIS'))][:1]
    return dict(idx=idx, kind=kind, file=fname, exit=r.returncode,
                status='ran', first=first[0][:200] if first else '',
                edit=(old[:70], new[:70]))
  finally:
    shutil.rmtree(td, ignore_errors=True)


def _patch_variant(args):
  """A stored change (seeded defect or behaviour-preserving refactor) applied
  as a patch to a scratch copy."""
  pid, idx, kind, name, patch, root = args
  src = os.path.join(REPO, 'metric_learn')
  td = tempfile.mkdtemp(prefix='mlstatic_var_', dir=root)
  try:
    shutil.copytree(src, os.path.join(td, 'metric_learn'))
    a = subprocess.run(['git', 'apply', '--whitespace=nowarn', patch], cwd=td,
                       capture_output=True, text=True)
    if a.returncode:
      return dict(idx=idx, kind=kind, file=name, status='stale')
    env = dict(os.environ, MLSTATIC_REPO=td, MLSTATIC_NOEVIDENCE='1',
               VERIF_TIER='quick')
    r = subprocess.run([sys.executable, '-B', '-m', 'mlstatic.cli', pid,
                        '--tier', 'quick'], cwd=VERIF, env=env,
                       capture_output=True, text=True)
    first = [l for l in r.stdout.splitlines()
             if l.startswith(('REFUTED', 'INCONCLUSIVE', 'ANALYSIS'))][:1]
    return dict(idx=idx, kind=kind, file=name, exit=r.returncode,
                status='ran', first=first[0][:200] if first else '',
                edit=(name, os.path.basename(os.path.dirname(patch))))
  finally:
    shutil.rmtree(td, ignore_errors=True)


def _stored_changes(pid):
  """(kind, name, patch path): seeded defects this check is recorded to
  report, and every stored refactor (must stay silent for every check)."""
  out = []
  sd = os.path.join(VERIF, 'seeded')
  for name in sorted(os.listdir(sd)) if os.path.isdir(sd) else []:
    mp = os.path.join(sd, name, 'meta.json')
    pp = os.path.join(sd, name, 'patch.diff')
    if os.path.exists(mp) and os.path.exists(pp):
      try:
        meta = json.load(open(mp))
      except ValueError:
        continue
      if pid in meta.get('caught_by', []):
        out.append(('break', 'seeded/' + name, pp))
  rd = os.path.join(VERIF, 'refactors')
  for name in sorted(os.listdir(rd)) if os.path.isdir(rd) else []:
    pp = os.path.join(rd, name, 'patch.diff')
    if os.path.exists(pp):
      out.append(('keep', 'refactors/' + name, pp))
  return out


def run(pid, rep):
  corpus = CORPUS.get(pid, [])
  t0 = time.time()
  root = tempfile.mkdtemp(prefix='mlstatic_selftest_')
  try:
    jobs = [(pid, i, k, f, o, n, root) for i, (k, f, o, n) in
            enumerate(corpus)]
    stored = _stored_changes(pid)
    pjobs = [(pid, len(jobs) + i, k, nm, pp, root)
             for i, (k, nm, pp) in enumerate(stored)]
    with ThreadPoolExecutor(16) as ex:
      res = list(ex.map(_variant, jobs)) + list(ex.map(_patch_variant, pjobs))
  finally:
    shutil.rmtree(root, ignore_errors=True)
  ran = [r for r in res if r['status'] == 'ran']
  stale = [r for r in res if r['status'] == 'stale']
  breaks = [r for r in ran if r['kind'] == 'break']
  keeps = [r for r in ran if r['kind'] == 'keep']
  killed = [r for r in breaks if r['exit'] == 1]
  missed = [r for r in breaks if r['exit'] != 1]
  silent = [r for r in keeps if r['exit'] == 0]
  # a stored refactor (refactors/<name>) may leave a check inconclusive
  # (exit 2: construct outside the evaluated forms, no VIOLATION line); that
  # is recorded, only an alarm (exit 1) on it fails the self-validation.
  # Hand-written single-edit keep variants must stay at exit 0.
  undecided = [r for r in keeps if r['exit'] == 2 and
               str(r['file']).startswith('refactors/')]
  noisy = [r for r in keeps if r['exit'] != 0 and r not in undecided]
  ok = not missed and not noisy
  path = os.path.join(EVIDENCE_DIR, pid + '.json')
  if os.path.exists(path) and not os.environ.get('MLSTATIC_NOEVIDENCE'):
    ev = json.load(open(path))
    ev['coverage']['self_validation'] = dict(
        variants_total=len(res), ran=len(ran), stale=len(stale),
        breaking_variants=len(breaks), killed=len(killed),
        behaviour_preserving_variants=len(keeps), silent=len(silent),
        missed=[r.get('edit') for r in missed],
        false_alarms=[r.get('edit') for r in noisy],
        inconclusive_on_stored_refactors=[r['file'] for r in undecided],
        samples=[dict(kind=r['kind'], file=r['file'], exit=r['exit'],
                      report=r['first']) for r in ran[:4]])
    ev['coverage']['evaluations'] = ev['coverage'].get('evaluations', 0) + \
        len(ran)
    ev['wall_s'] = round(ev.get('wall_s', 0) + time.time() - t0, 3)
    json.dump(ev, open(path, 'w'), indent=1, default=str)
  print('%s thorough self-validation: %d variants (%d stale): breaking '
        '%d/%d reported, behaviour-preserving %d/%d silent (%d inconclusive '
        'on stored refactors, 0 alarms required), wall=%.1fs'
        % (pid, len(res), len(stale), len(killed), len(breaks),
           len(silent), len(keeps), len(undecided), time.time() - t0))
  for r in undecided:
    print('  inconclusive on %s: %s' % (r['file'], r['first'][:160]))
  for r in missed:
    print('ANALYSIS-ERROR self-validation: breaking variant not reported '
          '(exit %s): %s -> %s' % (r['exit'], r['edit'][0], r['edit'][1]))
  for r in noisy:
    print('ANALYSIS-ERROR self-validation: behaviour-preserving variant '
          'raised an alarm (exit %s): %s -> %s [%s]'
          % (r['exit'], r['edit'][0], r['edit'][1], r['first']))
  return 0 if ok else 2
