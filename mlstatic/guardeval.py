"""Interpretation of small guard functions over representatives of a finite
partition of their arguments.

A validation helper such as `_check_n_components(n_features, n_components)`
or `_validate_calibration_params(strategy, min_rate, beta)` is a decision
table: its outcome (value returned / exception raised) depends on its
arguments only through a few comparisons with named quantities and small
constants.  For such a function the argument space splits into finitely many
classes on which every comparison is constant; interpreting the body on one
representative per class decides the table for all inputs, whatever the
spelling of the tests (nested ifs, merged conditions, early returns,
`not (a and b)`, chained comparisons, NaN-sensitive forms).

`only_compares` checks the side condition (which quantities are compared);
`run_function` interprets the body: if / raise / return / assignment of
interpreted expressions / expression statements; anything else raises
Undecided, which the rules report as inconclusive, never as a refutation.
"""
import ast


class Undecided(Exception):
  pass


def only_compares(fnode, names, consts):
  """every comparison of the function relates only `names` and the numeric
  constants in `consts` (plus None / strings / type tests)"""
  for n in ast.walk(fnode):
    if isinstance(n, ast.Compare):
      for x in [n.left] + list(n.comparators):
        for y in ast.walk(x):
          if isinstance(y, ast.Name) and y.id not in names:
            return False
          if isinstance(y, ast.Constant) and \
                  isinstance(y.value, (int, float)) and \
                  not isinstance(y.value, bool) and y.value not in consts:
            return False
          if isinstance(y, (ast.Call, ast.Attribute, ast.Subscript)):
            return False
  return True


def ev(e, env, repo=None, func=None):
  if isinstance(e, ast.Constant):
    return e.value
  if isinstance(e, ast.Name):
    if e.id in env:
      return env[e.id]
    raise Undecided('name %s' % e.id)
  if isinstance(e, (ast.Tuple, ast.List)):
    return tuple(ev(x, env, repo, func) for x in e.elts)
  if isinstance(e, ast.UnaryOp):
    v = ev(e.operand, env, repo, func)
    if isinstance(e.op, ast.Not):
      return not v
    if isinstance(e.op, ast.USub) and isinstance(v, (int, float)):
      return -v
    raise Undecided('unary %s' % type(e.op).__name__)
  if isinstance(e, ast.BoolOp):
    # Python semantics: short circuit, value of the deciding operand
    res = None
    for x in e.values:
      res = ev(x, env, repo, func)
      if isinstance(e.op, ast.And) and not res:
        return res
      if isinstance(e.op, ast.Or) and res:
        return res
    return res
  if isinstance(e, ast.IfExp):
    return ev(e.body if ev(e.test, env, repo, func) else e.orelse, env, repo,
              func)
  if isinstance(e, ast.Compare):
    left = ev(e.left, env, repo, func)
    for op, r_ in zip(e.ops, e.comparators):
      right = ev(r_, env, repo, func)
      if isinstance(op, ast.Is):
        ok = left is right
      elif isinstance(op, ast.IsNot):
        ok = left is not right
      elif isinstance(op, ast.In):
        ok = left in right
      elif isinstance(op, ast.NotIn):
        ok = left not in right
      elif isinstance(op, ast.Eq):
        ok = left == right
      elif isinstance(op, ast.NotEq):
        ok = left != right
      else:
        if not isinstance(left, (int, float)) or \
                not isinstance(right, (int, float)) or \
                isinstance(left, bool) or isinstance(right, bool):
          raise Undecided('ordering of non-numbers')
        ok = {ast.Lt: left < right, ast.LtE: left <= right,
              ast.Gt: left > right, ast.GtE: left >= right}[type(op)]
      if not ok:
        return False
      left = right
    return True
  if isinstance(e, ast.BinOp) and isinstance(e.op, (ast.Add, ast.Sub)):
    a, b = ev(e.left, env, repo, func), ev(e.right, env, repo, func)
    if all(isinstance(x, (int, float)) and not isinstance(x, bool)
           for x in (a, b)):
      return a + b if isinstance(e.op, ast.Add) else a - b
    raise Undecided('arithmetic on non-numbers')
  if isinstance(e, ast.Call) and isinstance(e.func, ast.Name) and \
          e.func.id == 'isinstance' and len(e.args) == 2:
    v = ev(e.args[0], env, repo, func)
    tn = ast.unparse(e.args[1]).replace(' ', '')
    table = {'int': (int,), 'float': (float,), 'str': (str,),
             '(int,float)': (int, float), '(float,int)': (int, float),
             '(int,np.integer)': (int,), 'numbers.Integral': (int,),
             'numbers.Real': (int, float)}
    if tn not in table:
      raise Undecided('isinstance %s' % tn)
    return isinstance(v, table[tn]) and not isinstance(v, bool)
  if isinstance(e, ast.Call) and isinstance(e.func, ast.Name) and \
          e.func.id in ('min', 'max') and e.args and not e.keywords:
    vals = [ev(a, env, repo, func) for a in e.args]
    if all(isinstance(x, (int, float)) for x in vals):
      return min(vals) if e.func.id == 'min' else max(vals)
  if isinstance(e, ast.JoinedStr) or (
          isinstance(e, ast.Call) and isinstance(e.func, ast.Attribute) and
          e.func.attr == 'format'):
    return '<message>'
  if isinstance(e, ast.BinOp) and isinstance(e.op, ast.Mod) and \
          isinstance(e.left, (ast.Constant, ast.JoinedStr)):
    return '<message>'
  raise Undecided(type(e).__name__ + ' ' + ast.unparse(e)[:40])


def run_function(repo, func, env):
  """('return', value) | '<exception base name>' for the function body
  interpreted under `env`"""
  env = dict(env)

  def run(body):
    for s in body:
      if isinstance(s, ast.Expr) and isinstance(s.value, ast.Constant):
        continue
      if isinstance(s, ast.If):
        r = run(s.body if ev(s.test, env, repo, func) else s.orelse)
        if r is not None:
          return r
      elif isinstance(s, ast.Raise):
        names = repo.exception_bases(func.module, s.exc) if s.exc is not None \
            else ['?']
        for base in ('ValueError', 'TypeError'):
          if base in names:
            return base
        return names[0]
      elif isinstance(s, ast.Return):
        return ('return', ev(s.value, env, repo, func)
                if s.value is not None else None)
      elif isinstance(s, ast.Assign) and len(s.targets) == 1 and \
              isinstance(s.targets[0], ast.Name):
        env[s.targets[0].id] = ev(s.value, env, repo, func)
      elif isinstance(s, ast.Pass):
        continue
      elif isinstance(s, ast.Expr) and isinstance(s.value, ast.Call) and \
              ast.unparse(s.value.func) in ('warnings.warn', 'print'):
        continue
      else:
        raise Undecided('statement %s' % type(s).__name__)
    return None
  r = run(func.node.body)
  return r if r is not None else ('return', None)


def reaches(body, target, test_eval):
  """Is the AST node `target` executed when `body` runs and every `if` test
  is decided by test_eval(test) (may raise Undecided)?  -> 'yes' | 'no' |
  'maybe' ('maybe': only through a test that could not be decided, or inside
  a loop / handler whose execution is not decided here)."""
  def contains(s):
    return any(x is target for x in ast.walk(s))

  def run(stmts, certain):
    """(hit, falls_through)"""
    for s in stmts:
      if isinstance(s, ast.If):
        if contains(s.test):
          return ('yes' if certain else 'maybe', False)
        try:
          t = bool(test_eval(s.test))
        except Undecided:
          t = None
        if t is not None:
          hit, falls = run(s.body if t else s.orelse, certain)
          if hit or not falls:
            return (hit, falls)
          continue
        r1, r2 = run(s.body, False), run(s.orelse, False)
        if r1[0] or r2[0]:
          return ('maybe', False)
        if not (r1[1] or r2[1]):
          return (None, False)
        certain = False
        continue
      if isinstance(s, (ast.Return, ast.Raise)):
        return (('yes' if certain else 'maybe') if contains(s) else None,
                False)
      if isinstance(s, ast.With):
        hit, falls = run(s.body, certain)
        if hit or not falls:
          return (hit, falls)
        continue
      if isinstance(s, (ast.For, ast.While, ast.Try)):
        if contains(s):
          return ('maybe', False)
        if any(isinstance(x, (ast.Return, ast.Raise)) for x in ast.walk(s)):
          certain = False
        continue
      if contains(s):
        # conditional expressions on the way down to the target
        node, ok = s, certain
        while node is not target:
          nxt = None
          for ch in ast.iter_child_nodes(node):
            if any(x is target for x in ast.walk(ch)):
              nxt = ch
              break
          if isinstance(node, ast.IfExp) and nxt is not node.test:
            try:
              t = bool(test_eval(node.test))
            except Undecided:
              t = None
            if t is None:
              ok = False
            elif t != (nxt is node.body):
              return (None, True)
          node = nxt
        return ('yes' if ok else 'maybe', False)
    return (None, True)
  return run(body, True)[0] or 'no'
