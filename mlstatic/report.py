"""Obligations, verdict (exit 0/1/2), evidence and known-findings plumbing."""
import json
import os
import sys
import time

VERIF = os.path.dirname(os.path.dirname(os.path.abspath(__file__)))
EVIDENCE_DIR = os.path.join(VERIF, 'evidence')
KNOWN = os.path.join(VERIF, 'known_findings.json')

DERIVED, REFUTED, UNKNOWN = 'derived', 'refuted', 'unknown'


class Report:
  def __init__(self, pid, tier='quick'):
    self.pid = pid
    self.tier = tier
    self.t0 = time.time()
    self.obs = []
    self.samples = []
    self.assumptions = []
    self.notes = {}
    self.functions = set()
    self.floors = []
    self.explanation = ''
    self.rules = {}

  # ------------------------------------------------------------------
  def rule(self, name, text):
    self.rules[name] = text

  def add(self, rule, construct, status, site='', detail='', sample=None):
    """rule: short rule id; construct: symbolic, line-free key of the code
    construct the obligation is about; status: derived/refuted/unknown."""
    self.obs.append(dict(rule=rule, construct=construct, status=status,
                         site=site, detail=detail))
    if sample is not None and len(self.samples) < 12:
      self.samples.append(sample)

  def derived(self, rule, construct, site='', detail='', sample=None):
    self.add(rule, construct, DERIVED, site, detail, sample)

  def refuted(self, rule, construct, site='', detail='', sample=None):
    self.add(rule, construct, REFUTED, site, detail, sample)

  def unknown(self, rule, construct, site='', detail='', sample=None):
    self.add(rule, construct, UNKNOWN, site, detail, sample)

  def floor(self, what, found, expected_min):
    """Instance-count floor: a rule matching fewer sites than were confirmed
    by hand is analysis-broken, never a silent pass."""
    self.floors.append((what, found, expected_min))

  def analysed(self, func):
    self.functions.add(getattr(func, 'key', str(func)))

  def assume(self, text):
    if text not in self.assumptions:
      self.assumptions.append(text)

  # ------------------------------------------------------------------
  def finish(self):
    known = {'findings': [], 'fixed': []}
    if os.path.exists(KNOWN):
      with open(KNOWN) as f:
        known = json.load(f)
    kf = {(k['property'], k['rule'], k['construct']): k
          for k in known.get('findings', [])}
    refuted = [o for o in self.obs if o['status'] == REFUTED]
    unknown = [o for o in self.obs if o['status'] == UNKNOWN]
    derived = [o for o in self.obs if o['status'] == DERIVED]
    new, listed = [], []
    for o in refuted:
      k = (self.pid, o['rule'], o['construct'])
      (listed if k in kf else new).append(o)
    broken_floors = [(w, f, e) for (w, f, e) in self.floors if f < e]

    for o in listed:
      k = kf[(self.pid, o['rule'], o['construct'])]
      print('KNOWN-FINDING: property=%s %s [%s %s %s]' % (
          self.pid, k.get('what', o['detail']), o['rule'], o['construct'],
          o['site']))
    for o in new:
      print('REFUTED %s rule=%s construct=%s: %s' % (
          o['site'], o['rule'], o['construct'], o['detail']))
    for o in unknown:
      print('INCONCLUSIVE %s rule=%s construct=%s: %s' % (
          o['site'], o['rule'], o['construct'], o['detail']))
    for (w, f, e) in broken_floors:
      print('ANALYSIS-ERROR instance floor: %s found=%d expected>=%d' % (
          w, f, e))

    evdir = EVIDENCE_DIR
    if os.environ.get('MLSTATIC_NOEVIDENCE'):
      import tempfile
      evdir = tempfile.mkdtemp(prefix='mlstatic_ev_')
    os.makedirs(evdir, exist_ok=True)
    replay = os.path.join(evdir, self.pid + '.replay.json')
    code = 0
    if new:
      with open(replay, 'w') as f:
        json.dump({'property': self.pid, 'refuted': new,
                   'replay_cmd': './check %s' % self.pid}, f, indent=1)
      print('VIOLATION property=%s replay=%s' % (self.pid, replay))
      code = 1
    elif unknown or broken_floors:
      code = 2
    if not new and os.path.exists(replay):
      os.remove(replay)

    wall = time.time() - self.t0
    distinct = len(set((o['rule'], o['construct']) for o in self.obs))
    by_rule = {}
    for o in self.obs:
      r = by_rule.setdefault(o['rule'], dict(derived=0, refuted=0, unknown=0))
      r[o['status']] += 1
    ev = {
        'property_id': self.pid,
        'tier': self.tier,
        'seed': int(os.environ.get('VERIF_SEED', '0') or 0),
        'level': 'other',
        'coverage': {
            'explanation': self.explanation or (
                'Static derivation over the source of /repo/metric_learn '
                '(parsed on this run): every obligation listed was decided '
                'for all inputs / paths by abstract interpretation of the '
                'resolved program, not by executing it.' + (
                    ' Obligations of the rules named R-INTERP:* are decided '
                    'on the finite partition of inputs (representative '
                    'layouts / option combinations) stated in the rule text, '
                    'by an interpreter over the function\'s syntax tree with '
                    'symbolic tokens for data and library results (the '
                    'repository code is never executed); such an obligation '
                    'holds for the stated scenarios - every data set whose '
                    'named quantities take the scenario values - not for '
                    'every input.'
                    if any(r.startswith('R-INTERP') for r in self.rules)
                    else '')),
            'obligations': len(self.obs),
            'discharged': len(derived),
            'refuted': len(refuted),
            'refuted_known_findings': len(listed),
            'inconclusive': len(unknown),
            'evaluations': max(1, len(self.obs)),
            'distinct_nontrivial': distinct,
            'rule': 'one obligation per (rule, construct): construct is a '
                    'symbolic line-free key (class.method / call site / '
                    'parameter); non-trivial = requires a derivation over the '
                    'function body (no syntactic text match)',
            'rules': self.rules,
            'by_rule': by_rule,
            'samples': self.samples or [o for o in self.obs[:6]],
            'functions_analysed': sorted(self.functions),
            'n_functions_analysed': len(self.functions),
            'instance_floors': [dict(what=w, found=f, expected_min=e)
                                for (w, f, e) in self.floors],
            'exhaustive': True,
            'checker_cmd': './check %s --tier %s' % (self.pid, self.tier),
            'trusted_base': ['CPython ast', 'mlstatic engine + transfer tables',
                             'documented numpy/scipy/scikit-learn semantics'],
        },
        'assumptions': self.assumptions,
        'wall_s': round(wall, 3),
        'violations': len(new),
    }
    ev['coverage'].update(self.notes)
    with open(os.path.join(evdir, self.pid + '.json'), 'w') as f:
      json.dump(ev, f, indent=1, default=str)
    if os.environ.get('MLSTATIC_NOEVIDENCE'):
      import shutil
      shutil.rmtree(evdir, ignore_errors=True)
    print('%s %s: obligations=%d derived=%d refuted=%d (known=%d) '
          'inconclusive=%d functions=%d wall=%.2fs -> exit %d' % (
              self.pid, self.tier, len(self.obs), len(derived), len(refuted),
              len(listed), len(unknown), len(self.functions), wall, code))
    return code
