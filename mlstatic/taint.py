"""TAINT-RAW domain: raw user data vs converted vs validated data.

  ('raw', p)  the object the caller passed as data / label parameter p
  'conv'      converted to an array by the permissive check_array/check_X_y
              call or formed by the preprocessor (not yet validated)
  'valid'     result of the strict scikit-learn validation (finite, numeric,
              min samples / features)

Any computation on a raw value other than handing it to a validator or to a
repo function parameter is recorded as a raw use."""
import ast
from .engine import V, NOCONST
from .tags import TagDomain, EMPTY
from .model import canon

CHECK_ARRAY = canon('sklearn.utils.check_array')
CHECK_X_Y = canon('sklearn.utils.validation.check_X_y')
FINITE_KW = ('ensure_all_finite', 'force_all_finite')
LABEL_SINKS = tuple(canon(x) for x in (
    'sklearn.metrics.roc_auc_score', 'sklearn.metrics.roc_curve',
    'sklearn.metrics.precision_recall_curve'))


def is_raw(d):
  return any(isinstance(t, tuple) and t[0] == 'raw' for t in (d or ()))


class TaintDomain(TagDomain):
  name = 'taint'

  def __init__(self):
    super().__init__()
    self.raw_uses = []        # (param, what, site)
    self.strict_calls = []    # (site, reasons-not-strict or None)
    self.tuple_sizes = []     # consts reaching check_tuple_size
    self.check_input_returns = []   # (tags, site)
    self.pre_calls = []       # calls through the preprocessor value

  def _raw_in(self, *vals):
    out = []
    for v in vals:
      if v is None:
        continue
      d = v.d if isinstance(v, V) else v
      for t in (d or ()):
        if isinstance(t, tuple) and t[0] == 'raw':
          out.append(t[1])
    return out

  def _use(self, what, node, *vals):
    for p in self._raw_in(*vals):
      self.raw_uses.append((p, what, self.site(node), self.cur()))

  def binop(self, op, l, r, node, st):
    self._use('arithmetic', node, l, r)
    return super().binop(op, l, r, node, st)

  def unop(self, op, v, node, st):
    if not isinstance(op, ast.Not):
      self._use('arithmetic', node, v)
    return super().unop(op, v, node, st)

  def compare(self, ops, vals, node, st):
    if not all(isinstance(o, (ast.Is, ast.IsNot)) for o in ops):
      self._use('comparison', node, *vals)
    return EMPTY

  def attr(self, v, name, node, st):
    self._use('attribute .%s' % name, node, v)
    return super().attr(v, name, node, st)

  def subscript(self, v, idx, node, st):
    self._use('subscript', node, v, *self._idx_vals(idx))
    return super().subscript(v, idx, node, st)

  def iter_elem(self, v, node, st):
    self._use('iteration', node, v)
    return super().iter_elem(v, node, st)

  def unpack(self, v, n, node, st):
    self._use('unpacking', node, v)
    return super().unpack(v, n, node, st)

  def on_augassign(self, kind, target, op, val, node, st):
    self._use('in-place update', node, target, val)
    return super().on_augassign(kind, target, op, val, node, st)

  def on_store_subscript(self, target, idx, val, node, st):
    self._use('subscript store', node, target)

  def method_call(self, recv, name, args, kwargs, node, st, eng):
    self._use('method .%s()' % name, node, recv, *args, *kwargs.values())
    return super().method_call(recv, name, args, kwargs, node, st, eng)

  def unknown_call(self, node, st):
    return EMPTY

  def hyperparam(self, cls, name, node):
    return frozenset(['usercall']) if name == 'preprocessor' else EMPTY

  def fitted_read(self, cls, name, node, st):
    return frozenset(['usercall']) if name == 'preprocessor_' else EMPTY

  def value_call(self, callee, args, kwargs, node, st):
    # result of the user's preprocessor: formed, not yet validated, data
    return V(frozenset(['conv']))

  def _strict(self, kwargs):
    """Reasons why a check_array call does not establish the documented
    input contract; empty list = strict."""
    why = []
    fin = None
    for k in FINITE_KW:
      if k in kwargs:
        fin = kwargs[k]
    if fin is not None and fin.c != frozenset([True]):
      why.append('finiteness check is %s' % (
          sorted(map(repr, fin.c)) if fin.c is not NOCONST else 'not constant True'))
    for k in ('ensure_min_samples', 'ensure_min_features'):
      if k in kwargs:
        c = kwargs[k].const()
        if c is NOCONST or not isinstance(c, int) or c < 1:
          why.append('%s=%s' % (k, 'unknown' if c is NOCONST else c))
    if 'dtype' in kwargs:
      c = kwargs['dtype'].const()
      if c is None and kwargs['dtype'].c is not NOCONST:
        why.append('dtype=None')
    if '**' in kwargs:
      why.append('unresolved **kwargs')
    return why

  def ext_call(self, dotted, args, kwargs, node, st, eng):
    if dotted == CHECK_ARRAY:
      why = self._strict(kwargs)
      self.strict_calls.append((self.site(node), why, self.cur()))
      return V(frozenset(['valid'] if not why else ['conv']), ty='ndarray')
    if dotted == CHECK_X_Y:
      why = self._strict(kwargs)
      x = V(frozenset(['valid'] if not why else ['conv']), ty='ndarray')
      y = V(frozenset(['valid']), ty='ndarray')
      r = V(frozenset(['conv', 'valid']), elts=(x, y))
      return r
    if dotted in LABEL_SINKS:
      rest = [a for a in list(args) + list(kwargs.values())]
      # label raw tags are allowed into scikit-learn metric functions
      return EMPTY
    if dotted in ('builtins.isinstance', 'builtins.type', 'builtins.callable',
                  'builtins.hasattr', 'builtins.getattr'):
      return EMPTY
    self._use('library call %s' % dotted, node, *args, *kwargs.values())
    return super().ext_call(dotted, args, kwargs, node, st, eng)

  def on_call(self, kind, target, args, kwargs, node, st):
    super().on_call(kind, target, args, kwargs, node, st)
    if kind == 'repo' and target.name == 'check_tuple_size' and \
            len(args) >= 2:
      self.tuple_sizes.append((args[1].c, self.site(node)))
    if kind == 'unknown':
      # a call through the user's preprocessor: the callee value derives
      # from the `preprocessor` hyper-parameter / `preprocessor_` attribute
      # (an unresolved internal callable is not a user-supplied one)
      if 'usercall' in (target.d or ()):
        self.pre_calls.append((target, self.site(node), self.cur(), node))
      self._use('call through a user value', node, *args, *kwargs.values())

  def call_result(self, func, ret, node, st):
    if func.key == '_util.check_input':
      self.check_input_returns.append((self._u(ret), self.site(node)))
    return ret
