"""Program model of /repo/metric_learn, rebuilt from source on every run.

Modules, import aliases (with ImportError-branch resolution), classes with C3
MRO over repo classes (external bases are leaves), functions, call
resolution.  Nothing from metric_learn is imported or executed; third-party
libraries are imported only to canonicalise names and read signatures.
"""
import ast
import importlib
import importlib.util
import os

REPO = os.environ.get('MLSTATIC_REPO', '/repo')
PKG = 'metric_learn'


class AnalysisError(Exception):
  """Anchor vanished / program not analysable: exit 2, never a verdict."""


# --------------------------------------------------------------------------
# external library name canonicalisation (object identity)

_NAMESPACES = [
    'numpy', 'numpy.linalg', 'numpy.random', 'scipy', 'scipy.linalg',
    'scipy.sparse.linalg', 'scipy.special', 'scipy.optimize',
    'sklearn.utils', 'sklearn.utils.validation', 'sklearn.utils.extmath',
    'sklearn.metrics', 'sklearn.metrics.pairwise', 'sklearn.base',
    'sklearn.decomposition', 'sklearn.discriminant_analysis',
    'sklearn.datasets', 'sklearn.neighbors', 'sklearn.cluster',
    'sklearn.preprocessing', 'sklearn.covariance',
    'sklearn.covariance._graph_lasso', 'sklearn.exceptions', 'warnings',
    'time', 'sys', 'collections', 'inspect',
]
_registry = None
_objcache = {}


def _build_registry():
  global _registry
  _registry = {}
  for ns in _NAMESPACES:
    try:
      mod = importlib.import_module(ns)
    except Exception:
      continue
    for name in dir(mod):
      if name.startswith('__'):
        continue
      try:
        obj = getattr(mod, name)
      except Exception:
        continue
      if isinstance(obj, (int, float, str, bool, tuple, type(None))):
        continue
      if isinstance(obj, type(os)):  # sub-modules are not callables
        continue
      _registry.setdefault(id(obj), ns + '.' + name)


def resolve_object(dotted):
  """The library object a dotted name denotes in this environment, or None."""
  if dotted in _objcache:
    return _objcache[dotted]
  parts = dotted.split('.')
  obj = None
  for i in range(len(parts), 0, -1):
    modname = '.'.join(parts[:i])
    if modname.split('.')[0] == PKG:
      break
    try:
      if importlib.util.find_spec(modname) is None:
        continue
      obj = importlib.import_module(modname)
    except Exception:
      continue
    try:
      for p in parts[i:]:
        obj = getattr(obj, p)
    except AttributeError:
      obj = None
    break
  _objcache[dotted] = obj
  return obj


def canon(dotted):
  """Canonical public name of an external callable (same object, same name)."""
  if dotted is None:
    return None
  top = dotted.split('.')[0]
  if top not in ('numpy', 'scipy', 'sklearn'):
    return dotted
  if _registry is None:
    _build_registry()
  obj = resolve_object(dotted)
  if obj is None:
    return dotted
  try:
    return _registry.get(id(obj), dotted)
  except Exception:
    return dotted


# --------------------------------------------------------------------------

class FuncInfo:
  def __init__(self, module, name, node, cls=None, parent=None):
    self.module = module
    self.name = name
    self.node = node
    self.cls = cls
    self.parent = parent
    decos = [d.id for d in node.decorator_list if isinstance(d, ast.Name)]
    self.is_static = 'staticmethod' in decos
    self.is_abstract = 'abstractmethod' in decos

  @property
  def qualname(self):
    if self.parent is not None:
      return self.parent.qualname + '.<locals>.' + self.name
    if self.cls is not None:
      return self.cls.name + '.' + self.name
    return self.name

  @property
  def key(self):
    return self.module.short + '.' + self.qualname

  def params(self):
    a = self.node.args
    return [x.arg for x in a.posonlyargs + a.args]

  def defaults(self):
    """{param: default ast}"""
    a = self.node.args
    pos = a.posonlyargs + a.args
    out = {}
    for p, d in zip(pos[len(pos) - len(a.defaults):], a.defaults):
      out[p.arg] = d
    for p, d in zip(a.kwonlyargs, a.kw_defaults):
      if d is not None:
        out[p.arg] = d
    return out

  def loc(self, node=None):
    n = node if node is not None else self.node
    return '%s:%d' % (self.module.relpath, getattr(n, 'lineno', 0))

  def __repr__(self):
    return '<Func %s>' % self.key


def _setattr_names(tree, call):
  """the attribute names a `setattr(obj, name, v)` call can store: a literal
  name, or the loop variable of an enclosing `for` over a literal sequence of
  (name, value) pairs / the items of a literal dict bound just before; None
  when the names cannot be enumerated"""
  if len(call.args) < 2:
    return None
  a = call.args[1]
  if isinstance(a, ast.Constant) and isinstance(a.value, str):
    return [a.value]
  if not isinstance(a, ast.Name):
    return None
  for loop in ast.walk(tree):
    if not isinstance(loop, ast.For) or not any(x is call
                                                for x in ast.walk(loop)):
      continue
    tgt = loop.target
    pos = None
    if isinstance(tgt, ast.Name) and tgt.id == a.id:
      pos = -1
    elif isinstance(tgt, ast.Tuple):
      for i, el in enumerate(tgt.elts):
        if isinstance(el, ast.Name) and el.id == a.id:
          pos = i
    if pos is None:
      continue
    it = loop.iter
    # d.items() of a dict literal assigned to a name in the same function
    if isinstance(it, ast.Call) and isinstance(it.func, ast.Attribute) and \
            it.func.attr in ('items', 'keys') and not it.args and \
            isinstance(it.func.value, ast.Dict) and pos in (0, -1):
      ks = it.func.value.keys
      if all(isinstance(k, ast.Constant) and isinstance(k.value, str)
             for k in ks):
        return [k.value for k in ks]
      return None
    if isinstance(it, ast.Call) and isinstance(it.func, ast.Attribute) and \
            it.func.attr in ('items', 'keys') and not it.args and \
            isinstance(it.func.value, ast.Name) and pos in (0, -1):
      encl = [f_ for f_ in ast.walk(tree)
              if isinstance(f_, (ast.FunctionDef, ast.Module)) and
              any(x is loop for x in ast.walk(f_))]
      scope = min(encl, key=lambda f_: sum(1 for _ in ast.walk(f_)))
      defs = [st for st in ast.walk(scope)
              if isinstance(st, ast.Assign) and len(st.targets) == 1 and
              isinstance(st.targets[0], ast.Name) and
              st.targets[0].id == it.func.value.id]
      if len(defs) == 1 and isinstance(defs[0].value, ast.Dict):
        ks = defs[0].value.keys
        if all(isinstance(k, ast.Constant) and isinstance(k.value, str)
               for k in ks):
          return [k.value for k in ks]
      return None
    if isinstance(it, (ast.Tuple, ast.List)):
      names = []
      for el in it.elts:
        if pos == -1:
          e0 = el
        elif isinstance(el, (ast.Tuple, ast.List)) and len(el.elts) > pos:
          e0 = el.elts[pos]
        else:
          return None
        if not (isinstance(e0, ast.Constant) and isinstance(e0.value, str)):
          return None
        names.append(e0.value)
      return names
    return None
  return None


class ClassInfo:
  def __init__(self, module, name, node):
    self.module = module
    self.name = name
    self.node = node
    self.methods = {}
    self.attrs = {}       # class-level simple assignments name -> ast expr
    self.bases = []       # ClassInfo or dotted str
    self._mro = None

  @property
  def key(self):
    return self.module.short + '.' + self.name

  def __repr__(self):
    return '<Class %s>' % self.key


class ModuleInfo:
  def __init__(self, name, path, relpath, src):
    self.name = name                # metric_learn._util
    self.short = name.split('.', 1)[1] if '.' in name else name
    self.path = path
    self.relpath = relpath
    self.src = src
    self.lines = src.split('\n')
    self.tree = ast.parse(src, filename=path)
    self.aliases = {}               # local name -> dotted
    self.functions = {}
    self.classes = {}
    self.consts = {}                # module-level name -> python constant
    self.const_exprs = {}           # module-level name -> ast expr


def _import_ok(stmt, modname):
  """Would this import statement succeed in this environment?"""
  try:
    if isinstance(stmt, ast.Import):
      for a in stmt.names:
        if importlib.util.find_spec(a.name.split('.')[0]) is None:
          return False
        importlib.import_module(a.name)
      return True
    if isinstance(stmt, ast.ImportFrom):
      if stmt.level:
        return True
      if importlib.util.find_spec(stmt.module.split('.')[0]) is None:
        return False
      mod = importlib.import_module(stmt.module)
      for a in stmt.names:
        if not hasattr(mod, a.name):
          try:
            importlib.import_module(stmt.module + '.' + a.name)
          except Exception:
            return False
      return True
  except Exception:
    return False
  return True


_FLIP = {ast.Lt: ast.Gt, ast.Gt: ast.Lt, ast.LtE: ast.GtE, ast.GtE: ast.LtE,
         ast.Eq: ast.Eq, ast.NotEq: ast.NotEq}


def _is_constant(e):
  return isinstance(e, ast.Constant) or (
      isinstance(e, ast.UnaryOp) and isinstance(e.op, ast.USub) and
      isinstance(e.operand, ast.Constant))


def canon_compare(node):
  """One orientation for single-operator comparisons: a constant operand goes
  to the right; otherwise only < and <= are used and the operands of == / !=
  are ordered by their text."""
  if not (isinstance(node, ast.Compare) and len(node.ops) == 1 and
          type(node.ops[0]) in _FLIP):
    return node
  l, r, op = node.left, node.comparators[0], node.ops[0]
  flip = False
  if _is_constant(l) != _is_constant(r):
    flip = _is_constant(l)
  elif isinstance(op, (ast.Gt, ast.GtE)):
    flip = True
  elif isinstance(op, (ast.Eq, ast.NotEq)):
    flip = ast.unparse(l) > ast.unparse(r)
  if not flip:
    return node
  new = ast.Compare(left=r, ops=[_FLIP[type(op)]()], comparators=[l])
  return ast.copy_location(new, node)


def cc(text):
  """Canonical spelling of an expression given as text (for the tables of
  accepted forms in the rules)."""
  tree = ast.parse(text, mode='eval')

  class C(ast.NodeTransformer):
    def visit_Compare(self, node):
      self.generic_visit(node)
      return canon_compare(node)
  return ast.unparse(ast.fix_missing_locations(C().visit(tree)).body)


def _normalise_tree(tree):
  """Canonical forms applied once at load time, so that every rule sees one
  spelling of constructs that mean the same (positions are kept):
    <numpy alias>.dot(a, b)            ->  a.dot(b)
    if not c: A else: B                ->  if c: B else: A
    a > b -> b < a; 0 < x -> x > 0     (see canon_compare)
  """
  np_names = set()
  for n in ast.walk(tree):
    if isinstance(n, ast.Import):
      for a in n.names:
        if a.name == 'numpy':
          np_names.add(a.asname or 'numpy')

  class N(ast.NodeTransformer):
    def visit_Call(self, node):
      self.generic_visit(node)
      f = node.func
      if isinstance(f, ast.Attribute) and f.attr == 'dot' and \
              isinstance(f.value, ast.Name) and f.value.id in np_names and \
              len(node.args) == 2 and not node.keywords and \
              not any(isinstance(a, ast.Starred) for a in node.args):
        new = ast.Call(
            func=ast.Attribute(value=node.args[0], attr='dot',
                               ctx=ast.Load()),
            args=[node.args[1]], keywords=[])
        ast.copy_location(new, node)
        ast.copy_location(new.func, node)
        return new
      return node

    def visit_Compare(self, node):
      self.generic_visit(node)
      return canon_compare(node)

    def visit_If(self, node):
      self.generic_visit(node)
      if isinstance(node.test, ast.UnaryOp) and \
              isinstance(node.test.op, ast.Not) and node.orelse:
        node.test, node.body, node.orelse = \
            node.test.operand, node.orelse, node.body
      return node
  N().visit(tree)
  for fn in ast.walk(tree):
    if isinstance(fn, ast.FunctionDef):
      _fold_single_use_temps(fn)
  ast.fix_missing_locations(tree)


def _fold_single_use_temps(fn):
  """t = <expr>; <next statement reads t once, nowhere else>  ->  the next
  statement with <expr> in place of t.  Only for a local bound exactly once
  in the function (plain `name = expr`), read exactly once, that read being
  in the header of the immediately following statement of the same block
  (not a `while` test, which is re-evaluated).  Introducing or removing such
  a temporary is therefore invisible to every rule."""
  changed = True
  while changed:
    changed = False
    stores, loads = {}, {}
    for n in ast.walk(fn):
      if isinstance(n, ast.Name):
        d = stores if isinstance(n.ctx, (ast.Store, ast.Del)) else loads
        d[n.id] = d.get(n.id, 0) + 1
      elif isinstance(n, ast.arg):
        stores[n.arg] = stores.get(n.arg, 0) + 2
      elif isinstance(n, ast.ExceptHandler) and n.name:
        stores[n.name] = stores.get(n.name, 0) + 2
      elif isinstance(n, (ast.Global, ast.Nonlocal)):
        for nm in n.names:
          stores[nm] = stores.get(nm, 0) + 2
    inner = set()
    for n in ast.walk(fn):
      if n is not fn and isinstance(n, (ast.FunctionDef, ast.Lambda,
                                        ast.ListComp, ast.SetComp,
                                        ast.DictComp, ast.GeneratorExp)):
        for x in ast.walk(n):
          if isinstance(x, ast.Name):
            inner.add(x.id)

    def header(st):
      if isinstance(st, (ast.Assign, ast.AugAssign, ast.Return, ast.Expr,
                         ast.AnnAssign, ast.Raise, ast.Assert)):
        return [st]
      if isinstance(st, ast.If):
        return [st.test]
      if isinstance(st, ast.For):
        return [st.iter]
      if isinstance(st, ast.With):
        return [i.context_expr for i in st.items]
      return []
    for blk_owner in ast.walk(fn):
      for fld in ('body', 'orelse', 'finalbody'):
        body = getattr(blk_owner, fld, None)
        if not (isinstance(body, list) and body and
                isinstance(body[0], ast.stmt)):
          continue
        for i in range(len(body) - 1):
          st, nx = body[i], body[i + 1]
          if not (isinstance(st, ast.Assign) and len(st.targets) == 1 and
                  isinstance(st.targets[0], ast.Name)):
            continue
          nm = st.targets[0].id
          if stores.get(nm, 0) != 1 or loads.get(nm, 0) != 1 or nm in inner:
            continue
          uses = [x for h in header(nx) for x in ast.walk(h)
                  if isinstance(x, ast.Name) and x.id == nm and
                  isinstance(x.ctx, ast.Load)]
          if len(uses) != 1:
            continue
          # the value must not be rebound-sensitive: names it reads are not
          # assigned by the next statement's own targets before the use
          val = st.value

          class Sub(ast.NodeTransformer):
            def visit_Name(self, n):
              if n is uses[0]:
                return ast.copy_location(val, n)
              return n
          for h in header(nx):
            Sub().visit(h) if not isinstance(h, ast.stmt) else None
          if isinstance(nx, ast.If):
            nx.test = Sub().visit(nx.test)
          elif isinstance(nx, ast.For):
            nx.iter = Sub().visit(nx.iter)
          elif isinstance(nx, ast.With):
            for it in nx.items:
              it.context_expr = Sub().visit(it.context_expr)
          else:
            Sub().visit(nx)
          del body[i]
          changed = True
          break
        if changed:
          break
      if changed:
        break


class Repo:
  def __init__(self, root=None):
    self.root = root or REPO
    self.modules = {}
    pkgdir = os.path.join(self.root, PKG)
    if not os.path.isdir(pkgdir):
      raise AnalysisError('package directory %s missing' % pkgdir)
    for fn in sorted(os.listdir(pkgdir)):
      if not fn.endswith('.py'):
        continue
      path = os.path.join(pkgdir, fn)
      with open(path, 'rb') as f:
        src = f.read().decode('utf-8').replace('\r\n', '\n')
      stem = fn[:-3]
      name = PKG if stem == '__init__' else PKG + '.' + stem
      try:
        m = ModuleInfo(name, path, PKG + '/' + fn, src)
      except SyntaxError as e:
        raise AnalysisError('cannot parse %s: %s' % (path, e))
      if stem == '__init__':
        m.short = '__init__'
      self.modules[name] = m
    for m in self.modules.values():
      _normalise_tree(m.tree)
    for m in self.modules.values():
      self._scan(m, m.tree.body)
    for m in self.modules.values():
      for c in m.classes.values():
        c.bases = [self._resolve_base(m, b) for b in c.node.bases]
    self.by_short = {m.short: m for m in self.modules.values()}

  # ---- scanning ---------------------------------------------------------
  def _scan(self, m, body):
    for st in body:
      if isinstance(st, ast.Import):
        for a in st.names:
          if a.asname:
            m.aliases[a.asname] = a.name
          else:
            top = a.name.split('.')[0]
            m.aliases[top] = top
      elif isinstance(st, ast.ImportFrom):
        if st.level:
          base = m.name.rsplit('.', st.level)[0] if m.name != PKG else PKG
          if m.name == PKG:
            base = PKG
          mod = base + ('.' + st.module if st.module else '')
        else:
          mod = st.module
        for a in st.names:
          m.aliases[a.asname or a.name] = mod + '.' + a.name
      elif isinstance(st, ast.FunctionDef):
        m.functions[st.name] = FuncInfo(m, st.name, st)
      elif isinstance(st, ast.ClassDef):
        c = ClassInfo(m, st.name, st)
        for s in st.body:
          if isinstance(s, ast.FunctionDef):
            c.methods[s.name] = FuncInfo(m, s.name, s, cls=c)
          elif isinstance(s, ast.Assign) and len(s.targets) == 1 and \
                  isinstance(s.targets[0], ast.Name):
            c.attrs[s.targets[0].id] = s.value
        m.classes[st.name] = c
      elif isinstance(st, ast.Assign):
        for t in st.targets:
          if isinstance(t, ast.Name):
            m.const_exprs[t.id] = st.value
            v = self.static_eval(m, st.value)
            if v is not NotImplemented:
              m.consts[t.id] = v
            else:
              m.consts.pop(t.id, None)
      elif isinstance(st, ast.Try):
        imports = [s for s in st.body
                   if isinstance(s, (ast.Import, ast.ImportFrom))]
        if imports and len(imports) == len(st.body):
          if all(_import_ok(s, m.name) for s in imports):
            self._scan(m, st.body)
            self._scan(m, st.orelse)
          else:
            for h in st.handlers:
              self._scan(m, h.body)
        else:
          # runtime probe (e.g. numpy axis kwarg): body then else
          self._scan(m, st.body)
          self._scan(m, st.orelse)
        self._scan(m, st.finalbody)
      elif isinstance(st, ast.If):
        v = self.static_eval(m, st.test)
        if v is NotImplemented:
          self._scan(m, st.body)
          self._scan(m, st.orelse)
          # names assigned differently in the branches are not constants
          for s in ast.walk(st):
            if isinstance(s, ast.Assign):
              for t in s.targets:
                if isinstance(t, ast.Name):
                  m.consts.pop(t.id, None)
        elif v:
          self._scan(m, st.body)
        else:
          self._scan(m, st.orelse)

  def static_eval(self, m, e):
    """Evaluate a module-level expression without running repo code.
    Supports literals, module constants, and the idiom
    '<lit>' in [inspect.]signature(<library callable>).parameters."""
    try:
      return ast.literal_eval(e)
    except Exception:
      pass
    if isinstance(e, ast.Name) and e.id in m.consts:
      return m.consts[e.id]
    if isinstance(e, ast.Compare) and len(e.ops) == 1 and \
            isinstance(e.ops[0], (ast.In, ast.NotIn)):
      lhs = self.static_eval(m, e.left)
      rhs = e.comparators[0]
      if lhs is not NotImplemented and isinstance(rhs, ast.Attribute) and \
              rhs.attr == 'parameters' and isinstance(rhs.value, ast.Call) \
              and self.dotted(m, rhs.value.func) == 'inspect.signature' \
              and len(rhs.value.args) == 1:
        target = self.dotted(m, rhs.value.args[0])
        obj = resolve_object(target) if target else None
        if obj is not None:
          import inspect
          try:
            res = lhs in inspect.signature(obj).parameters
          except Exception:
            return NotImplemented
          return res if isinstance(e.ops[0], ast.In) else not res
    if isinstance(e, ast.UnaryOp) and isinstance(e.op, ast.Not):
      v = self.static_eval(m, e.operand)
      return NotImplemented if v is NotImplemented else (not v)
    return NotImplemented

  def _resolve_base(self, m, expr):
    d = self.dotted(m, expr)
    c = self.class_by_dotted(d) if d else None
    return c if c is not None else (d or ast.unparse(expr))

  # ---- name resolution --------------------------------------------------
  def dotted(self, m, expr):
    """Dotted name an expression denotes at module scope, or None."""
    if isinstance(expr, ast.Name):
      if expr.id in m.aliases:
        return m.aliases[expr.id]
      if expr.id in m.functions or expr.id in m.classes:
        return m.name + '.' + expr.id
      return None
    if isinstance(expr, ast.Attribute):
      base = self.dotted(m, expr.value)
      if base is None:
        return None
      return base + '.' + expr.attr
    return None

  def func_by_dotted(self, d):
    if not d or not d.startswith(PKG):
      return None
    modname, _, name = d.rpartition('.')
    m = self.modules.get(modname)
    if m is not None:
      if name in m.functions:
        return m.functions[name]
      if name in m.aliases and m.aliases[name] != d:
        return self.func_by_dotted(m.aliases[name])
    # Class.method
    c = self.class_by_dotted(modname)
    if c is not None:
      return self.resolve_method(c, name)
    return None

  def class_by_dotted(self, d):
    if not d or not d.startswith(PKG):
      return None
    modname, _, name = d.rpartition('.')
    m = self.modules.get(modname)
    if m is None:
      return None
    if name in m.classes:
      return m.classes[name]
    if name in m.aliases and m.aliases[name] != d:
      return self.class_by_dotted(m.aliases[name])
    return None

  def get_class(self, name):
    for m in self.modules.values():
      if name in m.classes:
        return m.classes[name]
    raise AnalysisError('class %s not found' % name)

  def get_func(self, key):
    """key: 'module_short.func' or 'module_short.Class.method'."""
    parts = key.split('.')
    m = self.by_short.get(parts[0])
    if m is None:
      raise AnalysisError('module %s not found (anchor %s)' % (parts[0], key))
    if len(parts) == 2:
      if parts[1] in m.functions:
        return m.functions[parts[1]]
    elif len(parts) == 3 and parts[1] in m.classes:
      f = m.classes[parts[1]].methods.get(parts[2])
      if f is not None:
        return f
    raise AnalysisError('anchor function %s not found' % key)

  # ---- classes ----------------------------------------------------------
  def mro(self, c):
    if c._mro is not None:
      return c._mro

    def lin(x):
      if isinstance(x, str):
        return [x]
      seqs = [lin(b) for b in x.bases] + [list(x.bases)]
      res = [x]
      seqs = [list(s) for s in seqs if s]
      while seqs:
        for s in seqs:
          cand = s[0]
          if not any(cand in t[1:] for t in seqs):
            break
        else:
          raise AnalysisError('inconsistent MRO for %s' % c.name)
        res.append(cand)
        seqs = [[y for y in s if y is not cand and y != cand] for s in seqs]
        seqs = [s for s in seqs if s]
      return res
    c._mro = lin(c)
    return c._mro

  def resolve_method(self, c, name, after=None):
    """First definition of `name` along the MRO of c (optionally after class
    `after`): FuncInfo, or ('ext', 'dotted.Class.name'), or None."""
    mro = self.mro(c)
    if after is not None:
      if after in mro:
        mro = mro[mro.index(after) + 1:]
    for k in mro:
      if isinstance(k, ClassInfo):
        if name in k.methods:
          return k.methods[name]
      else:
        obj = resolve_object(k)
        if obj is not None and isinstance(obj, type):
          for kk in obj.__mro__:
            if kk is object:
              continue
            if name in vars(kk):
              return ('ext', k + '.' + name)
    return None

  def class_attr(self, c, name):
    for k in self.mro(c):
      if isinstance(k, ClassInfo) and name in k.attrs:
        return k, k.attrs[name]
    return None, None

  def estimators(self):
    init = self.modules.get(PKG)
    if init is None:
      raise AnalysisError('metric_learn/__init__.py missing')
    allv = init.consts.get('__all__')
    if not isinstance(allv, list):
      raise AnalysisError('__all__ not a literal list')
    out = []
    for n in allv:
      if n in ('Constraints', '__version__'):
        continue
      d = init.aliases.get(n)
      c = self.class_by_dotted(d)
      if c is None:
        raise AnalysisError('estimator %s in __all__ does not resolve' % n)
      out.append(c)
    if len(out) != 17:
      raise AnalysisError('expected 17 estimators in __all__, found %d'
                          % len(out))
    return out

  def init_params(self, c):
    """Constructor parameter names of class c (first __init__ on the MRO)."""
    f = self.resolve_method(c, '__init__')
    if not isinstance(f, FuncInfo):
      return []
    a = f.node.args
    return [x.arg for x in (a.posonlyargs + a.args)[1:]] + \
        [x.arg for x in a.kwonlyargs]

  def stored_attrs(self):
    """Names ever assigned as <obj>.<name> = ... anywhere in the package
    (instance attributes that can exist at run time)."""
    if getattr(self, '_stored', None) is None:
      out = set()
      for m in self.modules.values():
        for n in ast.walk(m.tree):
          if isinstance(n, ast.Attribute) and isinstance(n.ctx, ast.Store):
            out.add(n.attr)
          elif isinstance(n, ast.Call) and isinstance(n.func, ast.Name) and \
                  n.func.id == 'setattr':
            names = _setattr_names(m.tree, n)
            out.update(names if names is not None else ['*'])
          elif isinstance(n, ast.Call) and \
                  isinstance(n.func, ast.Attribute) and \
                  n.func.attr == 'update' and (
                      (isinstance(n.func.value, ast.Call) and
                       isinstance(n.func.value.func, ast.Name) and
                       n.func.value.func.id == 'vars') or
                      (isinstance(n.func.value, ast.Attribute) and
                       n.func.value.attr == '__dict__')):
            if n.args or any(k.arg is None for k in n.keywords):
              out.add('*')
            out.update(k.arg for k in n.keywords if k.arg)
      self._stored = out
    return self._stored

  def all_functions(self):
    for m in self.modules.values():
      for f in m.functions.values():
        yield f
      for c in m.classes.values():
        for f in c.methods.values():
          yield f

  def is_subclass(self, c, base_name):
    return any(isinstance(k, ClassInfo) and k.name == base_name
               for k in self.mro(c))

  def exception_bases(self, m, expr):
    """Names of the exception class an expression denotes plus its bases."""
    if isinstance(expr, ast.Call):
      expr = expr.func
    d = self.dotted(m, expr)
    names = []
    if d:
      c = self.class_by_dotted(d)
      if c is not None:
        for k in self.mro(c):
          if isinstance(k, ClassInfo):
            names.append(k.name)
          else:
            obj = resolve_object(k)
            if isinstance(obj, type):
              names += [x.__name__ for x in obj.__mro__]
            else:
              names.append(k.rsplit('.', 1)[-1])
        return names
      obj = resolve_object(d)
      if isinstance(obj, type):
        return [x.__name__ for x in obj.__mro__]
    if isinstance(expr, ast.Name):
      import builtins
      obj = getattr(builtins, expr.id, None)
      if isinstance(obj, type):
        return [x.__name__ for x in obj.__mro__]
      return [expr.id]
    return [ast.unparse(expr)]
