"""ALG domain: maps Python / numpy operations onto the algebra of algebra.py.
Transfer functions are keyed by the *resolved* callee, never by spelling."""
import ast
from fractions import Fraction
from .engine import Domain, V, NOCONST
from .tags import EventsMixin
from .model import canon
from .algebra import (UNKNOWN, SExpr, Vec, Poly, Quad, ElemProd, Lin, Cmp,
                      Tup, row_dot, frac, A)

NUM = (int, float, Fraction)


def is_num(x):
  return isinstance(x, Lin) and x.is_const()


def C(name):
  return canon(name)


class AlgDomain(EventsMixin, Domain):
  name = 'alg'
  fork = True
  max_states = 64

  def __init__(self, fitted=None, hyper=None, symmetric=()):
    self._ev_init()
    self.fitted = dict(fitted or {})
    self.hyper = dict(hyper or {})
    self.axioms = []          # rewrite rules (pattern, replacement)
    self.decomp = {}          # key of decomposed matrix -> names
    self.exprs = {}           # fresh symbol name -> Poly it denotes
    self.divisions = []       # divisions by a data-dependent scalar
    self.summaries = {'_util.check_input': self._sum_check_input,
                      '_util.validate_vector': lambda a, k: a[0]}

  # ---- basics
  def top(self, node=None):
    return UNKNOWN

  def const(self, value, node=None):
    if value is None:
      return ('nonev',)
    if isinstance(value, bool):
      return UNKNOWN
    if isinstance(value, (int, float)):
      try:
        return Lin({}, value)
      except Exception:
        return UNKNOWN
    return UNKNOWN

  def join(self, a, b):
    if a == b:
      return a
    # None is not a matrix: where the value is used as one it is the other
    if a == ('nonev',):
      return b
    if b == ('nonev',):
      return a
    return UNKNOWN

  def fitted_read(self, cls, name, node, st):
    if name in self.fitted:
      return self.fitted[name]
    if name in ('preprocessor_', 'n_features_in_', 'classes_'):
      return UNKNOWN
    # any other stored attribute: an opaque matrix symbol (a view that
    # returns it is not a function of the current components_)
    return Poly.sym('self.' + name, 'mat')

  def hyperparam(self, cls, name, node):
    return self.hyperparam_value(name)

  def hyperparam_value(self, name):
    return self.hyper.get(name, UNKNOWN)

  def _sum_check_input(self, args, kwargs):
    x = args[0] if args else kwargs.get('input_data')
    y = args[1] if len(args) > 1 else kwargs.get('y')
    if y is None or (y.c is not NOCONST and y.const() is None):
      return x
    t = V(UNKNOWN, elts=(x, y))
    return t

  def summary(self, target, args, kwargs, node, st):
    f = self.summaries.get(target.key)
    if f is not None:
      return f(args, kwargs)
    return None

  # ---- helpers
  def _num(self, v):
    d = v.d if isinstance(v, V) else v
    if isinstance(d, Lin) and d.is_const():
      return d.const
    return None

  def _axis(self, kwargs, args, pos):
    a = kwargs.get('axis')
    if a is None and len(args) > pos:
      a = args[pos]
    if a is None:
      return None
    c = a.const()
    return c if c is not NOCONST else 'unknown'

  # ---- operators
  def binop(self, op, l, r, node, st):
    a, b = l.d, r.d
    if isinstance(op, (ast.Add, ast.Sub)):
      sign = 1 if isinstance(op, ast.Add) else -1
      if isinstance(a, Poly) and isinstance(b, Poly) and a.kind == b.kind:
        return a.add(b, sign)
      if isinstance(a, Lin) and isinstance(b, Lin):
        return a.add(b, sign)
      return UNKNOWN
    if isinstance(op, ast.Mult):
      return self._mul(a, b)
    if isinstance(op, ast.Div):
      if isinstance(b, tuple) and b and b[0] == 'sred' and \
              isinstance(a, (Poly, Lin, ElemProd)):
        self.divisions.append((b, self.site(node)))
        return UNKNOWN
      nb = self._num(b)
      if nb is not None and nb != 0:
        return self._mul(a, Lin({}, 1 / frac(nb)))
      if isinstance(b, Vec):
        inv = b.sx.pow(-1)
        if inv is not None:
          return self._mul(a, Vec(inv, b.orient))
      return UNKNOWN
    if isinstance(op, ast.Pow):
      nb = self._num(b)
      if nb is None:
        return UNKNOWN
      if nb == 2 and isinstance(a, Poly) and a.kind in ('rows', 'vec'):
        return ElemProd(a, a)
      if nb == Fraction(1, 2):
        return self._sqrt(a)
      if isinstance(a, Vec):
        p = a.sx.pow(nb)
        return Vec(p, a.orient) if p is not None else UNKNOWN
      if is_num(a):
        try:
          return Lin({}, float(a.const) ** float(nb))
        except Exception:
          return UNKNOWN
      return UNKNOWN
    if isinstance(op, ast.MatMult):
      return self._dot(a, b)
    if isinstance(op, (ast.BitOr, ast.BitAnd, ast.BitXor)) and \
            self._is_bool(a) and self._is_bool(b):
      items = sorted([a, b], key=repr)
      return ('boolop', type(op).__name__, items[0], items[1])
    return UNKNOWN

  def _is_bool(self, d):
    return isinstance(d, Cmp) or (isinstance(d, tuple) and d and
                                  d[0] in ('boolop', 'isclose', 'notb'))

  def _mul(self, a, b):
    na, nb = self._num(a), self._num(b)
    if na is not None and nb is not None:
      return Lin({}, na * nb)
    if na is not None:
      a, b, na, nb = b, a, nb, na
    if nb is not None:
      if isinstance(a, Poly):
        return a.scale(nb)
      if isinstance(a, Lin):
        return a.scale(nb)
      if self._is_bool(a):
        return Lin({('ind', a): nb})
      if isinstance(a, Vec):
        return Vec(SExpr(a.sx.coeff * nb, a.sx.factors), a.orient)
      return UNKNOWN
    if isinstance(a, Poly) and isinstance(b, Poly) and \
            a.kind in ('rows', 'vec') and a.kind == b.kind:
      return ElemProd(a, b)
    if isinstance(a, Vec) and isinstance(b, Vec):
      if a.orient == b.orient:
        return Vec(a.sx.mul(b.sx), a.orient)
      return UNKNOWN
    if isinstance(a, Vec) and isinstance(b, Poly):
      a, b = b, a
    if isinstance(a, Poly) and isinstance(b, Vec) and \
            a.kind in ('vec', 'rows') and b.orient in ('v', 'row'):
      # element-wise scaling of (row) vectors: x Diag(s)
      return a.mul(Poly.diag(b.sx), a.kind)
    if isinstance(a, Poly) and isinstance(b, Vec) and a.kind == 'mat':
      d = Poly.diag(b.sx)
      if b.orient in ('v', 'row'):
        return a.mul(d, 'mat')        # scales columns:  A Diag(v)
      return d.mul(a, 'mat')          # scales rows:     Diag(v) A
    return UNKNOWN

  def _sqrt(self, a):
    if isinstance(a, Lin):
      s = a.single()
      if s is not None and s[0][0] == 'quad' and s[1] == 1:
        return Lin({('dist', s[0][1]): 1})
      if a.is_const() and a.const >= 0:
        return Lin({}, float(a.const) ** 0.5)
      return Lin({('sqrt', a): 1})
    if isinstance(a, Vec):
      p = a.sx.pow(Fraction(1, 2))
      return Vec(p, a.orient) if p is not None else UNKNOWN
    return UNKNOWN

  def _dot(self, a, b):
    if not (isinstance(a, Poly) and isinstance(b, Poly)):
      return UNKNOWN
    ka, kb = a.kind, b.kind
    if ka in ('rows', 'vec') and kb == 'mat':
      return a.mul(b, ka)
    if ka == 'mat' and kb == 'mat':
      return a.mul(b, 'mat')
    if ka == 'vec' and kb == 'vec':
      if not a.terms or not b.terms:
        return Lin({}, 0)
      r = row_dot(a, b)
      if r is None:
        return Lin({('rowdot', a, b): 1})
      q, sign = r
      return Lin({('quad', q): sign})
    if ka == 'mat' and kb == 'vec':
      # A.dot(v) for 1-D v is (v A^T) as a 1-D array
      return b.mul(a.transpose(), 'vec')
    if ka == 'mat' and kb == 'cols':
      return a.mul(b, 'cols')
    if ka == 'rows' and kb == 'cols':
      return UNKNOWN
    return UNKNOWN

  def unop(self, op, v, node, st):
    if isinstance(op, ast.Not) and isinstance(v.d, tuple) and v.d and \
            v.d[0] in ('isdiag', 'issym'):
      return ('not',) + v.d
    if isinstance(op, ast.USub):
      return self._mul(v.d, Lin({}, -1))
    if isinstance(op, ast.UAdd):
      return v.d
    if isinstance(op, ast.Invert) and self._is_bool(v.d):
      if isinstance(v.d, Cmp):
        neg = {'<': '>=', '<=': '>', '>': '<=', '>=': '<', '==': '!=',
               '!=': '=='}[v.d.op]
        return Cmp(v.d.lin, neg)
      return ('notb', v.d)
    return UNKNOWN

  def compare(self, ops, vals, node, st):
    if len(ops) != 1:
      return UNKNOWN
    a, b = vals[0].d, vals[1].d
    sym = {ast.Lt: '<', ast.LtE: '<=', ast.Gt: '>', ast.GtE: '>=',
           ast.Eq: '==', ast.NotEq: '!='}.get(type(ops[0]))
    if sym and isinstance(a, Lin) and isinstance(b, Lin):
      return Cmp(a.add(b, -1), sym)
    return UNKNOWN

  def ifexp(self, test, a, b, node, st):
    return self.join(a.d, b.d)

  def attr(self, v, name, node, st):
    d = v.d
    if name == 'T':
      if isinstance(d, Poly):
        return d if d.kind == 'vec' else d.transpose()
      if isinstance(d, Vec):
        o = {'v': 'v', 'col': 'row', 'row': 'col'}[d.orient]
        return Vec(d.sx, o)
      return UNKNOWN
    if name == 'real':
      return d
    return UNKNOWN

  def subscript(self, v, idx, node, st):
    d = v.d
    if isinstance(d, Tup):
      return self._tup_index(d, idx)
    if isinstance(d, Poly) and d.kind == 'rows' and len(idx) == 1 and \
            idx[0][0] == 'slice' and idx[0][3] is not None and d.terms:
      lo = idx[0][1].const() if idx[0][1] is not None else 0
      step = idx[0][3].const()
      firsts = set(m[0] for m in d.terms if m)
      if len(firsts) == 1 and idx[0][2] is None and isinstance(lo, int) and \
              isinstance(step, int):
        a0 = next(iter(firsts))
        if a0[0] == 's' and a0[1].startswith('IL('):
          base, slots = a0[1][3:-1].split(';')
          slots = [int(x) for x in slots.split(',')]
          if step == len(slots) and 0 <= lo < step:
            na = A('%s[%d]' % (base, slots[lo]), 'rows')
            return Poly({(na,) + m[1:]: c for m, c in d.terms.items()},
                        'rows')
    if isinstance(d, (Vec, Poly)) and node is not None and \
            isinstance(node, ast.Subscript):
      parts = node.slice.elts if isinstance(node.slice, ast.Tuple) \
          else [node.slice]
      names = [p for p in parts if isinstance(p, ast.Name)]
      rest = [p for p in parts if not isinstance(p, ast.Name)]
      full = all((isinstance(p, ast.Slice) and p.lower is None and
                  p.upper is None and p.step is None) or
                 (isinstance(p, ast.Constant) and p.value is Ellipsis)
                 for p in rest)
      # w[0, sel] on a 1 x n row vector: the selected entries as a plain
      # vector
      row_pick = False
      if isinstance(d, Vec) and d.orient == 'row' and len(parts) == 2 and \
              isinstance(parts[0], ast.Constant) and parts[0].value == 0 and \
              isinstance(parts[1], ast.Name):
        full, row_pick = True, True
      if len(names) == 1 and full and idx and any(
              p[0] == 'expr' and p[1].d is UNKNOWN and p[1].const() is NOCONST
              for p in idx):
        tag = names[0].id
        if isinstance(d, Vec) and row_pick:
          fac = {(b[0], '%s|%s' % (b[1], tag)) + tuple(b[2:]): e
                 for b, e in d.sx.factors.items()}
          return Vec(SExpr(d.sx.coeff, fac), 'v')
        if isinstance(d, Vec):
          fac = {(b[0], '%s|%s' % (b[1], tag)) + tuple(b[2:]): e
                 for b, e in d.sx.factors.items()}
          return Vec(SExpr(d.sx.coeff, fac), d.orient)
        if len(d.terms) == 1:
          (m, c), = d.terms.items()
          if len(m) == 1 and m[0][0] == 's':
            a0 = m[0]
            pos = parts.index(names[0])
            return Poly({(('s', '%s|%s@%d' % (a0[1], tag, pos), a0[2], a0[3],
                           a0[4]),): c}, d.kind)
    if isinstance(d, Vec) and d.orient == 'v':
      kinds = [p[0] for p in idx]
      full = [p[0] == 'slice' and p[1] is None and p[2] is None and
              p[3] is None for p in idx]
      if kinds == ['slice', 'newaxis'] and full[0]:
        return Vec(d.sx, 'col')
      if kinds == ['newaxis', 'slice'] and full[1]:
        return Vec(d.sx, 'row')
    return UNKNOWN

  def _tup_index(self, t, idx):
    def full(p):
      return p[0] == 'slice' and p[1] is None and p[2] is None and \
          p[3] is None
    if not idx or not full(idx[0]):
      return UNKNOWN
    rest = idx[1:]
    if len(rest) >= 1 and all(full(p) or p[0] == 'ellipsis'
                              for p in rest[1:]):
      p = rest[0]
      if p[0] == 'expr':
        c = p[1].const()
        if isinstance(c, int) and not isinstance(c, bool):
          s = t.slot(c)
          if s is None:
            return UNKNOWN
          return Poly({(A('%s[%d]' % (s[1], s[2]), 'rows'),): Fraction(1)},
                      'rows')
        if p[1].elts is not None and all(
                isinstance(x.const(), int) for x in p[1].elts):
          sl = []
          for x in p[1].elts:
            s = t.slot(x.const())
            if s is None:
              return UNKNOWN
            sl.append(s[2])
          return Tup(t.base, sl)
        return UNKNOWN
      if p[0] == 'slice' and p[3] is None:
        lo = p[1].const() if p[1] is not None else None
        hi = p[2].const() if p[2] is not None else None
        if lo is NOCONST or hi is NOCONST or t.slots is None:
          if t.slots is None and (lo is None or lo == 0) and \
                  isinstance(hi, int) and hi >= 0:
            return Tup(t.base, list(range(hi)))
          return UNKNOWN
        return Tup(t.base, list(t.slots[lo:hi]))
    return UNKNOWN

  def tuple(self, elts, node, st):
    return UNKNOWN

  def dict(self, kv, node, st):
    return UNKNOWN

  def unpack(self, v, n, node, st):
    return [V(UNKNOWN) for _ in range(n)]

  # ---- library
  def ext_call(self, dotted, args, kwargs, node, st, eng):
    f = getattr(self, 'x_' + dotted.replace('.', '_'), None)
    if f is not None:
      return f(args, kwargs, node, st)
    return UNKNOWN

  def x_numpy_sqrt(self, args, kwargs, node, st):
    return self._sqrt(args[0].d) if args else UNKNOWN

  def _sum(self, x, axis):
    if isinstance(x, ElemProd):
      kind = x.X.kind
      if (kind == 'rows' and axis in (-1, 1)) or \
              (kind == 'vec' and axis in (None, -1, 0)):
        if not x.X.terms or not x.Y.terms:
          return Lin({}, 0)
        r = row_dot(x.X, x.Y)
        if r is None:
          return Lin({('rowdot', x.X, x.Y): 1})
        q, sign = r
        return Lin({('quad', q): sign})
    if isinstance(x, Poly) and ((x.kind == 'rows' and axis in (-1, 1)) or
                                (x.kind == 'vec' and axis in (None, -1, 0))):
      return Lin({('rowsum', x): 1})
    return UNKNOWN

  def x_numpy_sum(self, args, kwargs, node, st):
    if not args:
      return UNKNOWN
    return self._sum(args[0].d, self._axis(kwargs, args, 1))

  def x_numpy_dot(self, args, kwargs, node, st):
    if len(args) != 2:
      return UNKNOWN
    return self._dot(args[0].d, args[1].d)

  x_numpy_matmul = x_numpy_dot

  def x_numpy_einsum(self, args, kwargs, node, st):
    if len(args) == 3 and isinstance(args[0].const(), str):
      pat = args[0].const().replace(' ', '')
      a, b = args[1].d, args[2].d
      if pat in ('...ij,...ij->...i', 'ij,ij->i', '...j,...j->...') and \
              isinstance(a, Poly) and isinstance(b, Poly) and \
              a.kind == 'rows' and b.kind == 'rows':
        return self._sum(ElemProd(a, b), -1)
      if pat in ('i,i->', 'i,i', 'j,j->') and isinstance(a, Poly) and \
              isinstance(b, Poly) and a.kind == 'vec' and b.kind == 'vec':
        return self._dot(a, b)
    return UNKNOWN

  def x_numpy_square(self, args, kwargs, node, st):
    a = args[0].d if args else UNKNOWN
    if isinstance(a, Poly) and a.kind in ('rows', 'vec'):
      return ElemProd(a, a)
    if isinstance(a, Vec):
      return Vec(a.sx.pow(2), a.orient)
    return UNKNOWN

  # ufunc spellings of the arithmetic operators
  def x_numpy_negative(self, args, kwargs, node, st):
    if len(args) == 1 and not kwargs:
      return self.unop(ast.USub(), args[0], node, st)
    return UNKNOWN

  def x_numpy_subtract(self, args, kwargs, node, st):
    if len(args) == 2 and not kwargs:
      return self.binop(ast.Sub(), args[0], args[1], node, st)
    return UNKNOWN

  def x_numpy_add(self, args, kwargs, node, st):
    if len(args) == 2 and not kwargs:
      return self.binop(ast.Add(), args[0], args[1], node, st)
    return UNKNOWN

  def x_numpy_multiply(self, args, kwargs, node, st):
    if len(args) == 2:
      return self._mul(args[0].d, args[1].d)
    return UNKNOWN

  def x_numpy_abs(self, args, kwargs, node, st):
    a = args[0].d if args else UNKNOWN
    if isinstance(a, Vec):
      return Vec(SExpr.base(('absv', a.sx.key())), a.orient)
    if isinstance(a, Lin):
      s = a.single()
      if s is not None and s[0][0] in ('dist', 'quad') and s[1] > 0:
        return a
      return Lin({('abs', a): 1})
    if isinstance(a, Poly) and a.kind in ('rows', 'vec'):
      return Poly({(A('abs(%r)' % (a,), a.kind),): Fraction(1)}, a.kind)
    return UNKNOWN

  x_numpy_absolute = x_numpy_abs
  x_builtins_abs = x_numpy_abs

  def x_numpy_maximum(self, args, kwargs, node, st):
    if len(args) != 2:
      return UNKNOWN
    a, b = args[0].d, args[1].d
    if isinstance(b, (Vec, Lin)) and self._num(a) is not None and \
            not (isinstance(b, Lin) and b.is_const()):
      a, b = b, a
    n = self._num(b)
    if isinstance(a, Lin) and not a.is_const() and n is not None:
      return Lin({('maxc', a, n): 1})
    if isinstance(a, Vec) and n is not None:
      if n == 0:
        return Vec(SExpr.base(('max0', a.sx.key())), a.orient)
      return Vec(SExpr.base(('maxc', a.sx.key(), n)), a.orient)
    return UNKNOWN

  def x_numpy_diag(self, args, kwargs, node, st):
    a = args[0].d if args else UNKNOWN
    if isinstance(a, Vec) and a.orient == 'v':
      return Poly.diag(a.sx)
    if isinstance(a, Poly) and a.kind == 'mat':
      name = self._name_of(a)
      return Vec(SExpr.base(('diagof', name)), 'v')
    return UNKNOWN

  def _name_of(self, p):
    """Symbol name standing for a matrix-valued Poly."""
    if len(p.terms) == 1:
      (m, c), = p.terms.items()
      if len(m) == 1 and c == 1 and m[0][0] == 's' and not m[0][2]:
        return m[0][1]
    k = p.key()
    for n, q in self.exprs.items():
      if q.key() == k:
        return n
    n = 'E%d' % (len(self.exprs) + 1)
    self.exprs[n] = p
    return n

  def x_numpy_linalg_cholesky(self, args, kwargs, node, st):
    a = args[0].d if args else UNKNOWN
    if isinstance(a, Poly) and a.kind == 'mat':
      name = self._name_of(a)
      cn = 'chol(%s)' % name
      c = A(cn, 'mat')
      target = (A(name, 'mat', False, True),) if name in self.symm else None
      self.axioms.append(((c, ('s', cn, True, 'mat', False)),
                          self._atoms_of(a, name)))
      return Poly({(c,): Fraction(1)}, 'mat')
    return UNKNOWN

  symm = set()

  def _atoms_of(self, p, name):
    if len(p.terms) == 1:
      (m, c), = p.terms.items()
      if c == 1:
        return m
    return (A(name, 'mat', False, True),)

  def _eigh(self, args, kwargs, node, st):
    a = args[0].d if args else UNKNOWN
    if len(args) > 1 and args[1].const() is not None:
      return UNKNOWN        # generalised problem: not in the table
    if isinstance(a, Poly) and a.kind == 'mat':
      name = self._name_of(a)
      wn, vn = 'w(%s)' % name, 'V(%s)' % name
      Poly.ORTHO.add(vn)
      w = Vec(SExpr.base(('w', wn)), 'v')
      Vp = Poly({(A(vn, 'mat'),): Fraction(1)}, 'mat')
      pat = (A(vn, 'mat'), ('diag', SExpr.base(('w', wn)).key()),
             ('s', vn, True, 'mat', False))
      self.axioms.append((pat, self._atoms_of(a, name)))
      self.decomp[name] = (wn, vn)
      return V(UNKNOWN, elts=(V(w), V(Vp)))
    return UNKNOWN

  x_numpy_linalg_eigh = _eigh
  x_scipy_linalg_eigh = _eigh

  def x_numpy_linalg_norm(self, args, kwargs, node, st):
    a = args[0].d if args else UNKNOWN
    axis = self._axis(kwargs, args, 2)
    o = kwargs.get('ord') or (args[1] if len(args) > 1 else None)
    if o is not None and not (o.c is not NOCONST and o.const() in (None, 2)):
      return UNKNOWN
    if isinstance(a, Poly) and a.kind == 'rows' and axis is None:
      return ('sred', 'norm', a.key())
    if isinstance(a, Poly) and a.kind in ('rows', 'vec'):
      s = self._sum(ElemProd(a, a), axis)
      return self._sqrt(s)
    return UNKNOWN

  def x_numpy_sign(self, args, kwargs, node, st):
    a = args[0].d if args else UNKNOWN
    if isinstance(a, Lin):
      return Lin({('sign', a): 1})
    return UNKNOWN

  def _ident(self, args, kwargs, node, st):
    return args[0].d if args else UNKNOWN

  x_numpy_conjugate = _ident
  x_numpy_conj = _ident
  x_numpy_atleast_2d = _ident
  x_numpy_asarray = _ident
  x_numpy_asanyarray = _ident
  x_numpy_real = _ident
  x_numpy_array = _ident
  x_numpy_ascontiguousarray = _ident
  x_builtins_float = _ident

  def x_numpy_mean(self, args, kwargs, node, st):
    a = args[0].d if args else UNKNOWN
    if isinstance(a, Lin):
      return Lin({('mean', a): 1})
    return UNKNOWN

  def x_numpy_where(self, args, kwargs, node, st):
    if len(args) == 3 and isinstance(args[0].d, Cmp):
      x, y = self._num(args[1].d), self._num(args[2].d)
      if x is not None and y is not None:
        # y + (x - y) * ind
        return Lin({('ind', args[0].d): x - y}, y)
    return UNKNOWN

  def x_numpy_array_equal(self, args, kwargs, node, st):
    if len(args) == 2:
      a, b = args[0].d, args[1].d
      for p, q in ((a, b), (b, a)):
        if isinstance(p, Poly) and isinstance(q, Poly) and p.kind == 'mat':
          name = self._name_of(p)
          if q == Poly.diag(SExpr.base(('diagof', name))):
            return ('isdiag', name)
    return UNKNOWN

  def x_sklearn_metrics_roc_auc_score(self, args, kwargs, node, st):
    y = args[0] if args else kwargs.get('y_true')
    s = args[1] if len(args) > 1 else kwargs.get('y_score')
    if y is not None and s is not None and isinstance(s.d, Lin):
      return Lin({('roc_auc', ('labels', y.origin), s.d): 1})
    return UNKNOWN

  def _reduce(self, name, d):
    if isinstance(d, (Poly, Lin, ElemProd)):
      return ('sred', name, d.key())
    return UNKNOWN

  def _red_ext(name):
    def f(self, args, kwargs, node, st):
      if args and self._axis(kwargs, args, 1) is None:
        return self._reduce(name, args[0].d)
      return UNKNOWN
    return f

  x_numpy_max = _red_ext('max')
  x_numpy_amax = _red_ext('max')
  x_numpy_min = _red_ext('min')
  x_numpy_amin = _red_ext('min')
  x_numpy_std = _red_ext('std')
  x_builtins_max = _red_ext('max')
  x_builtins_min = _red_ext('min')

  def method_call(self, recv, name, args, kwargs, node, st, eng):
    d = recv.d
    if name == 'reshape' and isinstance(d, Tup) and d.slots is not None and \
            len(args) == 2:
      # (n, t, d) -> (t*n, d): rows of the tuples interleaved slot by slot
      return Poly({(A('IL(%s;%s)' % (d.base, ','.join(map(str, d.slots))),
                      'rows'),): Fraction(1)}, 'rows')
    if name in ('max', 'min', 'std', 'ptp') and not args and \
            'axis' not in kwargs:
      return self._reduce(name, d)
    if name in ('sum', 'mean') and not args and 'axis' not in kwargs and \
            isinstance(d, Poly):
      return self._reduce(name, d)
    if name == 'dot' and len(args) == 1:
      return self._dot(d, args[0].d)
    if name == 'sum':
      return self._sum(d, self._axis(kwargs, args, 0))
    if name in ('copy', 'squeeze', 'conj', 'conjugate') and not args:
      return d
    if name == 'astype':
      a0 = args[0] if args else kwargs.get('dtype')
      is_float = a0 is not None and (
          (a0.fn and a0.fn[0] == 'ext' and a0.fn[1] in (
              'builtins.float', 'numpy.float64', 'numpy.float_')) or
          a0.const() in ('float', 'float64', 'f8'))
      if is_float or not isinstance(d, Poly):
        return d
      # cast to a dtype that is not certainly float64 (e.g. the dtype of
      # the data): may truncate - a different matrix
      return Poly.sym('cast(%s)' % self._name_of(d), d.kind)
    if name == 'transpose' and not args:
      return self.attr(recv, 'T', node, st)
    if name == 'mean' and not args and not kwargs:
      if isinstance(d, Lin):
        return Lin({('mean', d): 1})
    return UNKNOWN

  def on_augassign(self, kind, target, op, val, node, st):
    if kind in ('name', 'attr'):
      return self.binop(op, target, val, node, st)
    return UNKNOWN

  def on_store_subscript(self, target, idx, val, node, st):
    """Element stores change the content: the form is kept only for the two
    idioms of a pseudo-inverse spectrum (selected entries replaced by their
    reciprocals, the others by 0); anything else makes the value unknown."""
    d = target.d
    if d is None or d is UNKNOWN:
      return None
    stmt = node
    v = getattr(stmt, 'value', None)
    tg = stmt.targets[0] if isinstance(stmt, ast.Assign) else None
    if isinstance(stmt, ast.Assign) and isinstance(v, ast.Constant) and \
            v.value == 0 and isinstance(d, Vec):
      return d          # entries declared negligible set to 0
    if isinstance(stmt, ast.Assign) and isinstance(v, ast.BinOp) and \
            isinstance(v.op, ast.Div) and isinstance(v.left, ast.Constant) \
            and v.left.value == 1 and tg is not None and \
            ast.unparse(v.right) == ast.unparse(tg) and isinstance(d, Vec):
      inv = d.sx.pow(-1)
      if inv is not None:
        return Vec(inv, d.orient)
    # a full overwrite `x[:] = value` takes the value's form
    if isinstance(tg, ast.Subscript) and isinstance(tg.slice, ast.Slice) and \
            tg.slice.lower is None and tg.slice.upper is None and \
            tg.slice.step is None:
      return val.d if val.d is not None else UNKNOWN
    return UNKNOWN

  def on_branch(self, test, val, taken, node, st):
    d = val.d
    if isinstance(d, tuple) and d and d[0] == 'not':
      d = d[1:]
      taken = not taken
    if isinstance(d, tuple) and d and d[0] in ('isdiag', 'issym'):
      self.event(st, ('assume', d[0] if taken else 'not-' + d[0], d[1]))

  # ---- further library table (initialisers)
  def x_numpy_eye(self, args, kwargs, node, st):
    if len(args) == 1 or (len(args) == 2 and (
            args[0].d == args[1].d and args[0].d is not UNKNOWN or
            ast.unparse(node.args[0]) == ast.unparse(node.args[1]))):
      return Poly.eye()
    if len(args) == 2:
      return Poly({(A('eye(%s,%s)' % (ast.unparse(node.args[0]),
                                      ast.unparse(node.args[1])), 'mat'),):
                   Fraction(1)}, 'mat')
    return UNKNOWN

  def x_numpy_isclose(self, args, kwargs, node, st):
    if len(args) >= 2 and isinstance(args[0].d, Lin) and \
            isinstance(args[1].d, Lin):
      return ('isclose', Cmp(args[0].d.add(args[1].d, -1), '=='))
    return UNKNOWN

  def x_numpy_logical_or(self, args, kwargs, node, st):
    if len(args) == 2 and self._is_bool(args[0].d) and \
            self._is_bool(args[1].d):
      items = sorted([args[0].d, args[1].d], key=repr)
      return ('boolop', 'BitOr', items[0], items[1])
    return UNKNOWN

  def x_numpy_logical_and(self, args, kwargs, node, st):
    if len(args) == 2 and self._is_bool(args[0].d) and \
            self._is_bool(args[1].d):
      items = sorted([args[0].d, args[1].d], key=repr)
      return ('boolop', 'BitAnd', items[0], items[1])
    return UNKNOWN

  def x_numpy_allclose(self, args, kwargs, node, st):
    if len(args) >= 2:
      a, b = args[0].d, args[1].d
      if isinstance(a, Poly) and isinstance(b, Poly) and a.kind == 'mat' \
              and (b == a.transpose()):
        return ('issym', self._name_of(a))
    return UNKNOWN

  def x_numpy_vstack(self, args, kwargs, node, st):
    a = args[0].d if args else UNKNOWN
    if isinstance(a, Tup):
      return Poly.sym('points(%r)' % (a,), 'rows')
    return UNKNOWN

  def x_numpy_unique(self, args, kwargs, node, st):
    a = args[0].d if args else UNKNOWN
    ax = self._axis(kwargs, args, 99)
    if isinstance(a, Tup) and ax == 0 and \
            not any(k.startswith('return_') for k in kwargs):
      return Tup('distinct-tuples(%s)' % a.base, a.slots)
    if isinstance(a, Poly) and a.kind == 'rows' and ax == 0 and \
            not any(k.startswith('return_') for k in kwargs):
      n = self._name_of(a)
      if n.startswith('points('):
        return Poly.sym('distinct' + n[6:], 'rows')
      return Poly.sym('distinct(%s)' % n, 'rows')
    return UNKNOWN

  def x_numpy_cov(self, args, kwargs, node, st):
    a = args[0].d if args else UNKNOWN
    rv = kwargs.get('rowvar')
    if rv is None and len(args) > 2:
      rv = args[2]
    rowvar = True if rv is None else (rv.const() if rv.c is not NOCONST
                                      else 'unknown')
    extra = sorted(k for k in kwargs if k != 'rowvar')
    if isinstance(a, Poly) and a.kind == 'cols' and rowvar in (
            True, False, 0, 1):
      # features x samples: the transposed layout with the flag flipped
      a = a.transpose()
      rowvar = not rowvar
    if isinstance(a, Poly) and a.kind == 'rows':
      name = self._name_of(a)
      if rowvar in (False, 0) and not extra and len(args) <= 3:
        return Poly.sym('cov(%s)' % name, 'mat', symmetric=True)
      return Poly.sym('cov(%s;rowvar=%s;%s)' % (name, rowvar, extra), 'mat',
                      symmetric=True)
    return UNKNOWN

  def x_numpy_divide(self, args, kwargs, node, st):
    if len(args) >= 2:
      a, b = args[0].d, args[1].d
      na = self._num(a)
      if na is not None and isinstance(b, Vec):
        inv = b.sx.pow(-1)
        if inv is not None:
          return Vec(SExpr(inv.coeff * na, inv.factors), b.orient)
    return UNKNOWN

  def x_numpy_reciprocal(self, args, kwargs, node, st):
    if args and isinstance(args[0].d, Vec):
      inv = args[0].d.sx.pow(-1)
      if inv is not None:
        return Vec(inv, args[0].d.orient)
    return UNKNOWN

  def _inv(self, args, kwargs, node, st):
    a = args[0].d if args else UNKNOWN
    if isinstance(a, Poly) and a.kind == 'mat':
      # tolerance arguments change which directions are inverted: a
      # different operation than the plain (pseudo-)inverse
      extra = sorted(k for k in kwargs if k not in ('check_finite', 'lower',
                                                    'return_rank',
                                                    'hermitian'))
      if extra or len(args) > 1:
        return Poly.sym('inv(%s;%s)' % (self._name_of(a), ','.join(
            extra) or 'positional'), 'mat', symmetric=True)
      return Poly.sym('inv(%s)' % self._name_of(a), 'mat', symmetric=True)
    return UNKNOWN

  x_scipy_linalg_pinvh = _inv
  x_numpy_linalg_inv = _inv
  x_numpy_linalg_pinv = _inv
  x_scipy_linalg_inv = _inv
  x_scipy_linalg_pinv = _inv

  def x_sklearn_datasets_make_spd_matrix(self, args, kwargs, node, st):
    return Poly.sym('spd_random', 'mat', symmetric=True)

  def x_sklearn_utils_check_array(self, args, kwargs, node, st):
    return V(args[0].d, ty='ndarray') if args else UNKNOWN

  def on_call(self, kind, target, args, kwargs, node, st):
    EventsMixin.on_call(self, kind, target, args, kwargs, node, st)
    if kind == 'repo' and target.name == '_initialize_metric_mahalanobis' \
            and args:
      self.prior_inputs = getattr(self, 'prior_inputs', [])
      self.prior_inputs.append((args[0].d, self.site(node)))
    if kind == 'repo' and target.name == '_check_sdp_from_eigen' and args:
      d = args[0].d
      if isinstance(d, Vec):
        self.event(st, ('sdp-checked', d.sx.key()))
