"""Helpers for guard / sign / structure rules: linear normal forms of scalar
expressions, normalised comparisons with local substitution, sign algebra."""
import ast
from fractions import Fraction
from .algebra import Lin, Cmp

_OPS = {ast.Lt: '<', ast.LtE: '<=', ast.Gt: '>', ast.GtE: '>=',
        ast.Eq: '==', ast.NotEq: '!='}


def assignments(fnode, name):
  """(lineno, value) of every simple assignment  name = value  (including
  tuple unpacking, where value is the matching element or None)."""
  out = []
  for n in ast.walk(fnode):
    if isinstance(n, ast.Assign):
      for t in n.targets:
        if isinstance(t, ast.Name) and t.id == name:
          out.append((n, n.value))
        elif isinstance(t, (ast.Tuple, ast.List)):
          for i, e in enumerate(t.elts):
            if isinstance(e, ast.Name) and e.id == name:
              v = n.value.elts[i] if isinstance(n.value, (ast.Tuple, ast.List)) \
                  and len(n.value.elts) == len(t.elts) else None
              out.append((n, v))
    elif isinstance(n, ast.AugAssign) and isinstance(n.target, ast.Name) and \
            n.target.id == name:
      out.append((n, None))
  return sorted(out, key=lambda x: x[0].lineno)


def lin_of(e, subst=None, depth=0):
  """Lin over name atoms for +, -, * const, / const; None if not linear."""
  subst = subst or {}
  if isinstance(e, ast.Constant) and isinstance(e.value, (int, float)) and \
          not isinstance(e.value, bool):
    return Lin({}, e.value)
  if isinstance(e, ast.Name):
    if e.id in subst and depth < 4:
      r = lin_of(subst[e.id], subst, depth + 1)
      if r is not None:
        return r
    return Lin({('n', e.id): 1})
  if isinstance(e, ast.Attribute):
    return Lin({('n', ast.unparse(e)): 1})
  if isinstance(e, ast.UnaryOp) and isinstance(e.op, ast.USub):
    r = lin_of(e.operand, subst, depth)
    return r.scale(-1) if r is not None else None
  if isinstance(e, ast.BinOp):
    a, b = lin_of(e.left, subst, depth), lin_of(e.right, subst, depth)
    if a is None or b is None:
      return None
    if isinstance(e.op, ast.Add):
      return a.add(b)
    if isinstance(e.op, ast.Sub):
      return a.add(b, -1)
    if isinstance(e.op, ast.Mult):
      if a.is_const():
        return b.scale(a.const)
      if b.is_const():
        return a.scale(b.const)
    if isinstance(e.op, ast.Div) and b.is_const() and b.const != 0:
      return a.scale(1 / Fraction(b.const))
    return None
  if isinstance(e, (ast.Call, ast.Subscript)):
    return Lin({('n', ast.unparse(e)): 1})
  return None


def cmp_of(test, subst=None, positive=True):
  """Normalised Cmp of a single comparison (polarity folded in) or None."""
  if isinstance(test, ast.UnaryOp) and isinstance(test.op, ast.Not):
    return cmp_of(test.operand, subst, not positive)
  if isinstance(test, ast.Compare) and len(test.ops) == 1 and \
          type(test.ops[0]) in _OPS:
    a, b = lin_of(test.left, subst), lin_of(test.comparators[0], subst)
    if a is None or b is None:
      return None
    op = _OPS[type(test.ops[0])]
    if not positive:
      op = {'<': '>=', '<=': '>', '>': '<=', '>=': '<', '==': '!=',
            '!=': '=='}[op]
    return Cmp(a.add(b, -1), op)
  return None


def path_cmps(fnode, target, subst=None):
  """Normalised comparisons known to hold on the way to `target`."""
  from . import astutil
  pm = astutil.parents(fnode)
  out = []
  n = target
  while n is not fnode and n in pm:
    p = pm[n]
    if isinstance(p, (ast.If, ast.While)):
      pos = None
      if any(n is x for x in p.body):
        pos = True
      elif isinstance(p, ast.If) and any(n is x for x in p.orelse):
        pos = False
      if pos is not None:
        tests = [p.test]
        if isinstance(p.test, ast.BoolOp) and \
                isinstance(p.test.op, ast.And) == pos:
          tests = p.test.values
        elif isinstance(p.test, ast.BoolOp):
          tests = []
        for t in tests:
          c = cmp_of(t, subst, pos)
          if c is not None:
            out.append(c)
          else:
            out.append(('raw', astutil.norm_atom(t, pos)))
    n = p
  return out


# ---------------------------------------------------------------- signs
POS, NONNEG, ZERO, NONPOS, NEG, TOP = '>0', '>=0', '0', '<=0', '<0', '?'


def _neg(s):
  return {POS: NEG, NONNEG: NONPOS, ZERO: ZERO, NONPOS: NONNEG, NEG: POS,
          TOP: TOP}[s]


def _mul(a, b):
  if ZERO in (a, b):
    return ZERO
  if TOP in (a, b):
    return TOP
  sa = 1 if a in (POS, NONNEG) else -1
  sb = 1 if b in (POS, NONNEG) else -1
  strict = a in (POS, NEG) and b in (POS, NEG)
  if sa * sb > 0:
    return POS if strict else NONNEG
  return NEG if strict else NONPOS


def _add(a, b):
  if a == ZERO:
    return b
  if b == ZERO:
    return a
  if a in (POS, NONNEG) and b in (POS, NONNEG):
    return POS if POS in (a, b) else NONNEG
  if a in (NEG, NONPOS) and b in (NEG, NONPOS):
    return NEG if NEG in (a, b) else NONPOS
  return TOP


def _inv(a):
  return a if a in (POS, NEG) else TOP


def sign_of(e, env, dotted=lambda x: None):
  """Sign of a scalar / element-wise expression under `env` {name: sign}."""
  if isinstance(e, ast.Constant) and isinstance(e.value, (int, float)) and \
          not isinstance(e.value, bool):
    return POS if e.value > 0 else NEG if e.value < 0 else ZERO
  if isinstance(e, (ast.Name, ast.Attribute)):
    return env.get(ast.unparse(e), TOP)
  if isinstance(e, ast.UnaryOp) and isinstance(e.op, ast.USub):
    return _neg(sign_of(e.operand, env, dotted))
  if isinstance(e, ast.UnaryOp) and isinstance(e.op, ast.UAdd):
    return sign_of(e.operand, env, dotted)
  if isinstance(e, ast.BinOp):
    a, b = sign_of(e.left, env, dotted), sign_of(e.right, env, dotted)
    if isinstance(e.op, ast.Add):
      return _add(a, b)
    if isinstance(e.op, ast.Sub):
      return _add(a, _neg(b))
    if isinstance(e.op, ast.Mult):
      return _mul(a, b)
    if isinstance(e.op, ast.Div):
      return _mul(a, _inv(b))
    if isinstance(e.op, ast.Pow):
      if isinstance(e.right, ast.Constant) and e.right.value == 2:
        return POS if a in (POS, NEG) else NONNEG if a != ZERO else ZERO
      if a in (POS, NONNEG, ZERO):
        return a
    return TOP
  if isinstance(e, ast.Call):
    d = dotted(e.func) or ''
    name = d.rsplit('.', 1)[-1]
    args = [sign_of(a, env, dotted) for a in e.args]
    if name in ('sqrt',) and args:
      return args[0] if args[0] in (POS, ZERO) else NONNEG
    if name in ('square', 'abs', 'absolute', 'exp'):
      return POS if name == 'exp' else NONNEG
    if name == 'minimum' and len(args) == 2:
      if NEG in args:
        return NEG
      if ZERO in args or NONPOS in args:
        return NONPOS
      return TOP
    if name == 'maximum' and len(args) == 2:
      if POS in args:
        return POS
      if ZERO in args or NONNEG in args:
        return NONNEG
      return TOP
    if name in ('zeros', 'zeros_like'):
      return ZERO
    if name in ('sum', 'mean') and args:
      return args[0]
    if name in ('ones', 'ones_like'):
      return POS
    return TOP
  if isinstance(e, ast.Subscript):
    return sign_of(e.value, env, dotted)
  return TOP
