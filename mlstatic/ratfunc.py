"""Tiny exact algebra for scalar coefficients that are rational functions of
a few symbols (n, nc ...), and linear combinations of named matrix atoms with
such coefficients. Used to compare accumulation formulas with a documented
reference written in mathematical notation."""
import ast
from fractions import Fraction


class Poly2:
  """polynomial in named symbols: {((sym, exp), ...): Fraction}"""

  def __init__(self, terms=None):
    self.t = {k: v for k, v in (terms or {}).items() if v != 0}

  @staticmethod
  def const(c):
    return Poly2({(): Fraction(c)})

  @staticmethod
  def sym(s):
    return Poly2({((s, 1),): Fraction(1)})

  def __add__(self, o):
    t = dict(self.t)
    for k, v in o.t.items():
      t[k] = t.get(k, 0) + v
    return Poly2(t)

  def __neg__(self):
    return Poly2({k: -v for k, v in self.t.items()})

  def __sub__(self, o):
    return self + (-o)

  def __mul__(self, o):
    t = {}
    for k1, v1 in self.t.items():
      for k2, v2 in o.t.items():
        d = dict(k1)
        for s, e in k2:
          d[s] = d.get(s, 0) + e
        k = tuple(sorted((s, e) for s, e in d.items() if e))
        t[k] = t.get(k, 0) + v1 * v2
    return Poly2(t)

  def is_zero(self):
    return not self.t

  def diff(self, sym):
    t = {}
    for k, v in self.t.items():
      d = dict(k)
      e = d.get(sym, 0)
      if not e:
        continue
      d[sym] = e - 1
      nk = tuple(sorted((s, x) for s, x in d.items() if x))
      t[nk] = t.get(nk, 0) + v * e
    return Poly2(t)

  def __eq__(self, o):
    return (self - o).is_zero()

  def __repr__(self):
    if not self.t:
      return '0'
    out = []
    for k, v in sorted(self.t.items()):
      m = '*'.join(s if e == 1 else '%s^%d' % (s, e) for s, e in k)
      out.append(('%s*' % v if v != 1 or not m else '') + (m or ''))
    return ' + '.join(x.rstrip('*') for x in out)


class Rat:
  def __init__(self, num, den=None):
    self.n = num
    self.d = den if den is not None else Poly2.const(1)

  @staticmethod
  def const(c):
    return Rat(Poly2.const(c))

  @staticmethod
  def sym(s):
    return Rat(Poly2.sym(s))

  def __add__(self, o):
    return Rat(self.n * o.d + o.n * self.d, self.d * o.d)

  def __neg__(self):
    return Rat(-self.n, self.d)

  def __sub__(self, o):
    return self + (-o)

  def __mul__(self, o):
    return Rat(self.n * o.n, self.d * o.d)

  def __truediv__(self, o):
    return Rat(self.n * o.d, self.d * o.n)

  def is_zero(self):
    return self.n.is_zero()

  def diff(self, sym):
    return Rat(self.n.diff(sym) * self.d - self.n * self.d.diff(sym),
               self.d * self.d)

  def pow(self, k):
    r = Rat.const(1)
    base = self if k >= 0 else Rat.const(1) / self
    for _ in range(abs(k)):
      r = r * base
    return r

  def __eq__(self, o):
    return (self.n * o.d - o.n * self.d).is_zero()

  def __repr__(self):
    if self.d == Poly2.const(1):
      return '(%r)' % self.n
    return '(%r)/(%r)' % (self.n, self.d)


class LinM:
  """sum_k coeff_k * atom_k  with Rat coefficients"""

  def __init__(self, terms=None):
    self.t = {k: v for k, v in (terms or {}).items() if not v.is_zero()}

  @staticmethod
  def atom(a):
    return LinM({a: Rat.const(1)})

  def __add__(self, o):
    t = dict(self.t)
    for k, v in o.t.items():
      t[k] = t[k] + v if k in t else v
    return LinM(t)

  def __neg__(self):
    return LinM({k: -v for k, v in self.t.items()})

  def __sub__(self, o):
    return self + (-o)

  def scale(self, r):
    return LinM({k: v * r for k, v in self.t.items()})

  def __eq__(self, o):
    return not (self - o).t

  def __repr__(self):
    return ' + '.join('%r*%s' % (v, k) for k, v in sorted(self.t.items())) \
        or '0'


def rat_sqrt(r):
  """square root of a Rat that is a ratio of single monomials with even
  exponents and perfect-square coefficients, else None"""
  def root(p):
    if len(p.t) != 1:
      return None
    (k, c), = p.t.items()
    if c <= 0 or any(e % 2 for s, e in k):
      return None
    from math import isqrt
    n, d = c.numerator, c.denominator
    if isqrt(n) ** 2 != n or isqrt(d) ** 2 != d:
      return None
    return Poly2({tuple((s, e // 2) for s, e in k):
                  Fraction(isqrt(n), isqrt(d))})
  a, b = root(r.n), root(r.d)
  if a is None or b is None:
    return None
  return Rat(a, b)


def eval_expr(e, scalars, atoms, env=None):
  """AST -> Rat | LinM.  scalars: {source text: symbol}; atoms: {source text:
  atom name}; env: {name: value} for locals already evaluated."""
  env = env or {}
  txt = ast.unparse(e)
  if txt in atoms:
    return LinM.atom(atoms[txt])
  if txt in scalars:
    return Rat.sym(scalars[txt])
  if txt in env:
    return env[txt]
  if isinstance(e, ast.Constant) and isinstance(e.value, (int, float)) and \
          not isinstance(e.value, bool):
    return Rat.const(Fraction(e.value).limit_denominator(10 ** 9))
  if isinstance(e, ast.UnaryOp) and isinstance(e.op, ast.USub):
    v = eval_expr(e.operand, scalars, atoms, env)
    return None if v is None else -v
  if isinstance(e, ast.Call) and len(e.args) == 1 and \
          txt.split('(')[0] in ('np.sqrt', 'numpy.sqrt', 'sqrt', 'math.sqrt'):
    v = eval_expr(e.args[0], scalars, atoms, env)
    return rat_sqrt(v) if isinstance(v, Rat) else None
  if isinstance(e, ast.Call) and len(e.args) == 1 and not e.keywords and \
          txt.split('(')[0] in ('np.square', 'numpy.square'):
    v = eval_expr(e.args[0], scalars, atoms, env)
    return v * v if isinstance(v, Rat) else None
  if isinstance(e, ast.BinOp):
    a = eval_expr(e.left, scalars, atoms, env)
    b = eval_expr(e.right, scalars, atoms, env)
    if a is None or b is None:
      return None
    if isinstance(e.op, (ast.Add, ast.Sub)):
      if type(a) is not type(b):
        return None
      return a + b if isinstance(e.op, ast.Add) else a - b
    if isinstance(e.op, ast.Mult):
      if isinstance(a, Rat) and isinstance(b, Rat):
        return a * b
      if isinstance(a, Rat) and isinstance(b, LinM):
        return b.scale(a)
      if isinstance(a, LinM) and isinstance(b, Rat):
        return a.scale(b)
      return None
    if isinstance(e.op, ast.Div):
      if isinstance(b, Rat) and not b.is_zero():
        if isinstance(a, Rat):
          return a / b
        return a.scale(Rat.const(1) / b)
      return None
    if isinstance(e.op, ast.Pow) and isinstance(a, Rat) and \
            isinstance(e.right, ast.Constant) and \
            isinstance(e.right.value, int):
      return a.pow(e.right.value)
  return None
