"""Symbolic matrix / form algebra used by the ALG domain.

Values
  Poly     non-commutative polynomial over matrix atoms, with a shape kind
  SExpr    element-wise scalar-function monomial of eigenvalue-like vectors
  Vec      an SExpr laid out as 1-D / column / row vector (broadcasting)
  ElemProd element-wise product of two row-batches (pending a row sum)
  Lin      commutative linear combination of per-row scalar atoms + constant
  Cmp      comparison  lin <op> 0  (normalised)
  Tup      symbolic 3-D tuple array restricted to a sequence of slots
  UNKNOWN  anything outside the tables
Every operator here comes with its normalisation, so a value built only from
table operators has one canonical form; anything else is UNKNOWN."""
from fractions import Fraction

UNKNOWN = ('unknown',)


def frac(x):
  if isinstance(x, Fraction):
    return x
  if isinstance(x, bool):
    return Fraction(int(x))
  if isinstance(x, int):
    return Fraction(x)
  if isinstance(x, float):
    return Fraction(x).limit_denominator(10 ** 12)
  raise TypeError(x)


# ------------------------------------------------------------------ SExpr
class SExpr:
  """coeff * prod(base ** exp); bases are hashable tuples."""
  __slots__ = ('coeff', 'factors')

  def __init__(self, coeff=1, factors=None):
    self.coeff = frac(coeff)
    self.factors = {k: v for k, v in (factors or {}).items() if v != 0}

  @staticmethod
  def base(b):
    return SExpr(1, {b: Fraction(1)})

  def key(self):
    return ('sx', self.coeff, tuple(sorted(self.factors.items(), key=repr)))

  def __eq__(self, o):
    return isinstance(o, SExpr) and self.key() == o.key()

  def __hash__(self):
    return hash(self.key())

  def mul(self, o):
    f = dict(self.factors)
    for k, v in o.factors.items():
      f[k] = f.get(k, 0) + v
    return SExpr(self.coeff * o.coeff, f)

  def pow(self, e):
    e = frac(e)
    if self.coeff < 0 and e.denominator != 1:
      return None
    try:
      c = Fraction(float(self.coeff) ** float(e)).limit_denominator(10 ** 9) \
          if self.coeff != 1 else Fraction(1)
    except Exception:
      return None
    return SExpr(c, {k: v * e for k, v in self.factors.items()})

  def is_one(self):
    return self.coeff == 1 and not self.factors

  def relax(self, checked=()):
    """PSD-up-to-rounding equivalence: max(0, x) ~ x for a vector x that has
    passed _check_sdp_from_eigen on this path (keys in `checked`)."""
    f = {}
    for b, e in self.factors.items():
      if b[0] == 'max0' and (checked is None or b[1] in checked):
        inner = b[1]
        if inner[0] == 'sx':
          for (bb, ee) in inner[2]:
            f[bb] = f.get(bb, 0) + ee * e
          continue
      f[b] = f.get(b, 0) + e
    return SExpr(self.coeff, f)

  def __repr__(self):
    parts = []
    if self.coeff != 1 or not self.factors:
      parts.append(str(self.coeff))
    for b, e in sorted(self.factors.items(), key=repr):
      n = b[1] if b[0] in ('w', 'diagof') else repr(b)
      parts.append('%s^%s' % (n, e) if e != 1 else str(n))
    return '*'.join(parts)


class Vec:
  """element-wise vector value; orient: 'v' (1-D), 'col' (d,1), 'row' (1,d)"""
  __slots__ = ('sx', 'orient')

  def __init__(self, sx, orient='v'):
    self.sx = sx
    self.orient = orient

  def key(self):
    return ('vec', self.sx.key(), self.orient)

  def __eq__(self, o):
    return isinstance(o, Vec) and self.key() == o.key()

  def __hash__(self):
    return hash(self.key())

  def __repr__(self):
    return 'Vec[%s](%r)' % (self.orient, self.sx)


# ------------------------------------------------------------------- Poly
def A(name, kind='mat', T=False, sym=False):
  return ('s', name, bool(T) and not sym, kind, bool(sym))


def a_transpose(a):
  if a[0] == 's':
    if a[4]:
      return a
    return ('s', a[1], not a[2], a[3], a[4])
  return a


class Poly:
  """sum coeff * a1 a2 ... an ; kind: mat | rows | vec | cols"""
  __slots__ = ('terms', 'kind')

  ORTHO = set()      # names of orthogonal matrices (V.T V = V V.T = I)

  def __init__(self, terms=None, kind='mat'):
    self.terms = {m: c for m, c in (terms or {}).items() if c != 0}
    self.kind = kind

  @staticmethod
  def sym(name, kind='mat', symmetric=False):
    return Poly({(A(name, kind, False, symmetric),): Fraction(1)}, kind)

  @staticmethod
  def eye():
    return Poly({(): Fraction(1)}, 'mat')

  @staticmethod
  def diag(sx):
    if sx.is_one():
      return Poly.eye()
    c = sx.coeff
    s1 = SExpr(1, sx.factors)
    if s1.is_one():
      return Poly({(): c}, 'mat')
    return Poly({(('diag', s1.key()),): c}, 'mat')

  def key(self):
    return ('poly', self.kind, tuple(sorted(self.terms.items(), key=repr)))

  def __eq__(self, o):
    return isinstance(o, Poly) and self.terms == o.terms

  def __hash__(self):
    return hash(self.key())

  def scale(self, c):
    c = frac(c)
    return Poly({m: v * c for m, v in self.terms.items()}, self.kind)

  def add(self, o, sign=1):
    t = dict(self.terms)
    for m, c in o.terms.items():
      t[m] = t.get(m, 0) + sign * c
    return Poly(t, self.kind)

  def transpose(self):
    t = {}
    for m, c in self.terms.items():
      nm = tuple(a_transpose(a) for a in reversed(m))
      t[nm] = t.get(nm, 0) + c
    kind = {'rows': 'cols', 'cols': 'rows'}.get(self.kind, self.kind)
    return Poly(t, kind).simplify()

  def mul(self, o, kind=None):
    t = {}
    for m1, c1 in self.terms.items():
      for m2, c2 in o.terms.items():
        m = m1 + m2
        t[m] = t.get(m, 0) + c1 * c2
    if kind is None:
      kind = self.kind if self.kind in ('rows', 'vec') else o.kind \
          if o.kind in ('cols',) else 'mat'
    return Poly(t, kind).simplify()

  def simplify(self):
    t = {}
    for m, c in self.terms.items():
      m, c2 = _simplify_mono(m)
      t[m] = t.get(m, 0) + c * c2
    return Poly(t, self.kind)

  def rewrite(self, rules):
    """rules: list of (pattern tuple of atoms, replacement tuple of atoms)."""
    changed = True
    p = self
    while changed:
      changed = False
      t = {}
      for m, c in p.terms.items():
        for pat, rep in rules:
          n = len(pat)
          for i in range(len(m) - n + 1):
            if m[i:i + n] == pat:
              m = m[:i] + rep + m[i + n:]
              changed = True
              break
        t[m] = t.get(m, 0) + c
      p = Poly(t, p.kind).simplify()
    return p

  def map_diag(self, fn):
    t = {}
    for m, c in self.terms.items():
      nm = []
      cc = c
      for a in m:
        if a[0] == 'diag':
          sx = fn(_sx_from_key(a[1]))
          cc = cc * sx.coeff
          s1 = SExpr(1, sx.factors)
          if not s1.is_one():
            nm.append(('diag', s1.key()))
        else:
          nm.append(a)
      nm = tuple(nm)
      t[nm] = t.get(nm, 0) + cc
    return Poly(t, self.kind).simplify()

  def split_left(self):
    """X = D * W with D a combination of left-most (row source) atoms and W
    one common right word. Returns (D: {atom: coeff}, W: tuple) or None."""
    if not self.terms:
      return None
    tails = set()
    D = {}
    for m, c in self.terms.items():
      if not m:
        return None
      tails.add(m[1:])
      D[m[0]] = D.get(m[0], 0) + c
    if len(tails) != 1:
      return None
    return D, tails.pop()

  def __repr__(self):
    if not self.terms:
      return '0'
    out = []
    for m, c in sorted(self.terms.items(), key=repr):
      s = '.'.join(_atom_str(a) for a in m) or 'I'
      out.append(('' if c == 1 else '-' if c == -1 else '%s*' % c) + s)
    return ' + '.join(out)


def _atom_str(a):
  if a[0] == 's':
    return a[1] + ("'" if a[2] else '')
  if a[0] == 'diag':
    return 'Diag(%r)' % _sx_from_key(a[1])
  return str(a)


def _sx_from_key(k):
  return SExpr(k[1], dict(k[2]))


def _simplify_mono(m):
  c = Fraction(1)
  m = list(m)
  changed = True
  while changed:
    changed = False
    for i in range(len(m) - 1):
      a, b = m[i], m[i + 1]
      if a[0] == 'diag' and b[0] == 'diag':
        sx = _sx_from_key(a[1]).mul(_sx_from_key(b[1]))
        c *= sx.coeff
        s1 = SExpr(1, sx.factors)
        m[i:i + 2] = [] if s1.is_one() else [('diag', s1.key())]
        changed = True
        break
      if a[0] == 's' and b[0] == 's' and a[1] == b[1] and \
              a[1] in Poly.ORTHO and a[2] != b[2]:
        m[i:i + 2] = []
        changed = True
        break
  return tuple(m), c


# ---------------------------------------------------------- row quadratic
class Quad:
  """row-wise  d M d^T  with d = sum coeff * source atom.  Canonical: overall
  sign of d normalised (the form is even in d)."""
  __slots__ = ('D', 'M', 'gram')

  def __init__(self, D, M, gram=None):
    self.gram = gram      # W when M = W W^T by construction (semi-norm)
    items = sorted(((a, c) for a, c in D.items() if c != 0), key=repr)
    if items and items[0][1] < 0:
      items = [(a, -c) for a, c in items]
    self.D = tuple(items)
    self.M = M

  def key(self):
    return ('quad', self.D, self.M.key())

  def __eq__(self, o):
    return isinstance(o, Quad) and self.key() == o.key()

  def __hash__(self):
    return hash(self.key())

  def __repr__(self):
    d = ' '.join('%+d*%s' % (c, _atom_str(a)) if c.denominator == 1 else
                 '%s*%s' % (c, _atom_str(a)) for a, c in self.D)
    return 'Quad[(%s) | %r]' % (d, self.M)


def row_dot(X, Y):
  """row-wise <X_i, Y_i> for row batches / vectors X = D W1, Y = D W2."""
  sx = X.split_left()
  sy = Y.split_left()
  if sx is None or sy is None:
    return None
  (D1, W1), (D2, W2) = sx, sy
  if D1 != D2:
    # allow Y = -D
    if {a: -c for a, c in D1.items()} == D2:
      sign = -1
    else:
      return None
  else:
    sign = 1
  Wp = Poly({W1: Fraction(1)}, 'mat')
  Wq = Poly({W2: Fraction(1)}, 'mat').transpose()
  M = Wp.mul(Wq, 'mat')
  return Quad(D1, M, W1 if W1 == W2 else None), sign


class ElemProd:
  __slots__ = ('X', 'Y')

  def __init__(self, X, Y):
    self.X, self.Y = X, Y

  def key(self):
    return ('elemprod', self.X.key(), self.Y.key())

  def __eq__(self, o):
    return isinstance(o, ElemProd) and self.key() == o.key()

  def __hash__(self):
    return hash(self.key())

  def __repr__(self):
    return 'ElemProd(%r, %r)' % (self.X, self.Y)


# -------------------------------------------------------------------- Lin
class Lin:
  __slots__ = ('terms', 'const')

  def __init__(self, terms=None, const=0):
    self.terms = {k: frac(v) for k, v in (terms or {}).items() if v != 0}
    self.const = frac(const)

  @staticmethod
  def atom(a):
    return Lin({a: 1})

  def key(self):
    return ('lin', tuple(sorted(self.terms.items(), key=repr)), self.const)

  def __eq__(self, o):
    return isinstance(o, Lin) and self.key() == o.key()

  def __hash__(self):
    return hash(self.key())

  def add(self, o, sign=1):
    t = dict(self.terms)
    for k, v in o.terms.items():
      t[k] = t.get(k, 0) + sign * v
    return Lin(t, self.const + sign * o.const)

  def scale(self, c):
    c = frac(c)
    return Lin({k: v * c for k, v in self.terms.items()}, self.const * c)

  def is_const(self):
    return not self.terms

  def single(self):
    """(atom, coeff) if the value is coeff*atom with no constant."""
    if len(self.terms) == 1 and self.const == 0:
      return next(iter(self.terms.items()))
    return None

  def __repr__(self):
    parts = ['%s*%s' % (v, _latom(k)) if v != 1 else _latom(k)
             for k, v in sorted(self.terms.items(), key=repr)]
    if self.const != 0 or not parts:
      parts.append(str(self.const))
    return ' + '.join(parts)


def _latom(k):
  if k[0] == 'dist':
    return 'Dist%r' % (k[1],)
  return repr(k)


class Cmp:
  """lin <op> 0 with op in < <= == != ; normalised so that the first term's
  coefficient is positive (flipping the operator)."""
  __slots__ = ('lin', 'op')

  def __init__(self, lin, op):
    flip = {'<': '>', '<=': '>=', '>': '<', '>=': '<=', '==': '==',
            '!=': '!='}
    items = sorted(lin.terms.items(), key=repr)
    if items and items[0][1] < 0:
      lin = lin.scale(-1)
      op = flip[op]
    elif not items and lin.const < 0:
      lin = lin.scale(-1)
      op = flip[op]
    self.lin = lin
    self.op = op

  def key(self):
    return ('cmp', self.lin.key(), self.op)

  def __eq__(self, o):
    return isinstance(o, Cmp) and self.key() == o.key()

  def __hash__(self):
    return hash(self.key())

  def __repr__(self):
    return '[%r %s 0]' % (self.lin, self.op)


class Tup:
  """3-D tuple array: base symbol restricted to an ordered slot list (None =
  all slots of a tuple array of unknown size)."""
  __slots__ = ('base', 'slots')

  def __init__(self, base, slots=None):
    self.base = base
    self.slots = tuple(slots) if slots is not None else None

  def key(self):
    return ('tup', self.base, self.slots)

  def __eq__(self, o):
    return isinstance(o, Tup) and self.key() == o.key()

  def __hash__(self):
    return hash(self.key())

  def slot(self, i):
    if self.slots is None:
      return ('slot', self.base, i) if i >= 0 else None
    if -len(self.slots) <= i < len(self.slots):
      return ('slot', self.base, self.slots[i])
    return None

  def __repr__(self):
    return 'Tup(%s%s)' % (self.base, '' if self.slots is None
                          else list(self.slots))
