"""FRAME domain: index provenance for the constraint generators.

  ('arr', F)               array whose rows / positions live in frame F
  ('mask', F, pred)        boolean mask over frame F
  ('idx', VF, DF, R, rel)  index value(s): the *values* are positions in
                           frame VF; the index array itself is laid out over
                           frame DF (what may index into it); R = predicates
                           known of the designated elements ('known',
                           'class'); rel = relation to the anchor point of a
                           pair ('eq', 'eq-noself', 'ne', None)
  ('len', F) ('cls', R) ('classes',) ('empty',) ('nn', F) ('rng',) ('set', x)
Frames: 'Full' (the caller's array), 'Known' (= Full[labels >= 0]),
('sub', parent, key), 'Classes'."""
import ast
from .engine import Domain, V, NOCONST
from .tags import EventsMixin
from .model import canon

UNK = None
FULL, KNOWN = 'Full', 'Known'


def sub(parent, key):
  if parent == FULL and key == 'known':
    return KNOWN
  return ('sub', parent, key)


def is_idx(d):
  return isinstance(d, tuple) and d and d[0] == 'idx'


def join_idx(a, b):
  if a is None:
    return b
  if b is None:
    return a
  if not (is_idx(a) and is_idx(b)):
    return UNK
  vf = a[1] if a[1] == b[1] else ('mixed', a[1], b[1])
  df = a[2] if a[2] == b[2] else None
  return ('idx', vf, df, a[3] & b[3], a[4] if a[4] == b[4] else None)


class FrameDomain(EventsMixin, Domain):
  name = 'frame'

  def __init__(self, labels_attr='partial_labels'):
    self._ev_init()
    self.labels_attr = labels_attr
    self.stores = []       # (target payload, index payload, site)
    self.pairs_added = []  # (rel, site)
    self.mask_cleared = set()
    self.nn_fit = {}
    self.gathers = []      # (array frame, index payload, site)

  def top(self, node=None):
    return UNK

  def const(self, value, node=None):
    return UNK

  def join(self, a, b):
    if a == b:
      return a
    if is_idx(a) and is_idx(b):
      return join_idx(a, b)
    if isinstance(a, tuple) and isinstance(b, tuple) and a[:1] == b[:1] and \
            a[0] in ('set', 'listof') and len(a) == 2 and len(b) == 2:
      inner = self.join(a[1], b[1]) if (a[1] is not None and
                                        b[1] is not None) else (a[1] or b[1])
      return (a[0], inner)
    # an uninitialised np.empty buffer contributes no index values
    if a == ('empty',) and is_idx(b):
      return b
    if b == ('empty',) and is_idx(a):
      return a
    return UNK

  # sources --------------------------------------------------------------
  def fitted_read(self, cls, name, node, st):
    if name == self.labels_attr:
      return ('arr', FULL)
    return UNK

  def hyperparam(self, cls, name, node):
    if name == self.labels_attr:
      return ('arr', FULL)
    return UNK

  def summary(self, target, args, kwargs, node, st):
    if target.name == '_prepare_inputs' and target.cls is not None:
      y = args[2] if len(args) > 2 else kwargs.get('y')
      x0 = args[1] if len(args) > 1 else kwargs.get('X')

      def keep(v):
        # validation keeps the rows: an array already typed keeps its frame
        if v is not None and isinstance(v.d, tuple) and v.d[0] == 'arr':
          return V(v.d)
        return V(('arr', FULL))
      x = keep(x0)
      if y is None or (y.c is not NOCONST and y.const() is None):
        return x
      return V(UNK, elts=(x, keep(y)))
    return None

  # expressions ----------------------------------------------------------
  def compare(self, ops, vals, node, st):
    if len(ops) != 1:
      return UNK
    a, b = vals[0], vals[1]
    op = type(ops[0])
    for x, y, flip in ((a, b, False), (b, a, True)):
      if isinstance(x.d, tuple) and x.d[0] in ('arr', 'classes'):
        frame = x.d[1] if x.d[0] == 'arr' else 'Classes'
        c = y.const()
        o = op
        if flip:
          o = {ast.Lt: ast.Gt, ast.Gt: ast.Lt, ast.LtE: ast.GtE,
               ast.GtE: ast.LtE}.get(op, op)
        if c is not NOCONST and isinstance(c, (int, float)):
          if (o is ast.GtE and c == 0) or (o is ast.Gt and c == -1):
            return ('mask', frame, 'known')
          if (o is ast.Lt and c == 0) or (o is ast.LtE and c == -1):
            return ('mask', frame, 'unknown')
          if (o is ast.NotEq and c == -1):
            return ('mask', frame, 'not-minus-one')
          return ('mask', frame, ('cmpconst', o.__name__, c))
        # labels[a] == labels   /  labels == label  /  lookup == c
        if op in (ast.Eq, ast.NotEq):
          rel = 'eq' if op is ast.Eq else 'ne'
          yd = y.d
          R = frozenset()
          if isinstance(yd, tuple) and yd[0] == 'cls':
            R = yd[1]
          return ('mask', frame, ('class', rel, R))
    return UNK

  def unop(self, op, v, node, st):
    d = v.d
    if isinstance(op, ast.Invert) and isinstance(d, tuple) and d[0] == 'mask':
      p = d[2]
      if isinstance(p, tuple) and p[0] == 'class':
        return ('mask', d[1], ('class', 'ne' if p[1] == 'eq' else 'eq', p[2]))
      inv = {'known': 'unknown', 'unknown': 'known'}.get(p, ('not', p))
      return ('mask', d[1], inv)
    if isinstance(op, ast.USub):
      return d if isinstance(d, tuple) and d[0] == 'arr' else UNK
    return UNK

  def binop(self, op, l, r, node, st):
    for x in (l, r):
      if is_idx(x.d):
        return UNK
    return UNK

  def _pred_R(self, pred):
    if pred == 'known':
      return frozenset(['known'])
    if isinstance(pred, tuple) and pred[0] == 'class':
      return frozenset(['class']) | pred[2]
    return frozenset()

  def _rel(self, pred):
    if isinstance(pred, tuple) and pred[0] == 'class':
      return pred[1]
    return None

  def subscript(self, v, idx, node, st):
    d = v.d
    parts = [p for p in idx]
    first = parts[0] if parts else None
    fv = first[1].d if first and first[0] == 'expr' else None
    # tuple of index arrays (result of np.where) used as index
    if first and first[0] == 'expr' and first[1].elts is not None and \
            len(first[1].elts) == 1:
      fv = first[1].elts[0].d
    if isinstance(d, tuple) and d[0] == 'arr':
      F = d[1]
      if is_idx(fv) or (isinstance(fv, tuple) and fv[0] == 'mask'):
        self.gathers.append((F, fv, self.site(node)))
      if isinstance(fv, tuple) and fv[0] == 'mask':
        if fv[1] == F:
          return ('arr', sub(F, fv[2] if not isinstance(fv[2], tuple)
                             else ('p',) + tuple(map(str, fv[2]))))
        return ('arr', ('misindexed', F, fv[1]))
      if is_idx(fv):
        if fv[1] == F:
          if len(parts) == 1 and fv[2] is not None and node is not None:
            return ('arr', fv[2])        # rows gathered: laid out over DF
          return ('arr', fv[2]) if fv[2] is not None else ('elem', F, fv[3])
        return ('arr', ('misindexed', F, fv[1]))
      if first and first[0] == 'slice':
        return UNK
      return UNK
    if is_idx(d):
      # idx[rel]: positions `rel` must live in idx's layout frame
      if is_idx(fv):
        if d[2] is not None and fv[1] == d[2]:
          return ('idx', d[1], fv[2], d[3], fv[4])
        return ('idx', ('miscomposed', d[1], d[2], fv[1]), None, frozenset(),
                None)
      if first and first[0] == 'slice':
        return d           # prefix / slice keeps values
      if first and first[0] == 'expr':
        c = first[1].const()
        if isinstance(c, int):
          return d
      return UNK
    if isinstance(d, tuple) and d[0] == 'mask':
      return UNK
    if isinstance(d, tuple) and d[0] == 'classes':
      return ('cls', frozenset())
    if isinstance(d, tuple) and d[0] == 'listof':
      if first and first[0] == 'slice':
        return d
      return d[1]
    return UNK

  def attr(self, v, name, node, st):
    d = v.d
    if name == 'T' and is_idx(d):
      return d
    if name == 'shape' and isinstance(d, tuple) and d[0] == 'arr':
      return ('shape', d[1])
    return UNK

  def tuple(self, elts, node, st):
    ds = [e.d for e in elts]
    if ds and all(is_idx(x) for x in ds):
      out = ds[0]
      for x in ds[1:]:
        out = join_idx(out, x)
      return out
    return UNK

  def list(self, elts, node, st):
    return self.tuple(elts, node, st)

  def comprehension(self, elt, iters, node, st):
    if isinstance(elt.d, tuple) and elt.d[0] in ('set', 'idx'):
      return ('listof', elt.d)
    return UNK

  def iter_elem(self, v, node, st):
    d = v.d
    if is_idx(d):
      return V(d)
    if isinstance(d, tuple) and d[0] == 'rangelen':
      if d[1] == 'Classes':
        return V(('cls', frozenset()))
      return V(('idx', d[1], None, frozenset(), None))
    if isinstance(d, tuple) and d[0] == 'classes':
      return V(('cls', frozenset(['label-value'])))
    if isinstance(d, tuple) and d[0] == 'enumerate':
      inner = self.iter_elem(V(d[1]), node, st)
      return V(UNK, elts=(V(UNK), inner))
    if isinstance(d, tuple) and d[0] == 'listof':
      return V(d[1])
    return V(UNK)

  def unpack(self, v, n, node, st):
    d = v.d
    if isinstance(d, tuple) and d[0] == 'where' and n == 1:
      return [V(d[1])]
    if isinstance(d, tuple) and d[0] == 'listof':
      # a sequence of index arrays of one provenance, unpacked
      return [V(d[1]) for _ in range(n)]
    if is_idx(d):
      return [V(d) for _ in range(n)]
    return [V(UNK) for _ in range(n)]

  # calls ----------------------------------------------------------------
  def ext_call(self, dotted, args, kwargs, node, st, eng):
    a0 = args[0].d if args else None
    if dotted in ('numpy.where', 'numpy.nonzero') and len(args) == 1:
      if isinstance(a0, tuple) and a0[0] == 'mask':
        F, pred = a0[1], a0[2]
        key = pred if not isinstance(pred, tuple) else \
            ('p',) + tuple(map(str, pred))
        ix = ('idx', F, sub(F, key), self._pred_R(pred), self._rel(pred))
        return V(('where', ix), elts=(V(ix),))
      return UNK
    if dotted == 'numpy.flatnonzero' and isinstance(a0, tuple) and \
            a0[0] == 'mask':
      F, pred = a0[1], a0[2]
      key = pred if not isinstance(pred, tuple) else \
          ('p',) + tuple(map(str, pred))
      return ('idx', F, sub(F, key), self._pred_R(pred), self._rel(pred))
    if dotted == 'builtins.len':
      if isinstance(a0, tuple) and a0[0] == 'arr':
        return ('len', a0[1])
      if isinstance(a0, tuple) and a0[0] == 'classes':
        return ('len', 'Classes')
      if is_idx(a0) and a0[2] is not None:
        return ('len', a0[2])     # one entry per element of its layout frame
      return UNK
    if dotted == 'builtins.range' and len(args) == 1 and \
            isinstance(a0, tuple) and a0[0] == 'len':
      return ('rangelen', a0[1])
    if dotted == 'builtins.enumerate' and args:
      return ('enumerate', a0)
    if dotted == 'numpy.unique' and args:
      if isinstance(a0, tuple) and a0[0] == 'arr':
        if kwargs.get('return_inverse') is not None and \
                kwargs['return_inverse'].const() is True:
          return V(UNK, elts=(V(('classes',)), V(('arr', a0[1]))))
        if kwargs.get('return_counts') is not None:
          return V(UNK, elts=(V(('classes',)), V(UNK)))
        return ('classes',)
      return UNK
    if dotted in ('numpy.take',) and len(args) >= 2:
      base = args[0]
      bd = base.d
      if base.elts is not None and len(base.elts) == 1:
        bd = base.elts[0].d
      if isinstance(bd, tuple) and bd[0] == 'where':
        bd = bd[1]
      rd = args[1].d
      if is_idx(bd) and is_idx(rd):
        if bd[2] is not None and rd[1] == bd[2]:
          return ('idx', bd[1], rd[2], bd[3], rd[4])
        return ('idx', ('miscomposed', bd[1], bd[2], rd[1]), None,
                frozenset(), None)
      return UNK
    if dotted in ('numpy.array', 'numpy.asarray', 'numpy.vstack',
                  'numpy.hstack', 'numpy.column_stack', 'numpy.tile',
                  'numpy.concatenate', 'numpy.ravel', 'numpy.sort',
                  'builtins.list', 'builtins.tuple', 'builtins.sorted',
                  'numpy.asanyarray', 'numpy.atleast_1d', 'builtins.int',
                  'numpy.squeeze', 'numpy.repeat'):
      src = []

      def collect(v):
        if v.elts is not None:
          for x in v.elts:
            collect(x)
        d = v.d
        if isinstance(d, tuple) and d[0] == 'where':
          d = d[1]
        if isinstance(d, tuple) and d[0] in ('set', 'listof'):
          d = d[1]
        if is_idx(d):
          src.append(d)
      if args:
        collect(args[0])
      if src:
        out = src[0]
        for x in src[1:]:
          out = join_idx(out, x)
        return out
      if isinstance(a0, tuple) and a0[0] == 'arr' and dotted in (
              'numpy.asanyarray', 'numpy.asarray', 'numpy.array'):
        return a0
      return UNK
    if dotted in ('numpy.empty', 'numpy.zeros') :
      return ('empty',)
    if dotted in ('numpy.ones_like', 'numpy.zeros_like', 'numpy.full_like',
                  'numpy.empty_like'):
      if isinstance(a0, tuple) and a0[0] in ('arr',):
        return a0
      return UNK
    if dotted == 'builtins.set':
      if not args:
        return ('set', None)
      if is_idx(a0):
        return ('set', a0)
      if isinstance(a0, tuple) and a0[0] == 'where':
        return ('set', a0[1])
      return ('set', None)
    if dotted == canon('sklearn.utils.check_random_state'):
      return ('rng',)
    if dotted == canon('sklearn.neighbors.NearestNeighbors'):
      return V(('nn', None), origin=('nn', node.lineno))
    return UNK

  def method_call(self, recv, name, args, kwargs, node, st, eng):
    d = recv.d
    a0 = args[0].d if args else None
    if isinstance(d, tuple) and d[0] == 'rng':
      if name == 'randint':
        hi = kwargs.get('high')
        src = a0
        if hi is not None:
          src = hi.d
        if isinstance(src, tuple) and src[0] == 'len':
          return ('idx', src[1], None, frozenset(), None)
        return UNK
      if name == 'choice':
        if isinstance(a0, tuple) and a0[0] in ('set', 'listof'):
          a0 = a0[1]
        if is_idx(a0):
          self.event(st, ('choice', 'replace=%s' % (
              kwargs['replace'].const() if 'replace' in kwargs else 'default')))
          return ('idx', a0[1], None, a0[3], a0[4])
        return UNK
      return UNK
    if isinstance(d, tuple) and d[0] == 'nn':
      if name == 'fit':
        x = kwargs.get('X') or (args[0] if args else None)
        if x is not None and isinstance(x.d, tuple) and x.d[0] == 'arr':
          if isinstance(node.func, ast.Attribute) and \
                  isinstance(node.func.value, ast.Name):
            st.vars[node.func.value.id] = recv.with_(d=('nn', x.d[1]))
          return ('nn', x.d[1])
        if isinstance(node.func, ast.Attribute) and \
                isinstance(node.func.value, ast.Name):
          st.vars[node.func.value.id] = recv.with_(d=('nn', 'unknown'))
        return ('nn', 'unknown')
      if name == 'kneighbors':
        q = kwargs.get('X') or (args[0] if args else None)
        qf = None
        if q is not None and isinstance(q.d, tuple) and q.d[0] == 'arr':
          qf = q.d[1]
        if d[1] is None or d[1] == 'unknown':
          return UNK
        if q is None:
          qf = d[1]
        elif qf == d[1]:
          # the fitted set queried against itself with an explicit X: every
          # point comes back as its own neighbour (the X-less query is the
          # one that excludes it)
          self.events.append(('self-query', self.site(node)))
        return ('idx', d[1], qf, frozenset(), None)
      return UNK
    if isinstance(d, tuple) and d[0] == 'set':
      if name == 'add' and args:
        a = args[0]
        if a.elts is not None and len(a.elts) == 2:
          second = a.elts[1].d
          rel = second[4] if is_idx(second) else None
          if is_idx(second) and rel == 'eq' and \
                  self._anchor_cleared(a.elts[0], second, st):
            rel = 'eq-noself'
          self.pairs_added.append((rel, self.site(node)))
          nd = join_idx(d[1], self.tuple(list(a.elts), node, st)) \
              if d[1] is not None else self.tuple(list(a.elts), node, st)
          if isinstance(node.func, ast.Attribute) and \
                  isinstance(node.func.value, ast.Name):
            st.vars[node.func.value.id] = recv.with_(d=('set', nd))
        return UNK
      if name == 'difference_update':
        self.event(st, ('difference_update',))
        return UNK
      return UNK
    if is_idx(d) and name in ('ravel', 'flatten', 'reshape', 'copy',
                              'astype', 'squeeze', 'tolist'):
      return d
    if isinstance(d, tuple) and d[0] == 'arr' and name in (
            'copy', 'astype', 'ravel'):
      return d
    return UNK

  def _anchor_cleared(self, anchor, second, st):
    return ('cleared', 'mask') in self.must(st)

  def on_store_subscript(self, target, idx, val, node, st):
    d = target.d
    first = idx[0] if idx else None
    iv = first[1].d if first and first[0] == 'expr' else None
    if isinstance(d, tuple) and d[0] == 'mask':
      # mask[aidx] = False
      if val.const() is False and is_idx(iv) and iv[1] == d[1]:
        self.event(st, ('cleared', 'mask'))
      return None
    if isinstance(d, tuple) and d[0] == 'arr':
      self.stores.append((d, iv, self.site(node)))
      return None
    if isinstance(d, tuple) and d[0] == 'empty':
      if is_idx(val.d):
        return val.d
      return None
    if is_idx(d) and is_idx(val.d):
      return join_idx(d, val.d)
    return None

  def on_branch(self, test, val, taken, node, st):
    # c not in unknown_uniq  (class indices whose label value is negative)
    if isinstance(test, ast.Compare) and len(test.ops) == 1 and \
            isinstance(test.ops[0], (ast.NotIn, ast.In)) and \
            isinstance(test.left, ast.Name) and \
            isinstance(test.comparators[0], ast.Name):
      cvv = st.vars.get(test.left.id)
      coll = st.vars.get(test.comparators[0].id)
      if isinstance(cvv, V) and isinstance(coll, V) and \
              isinstance(cvv.d, tuple) and cvv.d[0] == 'cls' and \
              is_idx(coll.d) and coll.d[1] == 'Classes':
        neg = (isinstance(test.ops[0], ast.NotIn) == taken)
        rel_unknown = coll.d[2] == sub('Classes', 'unknown')
        if neg and rel_unknown:
          st.vars[test.left.id] = cvv.with_(d=('cls', cvv.d[1] | {'known'}))
