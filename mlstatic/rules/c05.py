"""C05 - indices + preprocessor are interchangeable with formed data
(routing through one validated choke point)."""
import ast
from ..model import FuncInfo, canon
from ..engine import Engine, V, NOCONST
from ..tags import TagDomain, EMPTY
from ..taint import TaintDomain
from .. import astutil
from .common import site, methods_of, DATA_METHODS
from . import c06


class RouteDomain(TaintDomain):
  def __init__(self):
    super().__init__()
    self.ci_calls = []    # (ok, site, detail)

  def on_call(self, kind, target, args, kwargs, node, st):
    super().on_call(kind, target, args, kwargs, node, st)
    if kind == 'repo' and target.key == '_util.check_input':
      caller = self.cur()
      if caller is not None and caller.cls is not None:
        pv = kwargs.get('preprocessor')
        if pv is None and len(args) > 2:
          pv = args[2]
        cur = st.vars.get(('self', 'preprocessor_'))
        if pv is None:
          self.ci_calls.append((False, self.site(node),
                                'no preprocessor passed to check_input'))
        elif pv is cur or pv.origin == ('attr', 'preprocessor_') or \
                (cur is not None and pv.origin is not None and
                 pv.origin == cur.origin):
          self.ci_calls.append((True, self.site(node), ''))
        else:
          self.ci_calls.append((False, self.site(node),
                                'check_input receives a preprocessor that is '
                                'not self.preprocessor_'))
        if caller.name == '_prepare_inputs':
          must = self.must(st)
          if ('call', 'base_metric.BaseMetricLearner._check_preprocessor') \
                  not in must:
            self.ci_calls.append((False, self.site(node),
                                  '_check_preprocessor does not precede '
                                  'check_input in _prepare_inputs'))


def rule_routing(repo, rep):
  R = 'R-FLOW:own-preprocessor'
  rep.rule(R, "every check_input call in estimator code receives "
           "preprocessor=self.preprocessor_, and _prepare_inputs derives "
           "self.preprocessor_ first")
  n = 0
  for c in repo.estimators():
    for name, f in methods_of(repo, c, DATA_METHODS):
      args = c06.data_args(f, labels=False)
      if not args:
        continue
      dom = RouteDomain()
      Engine(repo, dom, self_cls=c).run(f, args=args)
      rep.analysed(f)
      key = '%s.%s' % (c.name, name)
      bad = [x for x in dom.ci_calls if not x[0]]
      n += len(dom.ci_calls)
      if bad:
        rep.refuted(R, key, bad[0][1], bad[0][2])
      elif dom.ci_calls:
        rep.derived(R, key, site(f))
      else:
        rep.unknown(R, key, site(f), 'method never reaches check_input')
      # calls through the user's preprocessor only in the two helpers
      Rw = 'R-WHO:preprocessor-callers'
      ok_keys = _pre_helpers(repo)

      def _inside(fn):
        # an allowed function, or a function nested in one
        k = fn.key
        qn = getattr(fn, 'qualname', '') or ''
        return k in ok_keys or any(
            k.startswith(a + '.') or
            qn.startswith(a.split('.', 1)[1] + '.<locals>.')
            for a in ok_keys)
      outside = [x for x in dom.pre_calls
                 if x[2] is None or not _inside(x[2])]
      if outside:
        rep.refuted(Rw, key, outside[0][1],
                    'a user-supplied callable is invoked outside '
                    'preprocess_tuples / preprocess_points')
      else:
        rep.derived(Rw, key, site(f))
  rep.rule('R-WHO:preprocessor-callers', 'calls through the user-supplied '
           'preprocessor value occur only in preprocess_tuples / '
           'preprocess_points (and private helpers called from nowhere '
           'else)')
  rep.floor('check_input call events from estimator methods', n, 100)


_PRE_HELPERS = {}


def _pre_helpers(repo):
  """preprocess_tuples / preprocess_points and the private helpers that are
  called from nowhere else (transitively): extracting a few lines of them
  into a helper does not widen who may call through the preprocessor"""
  if id(repo) in _PRE_HELPERS:
    return _PRE_HELPERS[id(repo)]
  allowed = {'_util.preprocess_tuples', '_util.preprocess_points'}
  funcs = list(repo.all_functions())
  callers = {}
  for g in funcs:
    for c in astutil.calls_in(g.node):
      d = repo.dotted(g.module, c.func)
      h = repo.func_by_dotted(d) if d else None
      if h is not None:
        callers.setdefault(h.key, set()).add(g.key)
  changed = True
  while changed:
    changed = False
    for g in funcs:
      if g.key in allowed or g.cls is not None:
        continue
      cs = callers.get(g.key, set()) - {g.key}
      if cs and cs <= allowed:
        allowed.add(g.key)
        changed = True
  _PRE_HELPERS[id(repo)] = allowed
  return allowed


class IdDomain(TagDomain):
  """check_array is value-identity-like: result remembers its argument."""
  fork = True

  def ext_call(self, dotted, args, kwargs, node, st, eng):
    if dotted == canon('sklearn.utils.check_array') and args:
      a = args[0]
      return V(EMPTY, origin=('idlike', a.origin), ty='ndarray')
    return super().ext_call(dotted, args, kwargs, node, st, eng)


class IdDomain2(IdDomain):
  """value-identity tracking through the validators."""

  def __init__(self):
    super().__init__()
    self.sinks = []     # (what, origin, site)

  def ext_call(self, dotted, args, kwargs, node, st, eng):
    if dotted == canon('sklearn.utils.validation.check_X_y') and \
            len(args) >= 2:
      self.sinks.append(('check_X_y', args[0].origin, self.site(node)))
      return V(EMPTY, elts=(V(EMPTY, origin=('idlike', args[0].origin),
                              ty='ndarray'),
                            V(EMPTY, origin=('idlike', args[1].origin),
                              ty='ndarray')))
    if dotted == canon('sklearn.utils.check_array') and args:
      self.sinks.append(('check_array', args[0].origin, self.site(node)))
    return super().ext_call(dotted, args, kwargs, node, st, eng)

  def summary(self, target, args, kwargs, node, st):
    if target.key in ('_util.preprocess_tuples', '_util.preprocess_points'):
      self.sinks.append((target.name, args[0].origin, self.site(node)))
      return V(EMPTY, origin=('pre', args[0].origin), ty='ndarray')
    return None


def _chain_ok(o, allow_pre=True):
  P = ('param', 'input_data')
  while isinstance(o, tuple) and o and o[0] in ('idlike', 'pre'):
    if o[0] == 'pre' and not allow_pre:
      return False
    o = o[1]
  return o == P


def rule_data_unchanged(repo, rep):
  R = 'R-FLOW:validators-pass-data-unchanged'
  rep.rule(R, 'inside check_input the value handed to the preprocessor '
           'helpers, to the strict check_array and finally returned is the '
           'caller\'s input itself (through check_array / check_X_y '
           'conversions and the preprocessor only): no reshaping, slicing '
           'or reordering of the data before the ndim dispatch')
  f = repo.get_func('_util.check_input')
  for toi in ('classic', 'tuples'):
    for with_y in (False, True):
      dom = IdDomain2()
      eng = Engine(repo, dom)
      args = {'input_data': V(EMPTY, origin=('param', 'input_data')),
              'type_of_inputs': V(EMPTY, c=frozenset([toi]), ty='str')}
      if with_y:
        args['y'] = V(EMPTY, origin=('param', 'y'))
      else:
        args['y'] = V(EMPTY, c=frozenset([None]), ty='none')
      flow = eng.run(f, args=args)
      key = '_util.check_input:%s:y=%s' % (toi, with_y)
      bad = None
      for (what, o, s) in dom.sinks:
        if not _chain_ok(o, allow_pre=(what == 'check_array')):
          bad = (s, 'the value passed to %s is not the caller\'s input '
                 '(derived value; provenance %s)' % (what, o))
          break
      for (v, st, node) in flow.returns:
        x = v.elts[0] if (with_y and v.elts is not None) else v
        if not _chain_ok(x.origin):
          bad = bad or (site(f, node), 'the returned data is not the '
                        'validated input itself (provenance %s)'
                        % (x.origin,))
      if not flow.returns:
        bad = (site(f), 'no normal return')
      if bad:
        rep.refuted(R, key, bad[0], bad[1])
      else:
        rep.derived(R, key, site(f),
                    sample=dict(rule=R, config=key,
                                sinks=[w for (w, o, s) in dom.sinks]))


def rule_check_preprocessor(repo, rep):
  R = 'R-TABLE:check-preprocessor'
  rep.rule(R, '_check_preprocessor maps an array-like preprocessor to '
           'ArrayIndexer(<that array>), a callable or None to itself, and '
           'anything else to ValueError')
  f = repo.get_func('base_metric.BaseMetricLearner._check_preprocessor')
  c = repo.get_class('Covariance')
  dom = IdDomain()
  flow = Engine(repo, dom, self_cls=c).run(f)
  rep.analysed(f)
  kinds = set()
  ok = True
  for (v, st, node) in flow.returns:
    pv = st.vars.get(('self', 'preprocessor_'))
    if pv is None:
      rep.refuted(R, 'path-without-store', site(f, node),
                  'a path returns without setting self.preprocessor_')
      ok = False
    elif pv.obj is not None and pv.obj.cls.name == 'ArrayIndexer':
      xv = st.vars.get((pv.obj.oid, 'X'))
      if xv is not None and xv.origin == ('idlike', ('hyper', 'preprocessor')):
        kinds.add('indexer')
      else:
        rep.refuted(R, 'indexer-array', site(f, node),
                    'ArrayIndexer does not hold the (validated) preprocessor '
                    'array itself')
        ok = False
    elif pv.origin == ('hyper', 'preprocessor'):
      kinds.add('self')
    elif pv.c is not NOCONST and pv.c == frozenset([None]) and any(
            isinstance(x, V) and x.origin == ('hyper', 'preprocessor') and
            x.c is not NOCONST and x.c == frozenset([None])
            for x in st.vars.values()):
      # the literal None stored on the path where the preprocessor is None
      kinds.add('self')
    else:
      rep.refuted(R, 'other-value', site(f, node),
                  'self.preprocessor_ is neither ArrayIndexer(preprocessor) '
                  'nor the preprocessor itself')
      ok = False
  bad = [n for (n, s, nd) in flow.raises if 'ValueError' not in n]
  if bad:
    rep.refuted(R, 'raise-type', site(f), 'raises %s' % bad[0][0])
    ok = False
  if not flow.raises:
    rep.refuted(R, 'no-reject', site(f),
                'no path rejects an invalid preprocessor')
    ok = False
  if ok and kinds == {'indexer', 'self'}:
    rep.derived(R, 'base_metric.BaseMetricLearner._check_preprocessor',
                site(f))
  elif ok:
    rep.refuted(R, 'dispatch', site(f),
                'dispatch kinds found %s, expected indexer and self'
                % sorted(kinds))
  # which kind of preprocessor takes which path: interpretation on one
  # representative per kind
  from ..minterp import Interp, World, Undecided
  from .c07b import S, tg
  Rt = 'R-INTERP:check-preprocessor-table'
  rep.rule(Rt, '_check_preprocessor interpreted for a preprocessor that is '
           'None / a callable / an array-like / a callable array-like / '
           'something else (a number): preprocessor_ is None / the callable '
           '/ ArrayIndexer(the array-like) (twice) / ValueError')

  class W(World):
    def __init__(self, kind):
      self.kind = kind
      self.stored = {}

    def attr(self, it, v, attr, node):
      if v == S('self'):
        if attr == 'preprocessor':
          return None if self.kind == 'none' else (
              5 if self.kind == 'number' else S('pre', self.kind))
        if attr in self.stored:
          return self.stored[attr]
      return NotImplemented

    def setattr(self, it, obj, attr, value, node):
      if obj == S('self'):
        self.stored[attr] = value
        return None
      return NotImplemented

    def call(self, it, d, recv, args, kwargs, node):
      if d == 'callable' and len(args) == 1 and tg(args[0]) == 'pre':
        return args[0][1] in ('callable', 'callable-array')
      if d.endswith('_is_arraylike') and len(args) == 1:
        if tg(args[0]) == 'pre':
          return args[0][1] in ('array', 'callable-array')
        return False
      if d.endswith('.ArrayIndexer') and len(args) == 1:
        return S('indexer', args[0])
      if d == 'hasattr' and len(args) == 2 and tg(args[0]) == 'pre':
        return args[0][1] in ('array', 'callable-array') and \
            args[1] in ('__len__', 'shape', '__array__')
      return NotImplemented
  table = {'none': ('store', None), 'callable': ('store', S('pre', 'callable')),
           'array': ('store', S('indexer', S('pre', 'array'))),
           'callable-array': ('store', S('indexer', S('pre',
                                                     'callable-array'))),
           'number': ('raise', 'ValueError')}
  bad = unk = None
  for kind, want in table.items():
    w = W(kind)
    try:
      out = Interp(repo, f, w).run({'self': S('self')})
    except Undecided as u:
      unk = unk or '%s (preprocessor: %s)' % (u, kind)
      continue
    if out[0] == 'raise':
      got = ('raise', 'ValueError' if 'ValueError' in out[1] else out[1][0])
    elif 'preprocessor_' not in w.stored:
      got = ('store', '<nothing>')
    else:
      got = ('store', w.stored['preprocessor_'])
    if got != want:
      bad = bad or 'for a preprocessor that is %s: %s %r, documented %s %r' \
          % (kind, got[0], got[1], want[0], want[1])
  key = 'base_metric.BaseMetricLearner._check_preprocessor'
  if bad:
    rep.refuted(Rt, key, site(f), bad)
  elif unk:
    rep.unknown(Rt, key, site(f), unk)
  else:
    rep.derived(Rt, key, site(f))
  # ArrayIndexer.__call__ = self.X[indices]
  Rc = 'R-FORM:array-indexer'
  rep.rule(Rc, 'ArrayIndexer.__call__(indices) is self.X[indices]: rows '
           'selected by the indicator values, no reordering')
  g = repo.get_func('_util.ArrayIndexer.__call__')
  p = g.params()
  rets = [r for r in ast.walk(g.node) if isinstance(r, ast.Return)]
  if len(p) != 2 or not rets:
    rep.unknown(Rc, '_util.ArrayIndexer.__call__', site(g),
                'unrecognised signature / no return')
  for r in rets:
    got = ast.unparse(r.value) if r.value is not None else 'None'
    ok_forms = ('self.X[%s]' % p[1], 'np.take(self.X, %s, axis=0)' % p[1],
                'self.X[%s, :]' % p[1], 'self.X[%s, ...]' % p[1])
    if got in ok_forms:
      rep.derived(Rc, '_util.ArrayIndexer.__call__', site(g, r))
    elif 'self.X' in got:
      rep.refuted(Rc, '_util.ArrayIndexer.__call__:%s' % got, site(g, r),
                  'a path returns %s, not self.X[%s]: the rows are not '
                  'selected by the indicator values themselves' % (got, p[1]))
    else:
      rep.unknown(Rc, '_util.ArrayIndexer.__call__', site(g, r),
                  'unrecognised return %s' % got)


def rule_indexer_permissive(repo, rep):
  from ..minterp import Interp, World, Undecided
  from .c07b import S, tg
  R = 'R-INTERP:array-indexer-conversion'
  rep.rule(R, 'ArrayIndexer.__init__, interpreted, keeps in self.X the result '
           'of one conversion of the given array that cannot reject it for '
           'its content: accept_sparse=True, dtype=None, ensure_2d=False, '
           'allow_nd=True, ensure_min_samples=0, ensure_min_features=0 and '
           'finiteness not required (a table may hold NaN or text in rows no '
           'indicator refers to; check_input validates what is actually '
           'used)')
  f = repo.get_func('_util.ArrayIndexer.__init__')
  if f is None:
    rep.unknown(R, '_util.ArrayIndexer.__init__', '', 'vanished')
    return
  rep.analysed(f)

  class W(World):
    def __init__(self):
      self.calls, self.stored = [], {}

    def name(self, it, ident):
      if ident == '_ALL_FINITE':
        return 'ensure_all_finite'
      return NotImplemented

    def setattr(self, it, obj, attr, value, node):
      if obj == S('self'):
        self.stored[attr] = value
        return None
      return NotImplemented

    def call(self, it, d, recv, args, kwargs, node):
      if d.rsplit('.', 1)[-1] == 'check_array' and 'sklearn' in d:
        self.calls.append((args, dict(kwargs), node))
        return S('converted', len(self.calls))
      if d.startswith('numpy.') and d.rsplit('.', 1)[-1] in (
              'asarray', 'array', 'asanyarray') and args:
        self.calls.append((args, {'<numpy>': d}, node))
        return S('converted', len(self.calls))
      return NotImplemented
  w = W()
  ps = f.params()
  key = '_util.ArrayIndexer.__init__'
  try:
    out = Interp(repo, f, w).run({ps[0]: S('self'), ps[1]: S('table')})
  except Undecided as u:
    rep.unknown(R, key, site(f), str(u))
    return
  if out[0] == 'raise':
    rep.refuted(R, key, site(f), 'raises %s' % out[1][0])
    return
  x = w.stored.get('X')
  if tg(x) != 'converted':
    rep.refuted(R, key, site(f), 'self.X is %r, not the converted table'
                % (x,))
    return
  args, kw, node = w.calls[x[1] - 1]
  if not args or args[0] != S('table'):
    rep.refuted(R, key, site(f, node), 'the conversion is applied to %r'
                % (args[:1],))
    return
  if '<numpy>' in kw:
    rep.derived(R, key, site(f, node))
    return
  want = dict(accept_sparse=True, dtype=None, ensure_2d=False, allow_nd=True,
              ensure_min_samples=0, ensure_min_features=0,
              ensure_all_finite=False)
  strict_default = dict(accept_sparse=False, dtype='numeric', ensure_2d=True,
                        allow_nd=False, ensure_min_samples=1,
                        ensure_min_features=1, ensure_all_finite=True)
  probs = []
  for k, v in want.items():
    got = kw.get(k, strict_default[k])
    if got != v and not (v is False and got in (0, False)):
      probs.append('%s=%r%s' % (k, got, '' if k in kw else ' (default)'))
  if probs:
    rep.refuted(R, key, site(f, node), 'the preprocessor table is converted '
                'with %s: a table is rejected for content no indicator refers '
                'to (the formed-data route accepts the same data)'
                % ', '.join(probs))
  else:
    rep.derived(R, key, site(f, node))


class _ForkTags(TagDomain):
  fork = True
  max_states = 64


def rule_only_for_indicators(repo, rep):
  R = 'R-GUARD:preprocess-only-indicators'
  rep.rule(R, 'decision table of check_input_classic / check_input_tuples, '
           'by abstract interpretation over (ndim, preprocessor given?): the '
           'preprocessor helper runs exactly when the input has one dimension '
           'less than formed data and a preprocessor is given; without a '
           'preprocessor that input is rejected; formed data never goes '
           'through the helper; any other dimension is rejected')
  for key, helper, formed in (
          ('_util.check_input_tuples', '_util.preprocess_tuples', 3),
          ('_util.check_input_classic', '_util.preprocess_points', 2)):
    f = repo.get_func(key)
    rep.analysed(f)
    n_cases = 0
    for nd in (formed - 2, formed - 1, formed, formed + 1):
      for given in (False, True):
        if nd < 0:
          continue
        dom = _ForkTags()
        eng = Engine(repo, dom)
        pre = V(EMPTY, ty='instance') if given else \
            V(EMPTY, c=frozenset([None]), ty='none')
        args = {'input_data': V(EMPTY, ty='ndarray'), 'preprocessor': pre}
        facts = {('@attr', 'input_data', 'ndim'): V(EMPTY,
                                                     c=frozenset([nd]))}
        # tuple_size / estimator etc. stay unknown
        flow = eng.run(f, args=args, facts=facts)
        called_may = any(('call', helper) in dom.may(st_)
                         for (v_, st_, n_) in flow.returns) or \
            any(('call', helper) in dom.may(st_)
                for (nm_, st_, n_) in flow.raises)
        called_must = bool(flow.returns) and all(
            ('call', helper) in dom.must(st_)
            for (v_, st_, n_) in flow.returns)
        normal = bool(flow.returns)
        case = '%s:ndim=%d:preprocessor=%s' % (key, nd, 'given' if given
                                                else 'None')
        n_cases += 1
        if nd == formed - 1 and given:
          ok = called_must
          why = 'indicators are not expanded by %s on every accepting path' \
              % helper.split('.')[-1]
        elif nd == formed - 1 and not given:
          ok = not normal and not called_may
          why = 'indicators without a preprocessor are accepted' if normal \
              else 'the helper runs without a preprocessor'
        elif nd == formed:
          ok = normal and not called_may
          why = 'formed data is rejected' if not normal else \
              'formed data is sent through the preprocessor helper'
        else:
          ok = not normal and not called_may
          why = 'input of dimension %d is accepted' % nd if normal else \
              'the helper runs on input of dimension %d' % nd
        rep.add(R, case, 'derived' if ok else 'refuted', site(f),
                '' if ok else why)
    rep.floor('validator decision-table cases ' + key, n_cases, 6)


def _is_name(n, name):
  return isinstance(n, ast.Name) and n.id == name


def rule_slot_order(repo, rep):
  """preprocess_tuples / preprocess_points decided by interpretation"""
  from ..minterp import Interp, World, Undecided, Raised, Lib
  from .c07b import S, tg
  R = 'R-INTERP:tuple-formation'
  rep.rule(R, 'preprocess_tuples interpreted for tuple sizes 2, 3, 4: output '
           'slot j is preprocessor(tuples[:, j]) for j = 0..t-1 in order '
           'along axis 1, in the dtype the preprocessor returns (stacking or '
           'writing into a buffer of that dtype); preprocess_points returns '
           'preprocessor(points); an exception raised by the preprocessor at '
           'any slot surfaces as PreprocessorError')

  class Buf:
    def __init__(self, shape, dtype):
      self.shape, self.dtype, self.slots = shape, dtype, {}

  class W(World):
    def __init__(self, t, fail_at=None):
      self.t, self.fail_at, self.ncall = t, fail_at, 0

    def attr(self, it, v, attr, node):
      if v == S('tup') and attr == 'shape':
        return (7, self.t)
      if v == S('tup') and attr == 'T':
        return S('tupT')
      if tg(v) == 'pts':
        if attr == 'shape':
          return (7, 3)
        if attr == 'dtype':
          return S('pre-dtype')
        if attr == 'ndim':
          return 2
      if isinstance(v, Buf) and attr == 'shape':
        return v.shape
      return NotImplemented

    def subscript(self, it, base, idx, node):
      full = slice(None, None, None)
      if base == S('tup') and isinstance(idx, tuple) and idx[0] == full \
              and isinstance(idx[1], int) and \
              all(x in (full, Ellipsis) for x in idx[2:]):
        return S('col', idx[1] % self.t)
      if base == S('tup') and isinstance(idx, tuple) and \
              idx[0] is Ellipsis and len(idx) == 2 and \
              isinstance(idx[1], int):
        return S('col', idx[1] % self.t)
      if base == S('tupT') and isinstance(idx, int):
        return S('col', idx % self.t)
      if tg(base) == 'pts' and isinstance(idx, tuple) and idx[0] == full \
              and idx[1] is None and all(x == full for x in idx[2:]):
        return S('pts3', base[1])
      return NotImplemented

    def store(self, it, base, idx, value, node):
      full = slice(None, None, None)
      if isinstance(base, Buf) and isinstance(idx, tuple) and \
              idx[0] == full and isinstance(idx[1], int) and \
              all(x in (full, Ellipsis) for x in idx[2:]) and \
              tg(value) == 'pts':
        base.slots[idx[1]] = value[1]
        return None
      return NotImplemented

    def call(self, it, d, recv, args, kwargs, node):
      if d == '()' and recv == S('pre') and len(args) == 1 and not kwargs:
        k = self.ncall
        self.ncall += 1
        if self.fail_at is not None and k == self.fail_at:
          # any exception type: alternate between unrelated ones
          kinds = (['KeyError', 'LookupError', 'Exception'],
                   ['ZeroDivisionError', 'ArithmeticError', 'Exception'],
                   ['RuntimeError', 'Exception'],
                   ['IndexError', 'LookupError', 'Exception'])
          raise Raised(list(kinds[(self.t + k) % len(kinds)]), node)
        if tg(args[0]) == 'col':
          return S('pts', args[0][1])
        if args[0] == S('points'):
          return S('formed-points')
        raise Undecided('preprocessor applied to %r' % (args[0],))
      if d == 'len' and args and args[0] == S('tup'):
        return 7
      if d.startswith('numpy.'):
        short = d.rsplit('.', 1)[-1]
        if short in ('column_stack', 'hstack') and len(args) == 1 and \
                isinstance(args[0], (list, tuple)) and \
                all(tg(x) == 'pts3' for x in args[0]):
          return S('formed', tuple(x[1] for x in args[0]), 'pre-dtype')
        if short == 'concatenate' and len(args) == 1 and \
                kwargs.get('axis') == 1 and \
                isinstance(args[0], (list, tuple)) and \
                all(tg(x) == 'pts3' for x in args[0]):
          return S('formed', tuple(x[1] for x in args[0]), 'pre-dtype')
        if short == 'stack' and len(args) == 1 and \
                kwargs.get('axis') == 1 and \
                isinstance(args[0], (list, tuple)) and \
                all(tg(x) == 'pts' for x in args[0]):
          return S('formed', tuple(x[1] for x in args[0]), 'pre-dtype')
        if short in ('column_stack', 'hstack', 'concatenate', 'stack',
                     'vstack', 'dstack'):
          return S('misformed', short)
        if short == 'shape' and len(args) == 1 and tg(args[0]) == 'pts':
          return (7, 3)
        if short in ('empty', 'zeros') and args and \
                isinstance(args[0], tuple):
          dt = kwargs.get('dtype', args[1] if len(args) > 1 else None)
          return Buf(args[0], dt)
        if short == 'result_type' and args and \
                all(tg(a) == 'pts' or a == S('pre-dtype') for a in args):
          return S('pre-dtype')
      return NotImplemented
  f = repo.get_func('_util.preprocess_tuples')
  rep.analysed(f)
  ps = f.params()
  key = '_util.preprocess_tuples'
  bad = unk = None
  if len(ps) != 2:
    rep.unknown(R, key, site(f), 'unexpected parameters')
  else:
    for t in (2, 3, 4):
      for fail_at in [None] + list(range(t)):
        w = W(t, fail_at)
        try:
          out = Interp(repo, f, w).run({ps[0]: S('tup'), ps[1]: S('pre')})
        except Undecided as u:
          unk = unk or '%s (tuple size %d)' % (u, t)
          continue
        if fail_at is not None:
          if out[0] != 'raise' or 'PreprocessorError' not in out[1]:
            bad = bad or 'an exception of the preprocessor at slot %d ' \
                'surfaces as %s' % (fail_at, out[1][0] if out[0] == 'raise'
                                    else 'a normal return')
          continue
        if out[0] == 'raise':
          bad = bad or 'raises %s for tuple size %d' % (out[1][0], t)
          continue
        res = out[1]
        if isinstance(res, Buf):
          order = tuple(res.slots.get(j) for j in range(t))
          dtype = res.dtype
          shape_ok = res.shape[:2] == (7, t)
          res = S('formed', order, 'pre-dtype' if dtype == S('pre-dtype')
                  else dtype)
          if not shape_ok:
            bad = bad or 'buffer of shape %s for %d tuples of size %d' % (
                res.shape, 7, t)
        if tg(res) == 'misformed':
          bad = bad or 'the formed points are joined with numpy.%s along ' \
              'another axis than 1' % res[1]
        elif tg(res) != 'formed':
          unk = unk or 'returns %r' % (res,)
        elif res[1] != tuple(range(t)):
          bad = bad or 'for tuple size %d the output slots hold the ' \
              'points of input slots %s' % (t, list(res[1]))
        elif res[2] != 'pre-dtype':
          bad = bad or 'the formed tuples are written into a buffer of ' \
              'dtype %s: data of another dtype than float64 is cast, so the ' \
              'indicator route differs from passing the formed tuples' % (
                  'float64 (default)' if res[2] is None else res[2])
  if bad:
    rep.refuted(R, key, site(f), bad)
  elif unk:
    rep.unknown(R, key, site(f), unk)
  else:
    rep.derived(R, key, site(f))
  g = repo.get_func('_util.preprocess_points')
  rep.analysed(g)
  gp = g.params()
  key = '_util.preprocess_points'
  bad = unk = None
  for fail_at in (None, 0):
    w = W(1, fail_at)
    try:
      out = Interp(repo, g, w).run({gp[0]: S('points'), gp[1]: S('pre')})
    except Undecided as u:
      unk = unk or str(u)
      continue
    if fail_at is not None:
      if out[0] != 'raise' or 'PreprocessorError' not in out[1]:
        bad = bad or 'an exception of the preprocessor surfaces as %s' % (
            out[1][0] if out[0] == 'raise' else 'a normal return')
    elif out != ('return', S('formed-points')):
      bad = bad or 'returns %r, not preprocessor(points)' % (out[1],)
  if bad:
    rep.refuted(R, key, site(g), bad)
  elif unk:
    rep.unknown(R, key, site(g), unk)
  else:
    rep.derived(R, key, site(g))


def rule_wrapped(repo, rep):
  R = 'R-TRY:preprocessor-errors-wrapped'
  rep.rule(R, 'every call through the user-supplied preprocessor lies in a '
           'try whose handler catches Exception and raises PreprocessorError')
  n = 0
  for key in ('_util.preprocess_tuples', '_util.preprocess_points'):
    f = repo.get_func(key)
    pre = f.params()[1]
    calls = [c for c in astutil.calls_in(f.node) if _is_name(c.func, pre)]
    if not calls:
      rep.unknown(R, key, site(f), 'no call through the preprocessor')
    for c in calls:
      n += 1
      tries = [(t, ch) for (t, ch) in astutil.enclosing(f.node, c, ast.Try)]
      ok = False
      why = 'call is not inside a try block'
      for (t, ch) in tries:
        in_body = any(ch is s for s in t.body) or any(
            ch is s for s in ast.walk(ast.Module(body=t.body,
                                                 type_ignores=[])))
        if not in_body:
          continue
        for h in t.handlers:
          names = []
          if h.type is None:
            names = ['Exception']
          else:
            for tt in (h.type.elts if isinstance(h.type, ast.Tuple)
                       else [h.type]):
              names.append(repo.exception_bases(f.module, tt)[0])
          if 'Exception' in names or 'BaseException' in names:
            raises = [r for r in ast.walk(ast.Module(body=h.body,
                                                     type_ignores=[]))
                      if isinstance(r, ast.Raise) and r.exc is not None]
            if raises and all(
                    'PreprocessorError' == repo.exception_bases(
                        f.module, r.exc)[0] for r in raises):
              ok = True
            else:
              why = 'handler does not raise PreprocessorError'
          else:
            why = ('handler catches only %s: other exceptions of the '
                   'preprocessor escape unwrapped' % names)
      if ok:
        rep.derived(R, key, site(f, c))
      else:
        rep.refuted(R, key, site(f, c), why)
  rep.floor('calls through the preprocessor', n, 2)


def rule_formed_precision(repo, rep):
  R = 'R-INTERP:indicators-keep-the-precision-of-the-points'
  rep.rule(R, 'check_input, interpreted with default options on float data '
           'given formed and on integer indicators whose preprocessor yields '
           'float points, returns the points without a further dtype '
           'conversion: the dtype decision is taken on the FORMED data, so '
           'float32 points reached through indicators are processed in the '
           'same precision as the same points passed directly')
  from . import c06b
  f = repo.get_func('_util.check_input')
  bad, why = c06b.float_data_recast(repo)
  key = '_util.check_input:float-data-not-recast'
  if bad is None:
    rep.unknown(R, key, site(f) if f else '', why)
  elif bad:
    rep.refuted(R, key, site(f), why + ': indicators + preprocessor and '
                'formed data no longer give the same fitted model for '
                'float32 / float16 points')
  else:
    rep.derived(R, key, site(f), sample=dict(rule=R, detail=why))


def check(repo, rep, tier):
  c06.rule_taint(repo, rep, labels=False)
  rule_routing(repo, rep)
  rule_check_preprocessor(repo, rep)
  # the validator as a decision table (shared with C06): indicators are
  # formed through the preprocessor, formed data is returned as validated and
  # the preprocessor is not consulted for it; every other input is rejected
  from . import c06b
  c06b.rule_validation_table(repo, rep)
  rule_formed_precision(repo, rep)
  rule_slot_order(repo, rep)
  rule_indexer_permissive(repo, rep)
  # (error wrapping is decided by R-INTERP:tuple-formation: an exception of
  # the preprocessor at any slot must surface as PreprocessorError)
