"""C12 - LSML: monotone acceptance from the prior, SPD floor, loss and search
direction read the same inputs (stationarity / optimality NOT decided)."""
import ast
from fractions import Fraction
from ..model import FuncInfo, canon
from ..engine import Engine, V, State, NOCONST
from ..tags import TagDomain, EMPTY
from ..algdom import AlgDomain
from ..algebra import UNKNOWN, Poly, SExpr, Vec, Lin, Cmp, A
from .. import astutil, guards
from .common import site
from . import c17


def rule_acceptance(repo, rep):
  R = 'R-GUARD:lsml-never-worse-than-prior'
  rep.rule(R, 's_best starts as the loss at the prior; (M_best, s_best) are '
           'assigned together only under cur_s < s_best; M is replaced only '
           'by a non-None M_best; components_ is built from M')
  f = astutil.inline_helpers(repo, repo.get_func('lsml._BaseLSML._fit'))
  rep.analysed(f)
  stores = [n for n in ast.walk(f.node) if isinstance(n, ast.Assign) and
            ast.unparse(n.targets[0]) == 'self.components_']
  if not stores or not isinstance(stores[-1].value, ast.Call) or \
          not isinstance(stores[-1].value.args[0], ast.Name):
    rep.unknown(R, 'lsml._BaseLSML._fit', site(f), 'final store not found')
    return
  M = stores[-1].value.args[0].id
  mdefs = guards.assignments(f.node, M)
  # the prior
  prior = [n for (n, v) in mdefs if isinstance(n, ast.Assign) and
           isinstance(n.value, ast.Call) and (repo.dotted(
               f.module, n.value.func) or '').endswith(
                   '_initialize_metric_mahalanobis')]
  others = [(n, v) for (n, v) in mdefs if n not in prior]
  best = None
  for (n, v) in others:
    if isinstance(v, ast.Name):
      best = v.id
  if not prior or best is None or len(others) != 1:
    rep.unknown(R, 'lsml._BaseLSML._fit:structure', site(f),
                'prior / best-iterate holder not recognised')
    return
  # M = M_best guarded by "M_best is None: break" before it
  n_assign = others[0][0]
  blk = astutil.parents(f.node).get(n_assign)
  body = getattr(blk, 'body', [])
  guard_ok = False
  for s in body[:body.index(n_assign)] if n_assign in body else []:
    if isinstance(s, ast.If) and astutil.norm_atom(s.test) == \
            '%s is None' % best and any(isinstance(x, (ast.Break, ast.Return))
                                        for x in s.body):
      guard_ok = True
  rep.add(R, 'lsml._BaseLSML._fit:replace-only-by-best',
          'derived' if guard_ok else 'refuted', site(f, n_assign),
          '' if guard_ok else '%s = %s is not protected by "%s is None: '
          'break"' % (M, best, best))
  # best holder assignments
  bdefs = [(n, v) for (n, v) in guards.assignments(f.node, best)]
  sdef_name = None
  for (n, v) in bdefs:
    if isinstance(v, ast.Constant) and v.value is None:
      continue
    conds = guards.path_cmps(f.node, n)
    # find the loss variable pair: cur_s < s_best
    ok = False
    for cnd in conds:
      if isinstance(cnd, Cmp) and cnd.op in ('<', '>') and \
              len(cnd.lin.terms) == 2 and cnd.lin.const == 0:
        names = [k[1] for k in cnd.lin.terms]
        # which one is also assigned in the same block (the best loss)?
        blk2 = astutil.parents(f.node).get(n)
        sib = [(t_, v_.id) for s in getattr(blk2, 'body', [])
               for (t_, v_) in astutil.assign_pairs(s)
               if isinstance(v_, ast.Name)]
        for (t_, vid) in sib:
          if t_ in names and vid in names:
            sb, cur = t_, vid
            want = Cmp(Lin({('n', cur): 1, ('n', sb): -1}), '<')
            if cnd == want:
              ok = True
              sdef_name = sb
            elif cnd == Cmp(Lin({('n', cur): 1, ('n', sb): -1}), '>'):
              rep.refuted(R, 'lsml._BaseLSML._fit:accept-test', site(f, n),
                          'a candidate is kept when its loss is LARGER')
              return
    rep.add(R, 'lsml._BaseLSML._fit:accept-test', 'derived' if ok else
            'unknown', site(f, n), '' if ok else 'acceptance of %s is not '
            'guarded by cur_loss < best_loss (found %s)' % (best, conds))
  if sdef_name:
    first = guards.assignments(f.node, sdef_name)[0]
    v = first[1]
    ok = isinstance(v, ast.Call) and isinstance(v.func, ast.Attribute) and \
        v.func.attr == '_total_loss' and v.args and \
        isinstance(v.args[0], ast.Name) and v.args[0].id == M and \
        first[0].lineno > prior[0].lineno
    rep.add(R, 'lsml._BaseLSML._fit:initial-best-is-prior-loss',
            'derived' if ok else 'refuted', site(f, first[0]),
            '' if ok else '%s is initialised with %s, not the loss at the '
            'prior' % (sdef_name, ast.unparse(v) if v else '?'))


def rule_stopping(repo, rep):
  R = 'R-GUARD:lsml-stopping-criteria'
  rep.rule(R, 'the main loop is left early only on the documented criteria: '
           'gradient norm below tol, or no improving step (M_best is None)')
  f0 = astutil.inline_helpers(repo, repo.get_func('lsml._BaseLSML._fit'))
  # roles: the gradient (result of self._gradient), its norm, the metric
  # handed to components_from_metric and the best candidate it is replaced by
  roles = {}
  for n in ast.walk(f0.node):
    if isinstance(n, ast.Assign) and isinstance(n.targets[0], ast.Name) and \
            isinstance(n.value, ast.Call):
      if ast.unparse(n.value.func) == 'self._gradient':
        roles[n.targets[0].id] = 'grad'
  gname = next((k for k, v in roles.items() if v == 'grad'), None)
  for n in ast.walk(f0.node):
    if isinstance(n, ast.Assign) and isinstance(n.targets[0], ast.Name) and \
            isinstance(n.value, ast.Call) and \
            (repo.dotted(f0.module, n.value.func) or '').endswith(
                'linalg.norm') and len(n.value.args) == 1 and \
            ast.unparse(n.value.args[0]) == gname:
      roles[n.targets[0].id] = 'grad_norm'
  st0 = [n for n in ast.walk(f0.node) if isinstance(n, ast.Assign) and
         ast.unparse(n.targets[0]) == 'self.components_']
  if st0 and isinstance(st0[-1].value, ast.Call) and st0[-1].value.args and \
          isinstance(st0[-1].value.args[0], ast.Name):
    Mn = st0[-1].value.args[0].id
    for (n, v) in guards.assignments(f0.node, Mn):
      if isinstance(v, ast.Name):
        roles[v.id] = 'M_best'
  f = astutil.role_view(f0, roles)
  if f is None:
    rep.unknown(R, 'lsml._BaseLSML._fit', site(f0), 'roles %s cannot be given '
                'canonical names' % roles)
    return
  loops = [n for n in ast.walk(f.node) if isinstance(n, ast.For) and
           'max_iter' in ast.unparse(n.iter)]
  if len(loops) != 1:
    rep.unknown(R, 'lsml._BaseLSML._fit', site(f), 'main loop not found')
    return
  main = loops[0]
  inner = [n for n in ast.walk(main) if isinstance(n, (ast.For, ast.While))
           and n is not main]
  for b in ast.walk(main):
    if not isinstance(b, (ast.Break, ast.Return)):
      continue
    if any(b in list(ast.walk(i)) for i in inner):
      continue
    conds = astutil.path_condition(main, b)
    allowed = {'grad_norm < self.tol', 'M_best is None',
               'self.tol > grad_norm', 'grad_norm <= self.tol'}
    def _no_improving_step(cond_txt):
      """another spelling of "no candidate improved on the best loss": the
      condition, with its temporaries unfolded, is about the comparison of
      candidate losses with the best loss so far (or about M_best)"""
      try:
        e = ast.parse(cond_txt, mode='eval').body
      except SyntaxError:
        return False
      blk = main.body
      top = b
      pm2 = astutil.parents(main)
      while top not in blk and top in pm2:
        top = pm2[top]
      un = astutil.unfold(e, blk, top) if top in blk else e
      names = set(x.id for x in ast.walk(un) if isinstance(x, ast.Name))
      return bool(names & {'M_best', 's_best'}) and any(
          isinstance(x, ast.Compare) for x in ast.walk(un)) or \
          'M_best' in names
    if conds and set(conds) <= allowed:
      rep.derived(R, 'lsml._BaseLSML._fit:exit(%s)' % ','.join(conds),
                  site(f, b))
    elif conds and all(c_ in allowed or _no_improving_step(c_)
                       for c_ in conds):
      rep.derived(R, 'lsml._BaseLSML._fit:exit(no improving step)',
                  site(f, b))
    else:
      rep.refuted(R, 'lsml._BaseLSML._fit:exit(%s)' % ','.join(conds),
                  site(f, b), 'the solver also stops under %s: the result '
                  'need not be stationary' % conds)


def _linear_in(e, name):
  """(coefficient of self.<name>, constant) of an integer expression, or None"""
  if isinstance(e, ast.Constant) and isinstance(e.value, int) and \
          not isinstance(e.value, bool):
    return (0, e.value)
  if ast.unparse(e) in ('self.' + name, name):
    return (1, 0)
  if isinstance(e, ast.BinOp) and isinstance(e.op, (ast.Add, ast.Sub)):
    a, b = _linear_in(e.left, name), _linear_in(e.right, name)
    if a is None or b is None:
      return None
    sg = 1 if isinstance(e.op, ast.Add) else -1
    return (a[0] + sg * b[0], a[1] + sg * b[1])
  return None


def rule_n_iter(repo, rep):
  R = 'R-FORM:lsml-n-iter-reports-exhaustion'
  rep.rule(R, '"stopped before max_iter" is read off n_iter_: when the main '
           'loop runs out without a break, the stored n_iter_ equals max_iter '
           '(loop variable at exhaustion plus the offset of the store), so '
           'n_iter_ < max_iter only after a stopping criterion fired')
  f = repo.get_func('lsml._BaseLSML._fit')
  key = 'lsml._BaseLSML._fit:n_iter_'
  if f is None:
    rep.unknown(R, key, '', 'function vanished')
    return
  stores = [n for n in ast.walk(f.node) if isinstance(n, ast.Assign) and
            ast.unparse(n.targets[0]) == 'self.n_iter_']
  loops = [n for n in ast.walk(f.node) if isinstance(n, ast.For) and
           'max_iter' in ast.unparse(n.iter)]
  if len(loops) != 1 or not stores:
    rep.unknown(R, key, site(f), 'main loop / store of n_iter_ not found')
    return
  lp = loops[0]
  it = lp.iter
  if not (isinstance(it, ast.Call) and ast.unparse(it.func) == 'range' and
          1 <= len(it.args) <= 2 and isinstance(lp.target, ast.Name)):
    rep.unknown(R, key, site(f, lp), 'loop header %s' % ast.unparse(it))
    return
  stop = _linear_in(it.args[-1], 'max_iter')
  if stop is None or stop[0] != 1:
    rep.unknown(R, key, site(f, lp), 'loop bound %s' % ast.unparse(
        it.args[-1]))
    return
  for st in stores:
    if any(st in list(ast.walk(x)) for x in ast.walk(lp)
           if isinstance(x, (ast.If,))):
      continue            # a store under a condition inside the loop
    v = st.value
    # value in terms of the loop variable
    var = lp.target.id

    def lin_var(e):
      if isinstance(e, ast.Name) and e.id == var:
        return (1, 0)
      if isinstance(e, ast.Constant) and isinstance(e.value, int):
        return (0, e.value)
      if isinstance(e, ast.BinOp) and isinstance(e.op, (ast.Add, ast.Sub)):
        a, b = lin_var(e.left), lin_var(e.right)
        if a is None or b is None:
          return None
        sg = 1 if isinstance(e.op, ast.Add) else -1
        return (a[0] + sg * b[0], a[1] + sg * b[1])
      return None
    lv = lin_var(v)
    if lv is None or lv[0] != 1:
      rep.unknown(R, key, site(f, st), 'n_iter_ = %s' % ast.unparse(v))
      continue
    at_exhaustion = stop[1] - 1 + lv[1]      # offset relative to max_iter
    if at_exhaustion == 0:
      rep.derived(R, key, site(f, st))
    else:
      rep.refuted(R, key, site(f, st), 'when the loop %s runs out, n_iter_ = '
                  '%s is max_iter%+d: an exhausted run reports n_iter_ < '
                  'max_iter, i.e. "stopped early", without being stationary'
                  % (ast.unparse(it), ast.unparse(v), at_exhaustion))


def rule_spd_floor(repo, rep):
  R = 'R-FORM:lsml-spd-floor'
  rep.rule(R, 'every candidate metric is V Diag(max(w, eps)) V^T with '
           '(w, V) = eigh(step result) and eps > 0')
  f = astutil.inline_helpers(repo, repo.get_func('lsml._BaseLSML._fit'))
  # evaluate the two statements symbolically
  # np.clip(x, c, None) is np.maximum(x, c): one spelling for the evaluator
  import copy as _copy

  class _Clip(ast.NodeTransformer):
    def visit_Call(self, node):
      self.generic_visit(node)
      if canon(repo.dotted(f.module, node.func) or '') == \
              canon('numpy.clip') and len(node.args) == 3 and \
              isinstance(node.args[2], ast.Constant) and \
              node.args[2].value is None and not node.keywords:
        new = ast.Call(func=ast.Attribute(value=ast.Name('np', ast.Load()),
                                          attr='maximum', ctx=ast.Load()),
                       args=node.args[:2], keywords=[])
        return ast.copy_location(new, node)
      return node
  fn2 = _copy.deepcopy(f.node)
  _Clip().visit(fn2)
  ast.fix_missing_locations(fn2)
  f = astutil._clone_func(f, fn2)
  cands = [n for n in ast.walk(f.node) if isinstance(n, ast.Assign) and
           isinstance(n.targets[0], ast.Name) and
           'maximum' in ast.unparse(n.value)]
  if not cands:
    rep.unknown(R, 'lsml._BaseLSML._fit', site(f), 'eigenvalue floor not '
                'found')
    return
  for n in cands:
    hyp = [a for c_ in ast.walk(n.value) if isinstance(c_, ast.Call) and
           'maximum' in ast.unparse(c_.func) for a in c_.args
           if isinstance(a, ast.Attribute) and isinstance(a.value, ast.Name)
           and a.value.id == 'self']
    if hyp:
      rep.refuted(R, 'lsml._BaseLSML._fit', site(f, n), 'the eigenvalue '
                  'floor is %s, not a fixed small constant: the set of '
                  'candidate metrics then moves with that setting and the '
                  'iterates stall on its boundary' % ast.unparse(hyp[0]))
      continue
    Poly.ORTHO.clear()
    dom = AlgDomain()
    eng = Engine(repo, dom)
    st = State({}, dom.aux_init())
    wv = dom.x_scipy_linalg_eigh([V(Poly.sym('S', 'mat', symmetric=True))],
                                 {}, n, st)
    names = {}
    # the eigh unpacking statement preceding n
    blk = astutil.parents(f.node).get(n)
    body = getattr(blk, 'body', [])
    prev = body[body.index(n) - 1] if n in body and body.index(n) > 0 \
        else None
    if not (isinstance(prev, ast.Assign) and
            isinstance(prev.targets[0], ast.Tuple) and
            len(prev.targets[0].elts) == 2 and
            'eigh' in ast.unparse(prev.value)):
      rep.unknown(R, 'lsml._BaseLSML._fit', site(f, n), 'eigh statement not '
                  'adjacent')
      continue
    wn, vn = [e.id for e in prev.targets[0].elts]
    st.vars[wn], st.vars[vn] = wv.elts
    fake = f
    eng.stack.append(f)
    val = eng.eval(n.value, st, f)
    eng.stack.pop()
    Vp = Poly({(A('V(S)', 'mat'),): Fraction(1)}, 'mat')
    d = val.d
    ok = False
    eps = None
    if isinstance(d, Poly) and len(d.terms) == 1:
      (m, c), = d.terms.items()
      if len(m) == 3 and m[0] == A('V(S)', 'mat') and \
              m[2] == ('s', 'V(S)', True, 'mat', False) and \
              m[1][0] == 'diag' and c == 1:
        fac = dict(m[1][1][2])
        if len(fac) == 1:
          (b, e), = fac.items()
          if b[0] == 'maxc' and e == 1 and b[2] > 0:
            ok, eps = True, b[2]
          if b[0] == 'max0':
            eps = 0
    if ok:
      rep.derived(R, 'lsml._BaseLSML._fit', site(f, n),
                  sample=dict(rule=R, form=repr(d)))
    elif d is UNKNOWN:
      rep.unknown(R, 'lsml._BaseLSML._fit', site(f, n), 'form not derivable')
    else:
      rep.refuted(R, 'lsml._BaseLSML._fit', site(f, n), 'candidate metric is '
                  '%r: not V Diag(max(w, eps>0)) V^T' % (d,))


class DepDomain(TagDomain):
  def param(self, func, name, index):
    return frozenset([('in', name)])

  def fitted_read(self, cls, name, node, st):
    return frozenset([('in', 'self.' + name)])

  def hyperparam(self, cls, name, node):
    return frozenset([('in', 'self.' + name)])


def deps_of(repo, key, cls=None):
  f = repo.get_func(key)
  dom = DepDomain()
  eng = Engine(repo, dom, self_cls=cls or f.cls)
  flow = eng.run(f)
  out = set()
  for (v, st, n) in flow.returns:
    out |= set(t[1] for t in dom._u(v) if t[0] == 'in')
  return f, out


def rule_loss_gradient_inputs(repo, rep):
  R = 'R-SIB:loss-and-direction-read-same-inputs'
  rep.rule(R, 'the search direction (_gradient) depends on every input the '
           'acceptance loss (_total_loss / _comparison_loss) depends on '
           '(metric, both difference sets, the inverse prior and the '
           'constraint weights w_): each enters its loss multiplicatively')
  fl, dl = deps_of(repo, 'lsml._BaseLSML._total_loss')
  fg, dg = deps_of(repo, 'lsml._BaseLSML._gradient')
  rep.analysed(fl)
  rep.analysed(fg)
  missing = sorted(dl - dg)
  if missing:
    rep.refuted(R, 'lsml._BaseLSML._gradient:reads-missing:' +
                ','.join(missing), site(fg), '_gradient never reads %s '
                'although the loss it differentiates does' % missing)
  else:
    rep.derived(R, 'lsml._BaseLSML._gradient', site(fg),
                sample=dict(rule=R, loss_inputs=sorted(dl),
                            gradient_inputs=sorted(dg)))
  rep.floor('inputs of the LSML loss', len(dl), 5)
  # same cross-check for MMC's value / derivative pairs
  for a, b in (('mmc._BaseMMC._fD', 'mmc._BaseMMC._fD1'),
               ('mmc._BaseMMC._D_objective', 'mmc._BaseMMC._D_constraint')):
    fa, da = deps_of(repo, a)
    fb, db = deps_of(repo, b)
    miss = sorted(da - db)
    if miss:
      rep.refuted(R, b + ':reads-missing:' + ','.join(miss), site(fb),
                  '%s never reads %s although %s does' % (b, miss, a))
    else:
      rep.derived(R, b, site(fb))


# ------------------------------------------- loss / gradient formula rule
from ..ratfunc import Rat, LinM, eval_expr


def rule_formulas(repo, rep):
  R = 'R-FORM:lsml-loss-and-gradient'
  rep.rule(R, 'the per-constraint loss is w (sqrt(d_ab) - sqrt(d_cd))^2 on '
           'violated constraints (d_ab > d_cd), the regulariser is '
           'tr(M M0^-1) - logdet M, and the coefficients of v_ab v_ab^T and '
           'v_cd v_cd^T in _gradient are the derivatives of that loss term '
           'with respect to d_ab and d_cd (derived symbolically), plus '
           'M0^-1 - M^-1')
  fl0 = astutil.inline_helpers(repo, repo.get_func('lsml._BaseLSML._comparison_loss'))
  fg0 = astutil.inline_helpers(repo, repo.get_func('lsml._BaseLSML._gradient'))
  ft = astutil.inline_helpers(repo, repo.get_func('lsml._BaseLSML._total_loss'))

  def mask_roles(fn, left, right):
    # the distances take their role from the difference vectors they are
    # computed from (parameters vab / vcd), the mask from being a comparison
    # of the two
    r = {}
    for n in ast.walk(fn.node):
      if isinstance(n, ast.Assign) and isinstance(n.targets[0], ast.Name):
        nm = set(x.id for x in ast.walk(n.value) if isinstance(x, ast.Name))
        if 'vab' in nm and 'vcd' not in nm and 'metric' in nm:
          r[n.targets[0].id] = left
        elif 'vcd' in nm and 'vab' not in nm and 'metric' in nm:
          r[n.targets[0].id] = right
    for n in ast.walk(fn.node):
      if isinstance(n, ast.Assign) and isinstance(n.targets[0], ast.Name) and \
              isinstance(n.value, ast.Compare) and len(n.value.ops) == 1 and \
              isinstance(n.value.left, ast.Name) and \
              isinstance(n.value.comparators[0], ast.Name) and \
              {n.value.left.id, n.value.comparators[0].id} <= set(r):
        r[n.targets[0].id] = 'violations'
    return r
  rl = mask_roles(fl0, 'dab', 'dcd')
  rg = mask_roles(fg0, 'dabs', 'dcds')
  # loop variables of the zip: named after the sequence they run over
  inv = {v: k for k, v in rg.items()}
  for n in ast.walk(fg0.node):
    if isinstance(n, ast.For) and isinstance(n.target, ast.Tuple) and \
            isinstance(n.iter, ast.Call) and \
            isinstance(n.iter.func, ast.Name) and n.iter.func.id == 'zip':
      for t, a in zip(n.target.elts, n.iter.args):
        base = a.value if isinstance(a, ast.Subscript) else a
        bt = ast.unparse(base)
        if isinstance(t, ast.Name):
          if bt == inv.get('dabs'):
            rg[t.id] = 'dab'
          elif bt == inv.get('dcds'):
            rg[t.id] = 'dcd'
          elif bt == 'self.w_':
            rg[t.id] = 'w'
  retg = [r for r in ast.walk(fg0.node) if isinstance(r, ast.Return)]
  if retg and isinstance(retg[-1].value, ast.Name):
    rg[retg[-1].value.id] = 'dMetric'
  fl = astutil.role_view(fl0, rl)
  fg = astutil.role_view(fg0, rg)
  if fl is None or fg is None:
    rep.unknown(R, 'lsml._BaseLSML._gradient', site(fg0), 'roles cannot be '
                'given canonical names (%s / %s)' % (rl, rg))
    return
  sa, sc = Rat.sym('sa'), Rat.sym('sc')
  env = {'dab[violations]': sa * sa, 'dcd[violations]': sc * sc,
         'dab': sa * sa, 'dcd': sc * sc}
  # loss term
  ret = [r for r in ast.walk(fl.node) if isinstance(r, ast.Return)]
  term = None
  wexpr = None
  if ret:
    # temporaries of the loss (residuals, weights, ...) are unfolded; the
    # distances and the mask keep their role names
    rv = astutil.unfold(ret[0].value, fl.node.body, ret[0],
                        stop=('dab', 'dcd', 'violations'))
    if isinstance(rv, ast.Call) and isinstance(rv.func, ast.Attribute) and \
            rv.func.attr == 'dot' and len(rv.args) == 1:
      a_, b_ = rv.func.value, rv.args[0]
      if 'self.w_' in ast.unparse(b_) and 'self.w_' not in ast.unparse(a_):
        a_, b_ = b_, a_
      wexpr = ast.unparse(a_)
      term = eval_expr(b_, {}, {}, env)
    elif isinstance(rv, ast.Call) and \
            canon(repo.dotted(fl.module, rv.func) or '') == \
            canon('numpy.sum') and len(rv.args) == 1 and \
            isinstance(rv.args[0], ast.BinOp) and \
            isinstance(rv.args[0].op, ast.Mult):
      a_, b_ = rv.args[0].left, rv.args[0].right
      if 'self.w_' in ast.unparse(b_) and 'self.w_' not in ast.unparse(a_):
        a_, b_ = b_, a_
      wexpr = ast.unparse(a_)
      term = eval_expr(b_, {}, {}, env)
  want_term = (sa - sc) * (sa - sc)
  if term is None:
    rep.unknown(R, 'lsml._BaseLSML._comparison_loss', site(fl), 'loss term '
                'not derivable')
    return
  ok = term == want_term and wexpr == 'self.w_[violations]'
  rep.add(R, 'lsml._BaseLSML._comparison_loss:term', 'derived' if ok else
          'refuted', site(fl, ret[0]), '' if ok else 'loss term is %s . %r, '
          'documented w . (sqrt(dab) - sqrt(dcd))^2' % (wexpr, term),
          sample=dict(rule=R, loss_term=repr(term), weights=wexpr))
  vio = [v for (n, v) in guards.assignments(fl.node, 'violations')
         if v is not None]
  # ties contribute a vanishing term: >= is equivalent to >
  okv = vio and ast.unparse(vio[0]) in ('dab > dcd', 'dcd < dab',
                                        'dab >= dcd', 'dcd <= dab')
  rep.add(R, 'lsml._BaseLSML._comparison_loss:violations', 'derived' if okv
          else 'refuted', site(fl), '' if okv else 'violated constraints are '
          '%s, documented d_ab > d_cd' % (ast.unparse(vio[0]) if vio else None))
  # regulariser
  # roles in _total_loss: (sign, logdet) = slogdet(metric); reg_loss = the
  # local added to the comparison loss in the return
  rt = {}
  for n in ast.walk(ft.node):
    if isinstance(n, ast.Assign) and isinstance(n.targets[0], ast.Tuple) and \
            isinstance(n.value, ast.Call) and \
            (repo.dotted(ft.module, n.value.func) or '').endswith(
                'linalg.slogdet') and len(n.targets[0].elts) == 2 and \
            all(isinstance(e, ast.Name) for e in n.targets[0].elts):
      rt[n.targets[0].elts[0].id] = 'sign'
      rt[n.targets[0].elts[1].id] = 'logdet'
    if isinstance(n, ast.Return) and isinstance(n.value, ast.BinOp) and \
            isinstance(n.value.op, ast.Add):
      for side in (n.value.left, n.value.right):
        if isinstance(side, ast.Name):
          dfn = [v for (m_, v) in guards.assignments(ft.node, side.id)
                 if v is not None]
          if not (dfn and isinstance(dfn[0], ast.Call) and
                  ast.unparse(dfn[0].func) == 'self._comparison_loss'):
            rt[side.id] = 'reg_loss'
  ftv = astutil.role_view(ft, rt)
  if ftv is None:
    rep.unknown(R, 'lsml._BaseLSML._total_loss:regulariser', site(ft),
                'roles %s cannot be given canonical names' % rt)
    return
  ft = ftv
  reg = [v for (n, v) in guards.assignments(ft.node, 'reg_loss')
         if v is not None]
  if not reg:
    # no temporary: the regulariser is the other operand of the returned sum
    for n in ast.walk(ft.node):
      if isinstance(n, ast.Return) and isinstance(n.value, ast.BinOp) and \
              isinstance(n.value.op, ast.Add):
        for side, other in ((n.value.left, n.value.right),
                            (n.value.right, n.value.left)):
          oth = astutil.unfold(other, ft.node.body, n)
          if isinstance(oth, ast.Call) and \
                  ast.unparse(oth.func) == 'self._comparison_loss':
            reg = [side]
  okr = reg and ast.unparse(reg[0]) in (
      'np.sum(metric * prior_inv) - sign * logdet',
      "np.einsum('ij,ij->', metric, prior_inv) - sign * logdet",
      "np.einsum('ij,ij', metric, prior_inv) - sign * logdet",
      "np.einsum('ij,ji->', metric, prior_inv) - sign * logdet",
      'np.sum(prior_inv * metric) - sign * logdet',
      'np.trace(metric.dot(prior_inv)) - sign * logdet',
      'np.trace(metric @ prior_inv) - sign * logdet',
      'np.sum(metric * prior_inv) - logdet')
  rtxt = ast.unparse(reg[0]) if reg else ''
  wrong = 'np.trace(metric * prior_inv)' in rtxt or \
      'np.trace(prior_inv * metric)' in rtxt or \
      'np.sum(metric.dot(prior_inv))' in rtxt
  logofdet = any(isinstance(c_, ast.Call) and
                 ast.unparse(c_.func) in ('np.log', 'math.log', 'numpy.log')
                 and c_.args and isinstance(c_.args[0], ast.Call) and
                 ast.unparse(c_.args[0].func).endswith('linalg.det')
                 for c_ in (ast.walk(reg[0]) if reg else ()))
  if logofdet and not okr:
    rep.refuted(R, 'lsml._BaseLSML._total_loss:regulariser', site(ft),
                'the log-determinant is computed as log(det(M)): the '
                'determinant over- / underflows for moderately large '
                'matrices (det(100 I_160) = inf), the loss at the prior is '
                'then infinite and no step is accepted; slogdet is required')
    wrong = okr = None
  if wrong is not None:
   rep.add(R, 'lsml._BaseLSML._total_loss:regulariser', 'derived' if okr else
          'refuted' if wrong else 'unknown', site(ft),
          '' if okr else ('regulariser %s is not tr(M M0^-1) - logdet M '
                          '(trace of the element-wise product / sum of the '
                          'matrix product)' % rtxt) if wrong else
          'regulariser %s not recognised' % rtxt)
  # gradient
  d0 = [v for (n, v) in guards.assignments(fg.node, 'dMetric')
        if v is not None]
  atoms = {'prior_inv': 'M0inv', 'np.linalg.inv(metric)': 'Minv',
           'np.outer(vab, vab)': 'Vab', 'np.outer(vcd, vcd)': 'Vcd'}
  base = eval_expr(d0[0], {}, atoms) if d0 else None
  wantb = LinM.atom('M0inv') - LinM.atom('Minv')
  rep.add(R, 'lsml._BaseLSML._gradient:regulariser',
          'derived' if base == wantb else
          ('unknown' if base is None else 'refuted'), site(fg),
          '' if base == wantb else 'gradient of the regulariser is %r, '
          'documented M0^-1 - M^-1' % (base,))
  upd = [n for n in ast.walk(fg.node) if isinstance(n, ast.AugAssign) and
         ast.unparse(n.target) == 'dMetric' and isinstance(n.op, ast.Add)]
  if not upd:
    rep.unknown(R, 'lsml._BaseLSML._gradient:terms', site(fg), 'no per-'
                'constraint update found')
    return
  # the loop variable bound to the weights
  loop = [n for n in ast.walk(fg.node) if isinstance(n, ast.For)]
  wname = None
  if loop and isinstance(loop[0].target, ast.Tuple) and \
          isinstance(loop[0].iter, ast.Call):
    for t, a in zip(loop[0].target.elts, loop[0].iter.args):
      if ast.unparse(a) == 'self.w_[violations]':
        wname = ast.unparse(t)
    # all zipped sequences are restricted by the same mask: the k-th element
    # of each belongs to the same constraint
    if isinstance(loop[0].iter.func, ast.Name) and \
            loop[0].iter.func.id == 'zip':
      frames = {}
      top_ = loop[0]
      pm_ = astutil.parents(fg.node)
      while top_ not in fg.node.body and top_ in pm_:
        top_ = pm_[top_]

      mask_names = tuple(
          t_ for n_ in ast.walk(fg.node) if isinstance(n_, ast.Assign)
          for (t_, v_) in astutil.assign_pairs(n_)
          if isinstance(v_, (ast.Compare, ast.BoolOp)) or (
              isinstance(v_, ast.UnaryOp) and
              isinstance(v_.op, (ast.Not, ast.Invert))))

      def restriction(a):
        """the mask by which a zipped sequence is restricted: its own
        subscript, or - for an element-wise expression of restricted arrays
        held in a temporary - the one mask all its array leaves carry;
        '?' when that cannot be told"""
        if isinstance(a, ast.Subscript):
          return ast.unparse(a.slice)
        un = astutil.unfold(a, fg.node.body, top_,
                            stop=tuple(fg.params()) + mask_names) \
            if top_ in fg.node.body else a
        if isinstance(un, ast.Name):
          return None
        masks = set()
        covered = set()
        for x in ast.walk(un):
          if isinstance(x, ast.Subscript) and isinstance(
                  x.slice, (ast.Name, ast.Compare, ast.UnaryOp)):
            masks.add(ast.unparse(x.slice))
            for y in ast.walk(x.value):
              covered.add(id(y))
        leaves = [x for x in ast.walk(un)
                  if isinstance(x, (ast.Name, ast.Attribute)) and
                  id(x) not in covered and
                  ast.unparse(x) not in ('np', 'self') and
                  not ast.unparse(x).startswith('np.') and
                  ast.unparse(x) not in masks and
                  not (isinstance(x, ast.Name) and
                       any(x.id == m_ for m_ in masks))]
        # names that are parts of attribute chains already counted
        leaves = [x for x in leaves if not any(
            isinstance(p_, ast.Attribute) and p_.value is x for p_ in leaves)]
        if len(masks) == 1 and not leaves:
          return next(iter(masks))
        if not masks:
          return None           # no selection anywhere: unrestricted
        return '?'
      undecided = False
      for a in loop[0].iter.args:
        fr = restriction(a)
        if fr == '?':
          undecided = True
        frames.setdefault(fr, []).append(ast.unparse(a))
      if undecided:
        rep.unknown(R, 'lsml._BaseLSML._gradient:alignment',
                    site(fg, loop[0]), 'restriction of %s not derivable'
                    % frames.get('?'))
      elif len(frames) > 1:
        odd = min(frames.items(), key=lambda kv: len(kv[1]))
        rep.refuted(R, 'lsml._BaseLSML._gradient:alignment',
                    site(fg, loop[0]), '%s is iterated %s while the other '
                    'sequences of the zip are restricted by [%s]: the k-th '
                    'violated constraint is paired with the k-th element of '
                    'another selection' % (
                        ', '.join(odd[1]), 'unrestricted' if odd[0] is None
                        else 'restricted by [%s]' % odd[0],
                        [k for k in frames if k != odd[0]][0]))
        if wname is None:
          for t, a in zip(loop[0].target.elts, loop[0].iter.args):
            if ast.unparse(a).startswith('self.w_'):
              wname = ast.unparse(t)
      else:
        rep.derived(R, 'lsml._BaseLSML._gradient:alignment',
                    site(fg, loop[0]))
  scal = {wname: 'w'} if wname else {}
  genv = dict(env)
  gatoms = dict(atoms)
  # loop variables running over the difference vectors (whatever their names)
  if loop and isinstance(loop[0].target, ast.Tuple) and \
          isinstance(loop[0].iter, ast.Call):
    # in the zip form every symbol of the update is bound by the pairing of
    # loop variable and sequence, never by the variable's name
    gatoms = {k: v for k, v in gatoms.items() if not k.startswith('np.outer')}
    genv = {k: v for k, v in genv.items()
            if k not in ('dab', 'dcd', 'dab[violations]', 'dcd[violations]')}
    scal = {}
    for t, a in zip(loop[0].target.elts, loop[0].iter.args):
      base = ast.unparse(a.value if isinstance(a, ast.Subscript) else a)
      if not isinstance(t, ast.Name):
        continue
      if base in ('vab', 'vcd'):
        gatoms['np.outer(%s, %s)' % (t.id, t.id)] = \
            'Vab' if base == 'vab' else 'Vcd'
      elif base == 'dabs':
        genv[t.id] = sa * sa
      elif base == 'dcds':
        genv[t.id] = sc * sc
      elif base == 'self.w_':
        scal[t.id] = 'w'
  uexpr = upd[0].value
  # index form: `for i in np.flatnonzero(<mask>)` (or np.where(...)[0]) with
  # every sequence subscripted by the same i
  if loop and isinstance(loop[0].target, ast.Name):
    iv = loop[0].target.id
    it = loop[0].iter
    src = None
    if isinstance(it, ast.Call) and canon(
            repo.dotted(fg.module, it.func) or '') == \
            canon('numpy.flatnonzero') and len(it.args) == 1:
      src = it.args[0]
    elif isinstance(it, ast.Subscript) and isinstance(it.value, ast.Call) and \
            canon(repo.dotted(fg.module, it.value.func) or '') in (
                canon('numpy.where'), canon('numpy.nonzero')) and \
            ast.unparse(it.slice) == '0' and len(it.value.args) == 1:
      src = it.value.args[0]
    mask_ok = src is not None and (
        ast.unparse(src) in ('violations', 'dcds < dabs', 'dabs > dcds',
                             'dcds <= dabs', 'dabs >= dcds'))
    if mask_ok:
      rep.derived(R, 'lsml._BaseLSML._gradient:alignment', site(fg, loop[0]))
      uexpr = astutil.unfold(upd[0].value, loop[0].body, upd[0],
                             stop=('dabs', 'dcds', 'vab', 'vcd', iv))
      genv.update({'dabs[%s]' % iv: sa * sa, 'dcds[%s]' % iv: sc * sc})
      scal['self.w_[%s]' % iv] = 'w'
      gatoms['np.outer(vab[%s], vab[%s])' % (iv, iv)] = 'Vab'
      gatoms['np.outer(vcd[%s], vcd[%s])' % (iv, iv)] = 'Vcd'
    else:
      rep.unknown(R, 'lsml._BaseLSML._gradient:alignment', site(fg, loop[0]),
                  'loop over %s not recognised as the violated constraints'
                  % ast.unparse(it))
  g = eval_expr(uexpr, scal, gatoms, genv)
  w_ = Rat.sym('w')
  dterm_a = (want_term.diff('sa')) / (Rat.const(2) * sa)
  dterm_c = (want_term.diff('sc')) / (Rat.const(2) * sc)
  wantg = LinM.atom('Vab').scale(w_ * dterm_a) + \
      LinM.atom('Vcd').scale(w_ * dterm_c)
  if g is None or not isinstance(g, LinM):
    rep.unknown(R, 'lsml._BaseLSML._gradient:terms', site(fg, upd[0]),
                'per-constraint gradient not derivable')
  elif g == wantg:
    rep.derived(R, 'lsml._BaseLSML._gradient:terms', site(fg, upd[0]),
                sample=dict(rule=R, gradient_term=repr(g)))
  else:
    rep.refuted(R, 'lsml._BaseLSML._gradient:terms', site(fg, upd[0]),
                'per-constraint gradient is %r, the derivative of the loss '
                'term is %r' % (g, wantg))


def _rowquad_of(e, vname, mname='metric'):
  """is `e` the row-wise quadratic form v M v^T of the rows of `vname`?"""
  t = ast.unparse(e).replace(' ', '')
  v, m = vname, mname
  forms = (
      'np.sum(%s.dot(%s)*%s,axis=1)' % (v, m, v),
      'np.sum(%s*%s.dot(%s),axis=1)' % (v, v, m),
      'np.sum(%s@%s*%s,axis=1)' % (v, m, v),
      '(%s.dot(%s)*%s).sum(axis=1)' % (v, m, v),
      '(%s@%s*%s).sum(axis=1)' % (v, m, v),
      "np.einsum('ij,ij->i',%s.dot(%s),%s)" % (v, m, v),
      "np.einsum('ij,ij->i',%s@%s,%s)" % (v, m, v),
      "np.einsum('ij,jk,ik->i',%s,%s,%s)" % (v, m, v),
      'np.sum(%s.dot(%s)*%s,axis=-1)' % (v, m, v),
      'np.sum(%s@%s*%s,axis=-1)' % (v, m, v),
      'self._squared_distances(%s,%s)' % (m, v))
  return t in forms


def rule_distances(repo, rep):
  R = 'R-FORM:lsml-distances-and-direction'
  rep.rule(R, 'd_ab, d_cd are the row-wise quadratic forms v M v^T of v_ab = '
           'x_a - x_b (slots 0, 1) and v_cd = x_c - x_d (slots 2, 3) of the '
           'quadruplets, in the loss and in the gradient alike; the gradient '
           'runs over the constraints with d_ab > d_cd; every candidate of '
           'the line search is M - step * gradient(M) with step >= 0 '
           '(descent, not ascent)')
  key = 'lsml._BaseLSML.'
  for fn, names in (('_comparison_loss', ('dab', 'dcd')),
                    ('_gradient', ('dabs', 'dcds'))):
    f = astutil.inline_helpers(repo, repo.get_func('lsml._BaseLSML.' + fn))
    rep.analysed(getattr(f, 'orig', f))
    defs = {}
    for n in f.node.body:
      if isinstance(n, ast.Assign) and isinstance(n.targets[0], ast.Name):
        defs[n.targets[0].id] = n
    found = {}
    for nm, n in defs.items():
      used = set(x.id for x in ast.walk(n.value) if isinstance(x, ast.Name))
      for v in ('vab', 'vcd'):
        other = 'vcd' if v == 'vab' else 'vab'
        if v in used and other not in used and 'metric' in used:
          found[v] = (nm, n)
    for v in ('vab', 'vcd'):
      k = key + fn + ':d(%s)' % v
      if v not in found:
        rep.unknown(R, k, site(f), 'distance computed from %s not found' % v)
        continue
      nm, n = found[v]
      if _rowquad_of(n.value, v):
        rep.derived(R, k, site(f, n))
      else:
        t = ast.unparse(n.value)
        known_bad = ('/' in t or 'axis=0' in t)
        rep.add(R, k, 'refuted' if known_bad else 'unknown', site(f, n),
                '%s = %s is not the row-wise quadratic form of %s with the '
                'metric' % (nm, t, v))
    # mask of the gradient
    if fn == '_gradient' and 'vab' in found and 'vcd' in found:
      a, b = found['vab'][0], found['vcd'][0]
      masks = [n for n in ast.walk(f.node) if isinstance(n, ast.Compare) and
               len(n.ops) == 1 and
               {ast.unparse(n.left), ast.unparse(n.comparators[0])} == {a, b}]
      good = [m for m in masks if astutil.norm_atom(m) in (
          astutil.norm_atom(ast.parse('%s > %s' % (a, b), mode='eval').body),
          astutil.norm_atom(ast.parse('%s >= %s' % (a, b),
                                      mode='eval').body))]
      if not masks:
        rep.unknown(R, key + fn + ':violations', site(f), 'mask not found')
      else:
        rep.add(R, key + fn + ':violations', 'derived' if len(good) ==
                len(masks) else 'refuted', site(f, masks[0]), ''
                if len(good) == len(masks) else 'the gradient runs over the '
                'constraints with %s, documented d_ab > d_cd'
                % ast.unparse(masks[0]))
  # the difference vectors in _fit
  f = astutil.inline_helpers(repo, repo.get_func('lsml._BaseLSML._fit'))
  qn = f.params()[1]
  calls = [c for c in astutil.calls_in(f.node)
           if ast.unparse(c.func) in ('self._gradient', 'self._total_loss')]
  roles = {}
  for c in calls:
    fm = repo.get_func('lsml._BaseLSML.' + c.func.attr).params()[1:]
    for p_, a in zip(fm, c.args):
      if p_ in ('vab', 'vcd') and isinstance(a, ast.Name):
        roles.setdefault(p_, set()).add(a.id)

  def slot(x):
    if not isinstance(x, ast.Subscript) or ast.unparse(x.value) != qn:
      return None
    sl = x.slice.elts if isinstance(x.slice, ast.Tuple) else [x.slice]
    if len(sl) in (2, 3) and isinstance(sl[1], ast.Constant):
      return sl[1].value
    return None
  for p_, want in (('vab', (0, 1)), ('vcd', (2, 3))):
    k = key + '_fit:' + p_
    nms = roles.get(p_, set())
    if len(nms) != 1:
      rep.unknown(R, k, site(f), 'argument for %s not a single local' % p_)
      continue
    dv = [v for (n_, v) in guards.assignments(f.node, next(iter(nms)))
          if v is not None]
    if len(dv) == 1 and isinstance(dv[0], ast.BinOp) and \
            isinstance(dv[0].op, (ast.Sub, ast.Add)):
      got = (slot(dv[0].left), slot(dv[0].right))
      if isinstance(dv[0].op, ast.Sub) and None not in got and \
              sorted(got) == list(want):
        rep.derived(R, k, site(f))
      elif None not in got:
        rep.refuted(R, k, site(f), '%s is %s: documented the difference of '
                    'the points in slots %s of each quadruplet'
                    % (p_, ast.unparse(dv[0]), want))
      else:
        rep.unknown(R, k, site(f), '%s = %s not recognised'
                    % (p_, ast.unparse(dv[0])))
    else:
      rep.unknown(R, k, site(f), 'definition of %s not recognised' % p_)
  # descent direction
  k = key + '_fit:descent'
  grads = set(n.targets[0].id for n in ast.walk(f.node)
              if isinstance(n, ast.Assign) and
              isinstance(n.targets[0], ast.Name) and
              isinstance(n.value, ast.Call) and
              ast.unparse(n.value.func) == 'self._gradient')
  st0 = [n for n in ast.walk(f.node) if isinstance(n, ast.Assign) and
         ast.unparse(n.targets[0]) == 'self.components_']
  Mn = ast.unparse(st0[-1].value.args[0]) if st0 and \
      isinstance(st0[-1].value, ast.Call) and st0[-1].value.args else None
  cands = []
  for n in ast.walk(f.node):
    if isinstance(n, ast.BinOp) and isinstance(n.op, (ast.Sub, ast.Add)) and \
            ast.unparse(n.left) == Mn and \
            any(isinstance(x, ast.Name) and x.id in grads
                for x in ast.walk(n.right)):
      cands.append(n)
  if not cands or not grads:
    rep.unknown(R, k, site(f), 'line-search candidate M -/+ step * gradient '
                'not found')
  for n in cands:
    r_ = n.right
    ok_form = isinstance(r_, ast.BinOp) and isinstance(r_.op, ast.Mult) and \
        any(isinstance(x, ast.Name) and x.id in grads
            for x in (r_.left, r_.right))
    if isinstance(n.op, ast.Add) and ok_form:
      rep.refuted(R, k, site(f, n), 'the candidate is %s: a step ALONG the '
                  'gradient increases the objective' % ast.unparse(n))
    elif ok_form:
      rep.derived(R, k, site(f, n))
    else:
      rep.unknown(R, k, site(f, n), 'candidate %s not recognised'
                  % ast.unparse(n))
  # step sizes are non-negative: np.logspace(...) divided by the gradient norm
  sdefs = [v for (n_, v) in guards.assignments(f.node, 'step_sizes')
           if v is not None]
  if sdefs:
    okp = isinstance(sdefs[0], ast.Call) and canon(
        repo.dotted(f.module, sdefs[0].func) or '') in (
            canon('numpy.logspace'), canon('numpy.geomspace'))
    rep.add(R, key + '_fit:step-sizes', 'derived' if okp else 'unknown',
            site(f), '' if okp else 'step sizes %s not recognised as '
            'positive' % ast.unparse(sdefs[0]))


def rule_all_steps_tried(repo, rep):
  R = 'R-FLOW:lsml-every-step-size-evaluated'
  rep.rule(R, 'the step-size search evaluates the loss for every candidate '
           'step of the iteration (the loop that calls the total loss on a '
           'candidate matrix contains no break / continue / return): the '
           'smallest steps change nothing in floating point near a '
           'stationary point, so leaving the loop at the first '
           'non-improving candidate stops the solver early')
  f = astutil.inline_helpers(repo, repo.get_func('lsml._BaseLSML._fit'))
  loops = []
  for n in ast.walk(f.node):
    if isinstance(n, ast.For) and any(
            isinstance(c_, ast.Call) and ast.unparse(c_.func).endswith(
                '_total_loss') for c_ in ast.walk(n)) and not any(
            isinstance(x, ast.For) and x is not n and any(
                isinstance(c_, ast.Call) and ast.unparse(c_.func).endswith(
                    '_total_loss') for c_ in ast.walk(x))
            for x in ast.walk(n)):
      loops.append(n)
  key = 'lsml._BaseLSML._fit:step-search'
  if len(loops) != 1:
    rep.unknown(R, key, site(f), '%d candidate loops' % len(loops))
    return
  lp = loops[0]
  skips = [x for x in ast.walk(lp)
           if isinstance(x, (ast.Break, ast.Continue, ast.Return))]
  if skips:
    rep.refuted(R, key, site(f, skips[0]), 'the search leaves the candidate '
                'loop under %s' % (astutil.path_condition(lp, skips[0]) or
                                   'a condition'))
  else:
    rep.derived(R, key, site(f, lp))


def check(repo, rep, tier):
  rule_acceptance(repo, rep)
  rule_stopping(repo, rep)
  rule_n_iter(repo, rep)
  rule_spd_floor(repo, rep)
  rule_loss_gradient_inputs(repo, rep)
  # loss, regulariser and gradient are decided as values by interpretation
  # (c12b); the older text-matching rule on the same statements
  # (rule_formulas) and the per-function distance / mask checks of
  # rule_distances raised false alarms on helper extraction and are only
  # consulted where the interpretation is undecided
  from . import c12b
  b0 = len(rep.obs)
  c12b.rule_lsml_values(repo, rep)
  decided = all(o['status'] in ('derived', 'refuted') for o in rep.obs[b0:])
  b1 = len(rep.obs)
  if not decided:
    rule_formulas(repo, rep)
  rule_distances(repo, rep)
  if decided:
    rep.obs[b1:] = [o for o in rep.obs[b1:]
                    if not (':d(' in o['construct'] or
                            o['construct'].endswith(':violations'))]
  rule_all_steps_tried(repo, rep)
  # "the prior is returned / the objective is never larger than at the
  # prior" presupposes that the prior handed to the solver is intact
  from . import c20b
  c20b.rule_no_destructive_option(repo, rep)
  # the caller's weights are not modified (FRESH rule of C17, LSML only)
  before = len(rep.obs)
  c17.rule_writes(repo, rep)
  rep.obs[before:] = [o for o in rep.obs[before:]
                      if o['construct'].startswith(('LSML.fit',
                                                    'LSML_Supervised.fit'))]
  rep.floors = [fl for fl in rep.floors if 'in-place' not in fl[0]]


