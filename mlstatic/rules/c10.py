"""C10 - gradient-based learners (control / data-flow clauses only)."""
import ast
from fractions import Fraction
from ..model import FuncInfo, canon
from ..engine import Engine, V, State, NOCONST
from ..tags import TagDomain, EMPTY
from ..algebra import Lin, Cmp
from .. import astutil, guards
from .common import site

MINIMIZE = canon('scipy.optimize.minimize')


def rule_lmnn_acceptance(repo, rep):
  R = 'R-GUARD:lmnn-accepts-only-non-worsening'
  rep.rule(R, 'in LMNN.fit the retry loop is left only on the branch where '
           'objective_next - objective > 0 is false, the rejecting branch '
           'changes nothing but the learning rate, and L / objective are '
           'replaced only by the accepted candidate; the final components_ '
           'is that L, which starts as the initialisation')
  c = repo.get_class('LMNN')
  f = repo.resolve_method(c, 'fit')
  rep.analysed(f)
  loops = [n for n in ast.walk(f.node) if isinstance(n, ast.While) and
           isinstance(n.test, ast.Constant) and n.test.value is True]
  if not loops:
    # a bounded retry loop: besides its breaks it also ends by exhaustion
    cand = [n for n in ast.walk(f.node) if isinstance(n, (ast.For, ast.While))
            and any(isinstance(b, ast.Break) for b in ast.walk(n))
            and any(isinstance(a, (ast.AugAssign, ast.Assign)) and
                    'learn_rate' in ast.unparse(
                        a.target if isinstance(a, ast.AugAssign)
                        else a.targets[0]) for a in ast.walk(n))
            and not any(isinstance(m, (ast.For, ast.While)) and m is not n
                        for m in ast.walk(n))]
    if len(cand) == 1:
      loops = cand
      if cand[0].orelse:
        rep.unknown(R, 'LMNN.fit:exit-by-exhaustion', site(f, cand[0]),
                    'bounded retry loop with an else clause')
      else:
        rep.refuted(R, 'LMNN.fit:exit-by-exhaustion', site(f, cand[0]),
                    'the retry loop `%s` also ends when its bound is '
                    'exhausted: the last candidate is then accepted although '
                    'its objective is larger' % ast.unparse(cand[0]).split(
                        '\n')[0])
  if len(loops) != 1:
    rep.unknown(R, 'LMNN.fit:retry-loop', site(f), '%d retry loops found'
                % len(loops))
    return
  w = loops[0]
  pm = astutil.parents(f.node)
  outer = pm.get(w)
  block = outer.body if w in getattr(outer, 'body', []) else None
  if block is None:
    rep.unknown(R, 'LMNN.fit:retry-loop', site(f, w), 'loop position')
    return
  after = block[block.index(w) + 1:]
  accept = {}
  for s in after:
    if isinstance(s, ast.Assign) and len(s.targets) == 1:
      t, v = s.targets[0], s.value
      if isinstance(t, ast.Name) and isinstance(v, ast.Name):
        accept[t.id] = v.id
      elif isinstance(t, ast.Tuple) and isinstance(v, ast.Tuple) and \
              len(t.elts) == len(v.elts):
        for a, b in zip(t.elts, v.elts):
          if isinstance(a, ast.Name) and isinstance(b, ast.Name):
            accept[a.id] = b.id
  if not accept:
    rep.unknown(R, 'LMNN.fit:acceptance', site(f, w), 'no acceptance '
                'statements after the retry loop')
    return
  # local single definitions inside the loop usable for substitution
  subst = {}
  for n in ast.walk(w):
    if isinstance(n, ast.Assign) and len(n.targets) == 1 and \
            isinstance(n.targets[0], ast.Name):
      subst[n.targets[0].id] = n.value
  breaks = [n for n in ast.walk(w) if isinstance(n, ast.Break)]
  if not breaks:
    rep.refuted(R, 'LMNN.fit:exit', site(f, w), 'retry loop has no exit')
  for b in breaks:
    cmps = guards.path_cmps(w, b, subst)
    verdict, detail = 'unknown', 'exit condition relates no (candidate, '\
        'current) objective pair: %s' % (cmps,)
    for cm in cmps:
      if not isinstance(cm, Cmp):
        continue
      for cur, nxt in accept.items():
        want = Lin({('n', nxt): 1, ('n', cur): -1})
        for op_ok in ('<=', '<'):
          if cm == Cmp(want, op_ok):
            verdict, detail = 'derived', ''
        for op_bad in ('>', '>='):
          if cm == Cmp(want, op_bad):
            verdict, detail = 'refuted', ('the retry loop is left when the '
                                          'candidate objective is LARGER: '
                                          '%r' % (cm,))
    rep.add(R, 'LMNN.fit:exit-condition', verdict, site(f, b), detail,
            sample=dict(rule=R, exit_condition=[repr(x) for x in cmps],
                        acceptance=accept))
    # rejecting branch must not touch accepted variables
    ifs = [p for (p, ch) in astutil.enclosing(w, b, ast.If)]
    if ifs:
      top = ifs[0]
      other = top.orelse if any(b is x for x in ast.walk(
          ast.Module(body=top.body, type_ignores=[]))) else top.body
      touched = set()
      for s in other:
        for n in ast.walk(s):
          if isinstance(n, (ast.Assign, ast.AugAssign)):
            ts = n.targets if isinstance(n, ast.Assign) else [n.target]
            for t in ts:
              for nm in ast.walk(t):
                if isinstance(nm, ast.Name):
                  touched.add(nm.id)
      clash = touched & (set(accept) | set(accept.values()))
      if clash:
        rep.refuted(R, 'LMNN.fit:reject-branch', site(f, top),
                    'the rejecting branch modifies %s' % sorted(clash))
      else:
        rep.derived(R, 'LMNN.fit:reject-branch', site(f, top))
  # the stored transformation
  stores = [n for n in ast.walk(f.node) if isinstance(n, ast.Assign) and
            ast.unparse(n.targets[0]) == 'self.components_']
  final = stores[-1] if stores else None
  if final is None or not isinstance(final.value, ast.Name):
    rep.unknown(R, 'LMNN.fit:result', site(f), 'final store not recognised')
    return
  Lname = final.value.id
  defs = guards.assignments(f.node, Lname)
  ok = True
  detail = ''
  for (node, val) in defs:
    txt = ast.unparse(val) if val is not None else '<aug>'
    inside = any(node is x for x in ast.walk(w))
    if txt == 'self.components_':
      continue
    if val is not None and isinstance(val, ast.Name) and \
            accept.get(Lname) == val.id and not inside:
      continue
    ok, detail = False, '%s is also assigned %s' % (Lname, txt)
  init = [n for n in stores[:-1]
          if isinstance(n.value, ast.Call) and
          (repo.dotted(f.module, n.value.func) or '').endswith(
              '_initialize_components')]
  if not init:
    ok, detail = False, 'initial transformation does not come from ' \
        '_initialize_components'
  rep.add(R, 'LMNN.fit:result-is-init-or-accepted', 'derived' if ok else
          'refuted', site(f, final), detail)


class OptDomain(TagDomain):
  def __init__(self):
    super().__init__()
    self.min_calls = []
    self.stored = []

  def flow(self, tags):
    return EMPTY

  def summary(self, target, args, kwargs, node, st):
    if target.name == '_initialize_components':
      return V(frozenset(['init']))
    if target.name == '_prepare_inputs' and target.cls is not None:
      return V(EMPTY, elts=(V(frozenset(['data:X']), origin=('prep', 'X')),
                            V(frozenset(['data:y']), origin=('prep', 'y'))))
    return None

  def method_call(self, recv, name, args, kwargs, node, st, eng):
    if name in ('ravel', 'flatten', 'reshape', 'copy'):
      return recv.d or EMPTY
    if name == 'astype' and recv.origin and recv.origin[0] == 'prep':
      # a cast to a floating dtype keeps the numbers (the validated data are
      # floating point: c06b.validated_dtype; labels are exact in float64)
      t = args[0] if args else kwargs.get('dtype')
      floatish = t is not None and (
          (t.fn and t.fn[0] == 'ext' and t.fn[1] in (
              'builtins.float', 'numpy.float64')) or
          t.const() in ('float', 'float64') or
          (t.origin == ('dtype-of-prep',) and self._data_float()))
      if floatish:
        return recv
    return EMPTY

  def _data_float(self):
    if getattr(self, '_df', None) is None:
      from . import c06b
      self._df = c06b.validated_dtype(self.eng.repo)[0] == 'float'
    return self._df

  def attr(self, v, name, node, st):
    if name == 'x':
      return v.d or EMPTY
    if name == 'dtype' and v.origin and v.origin[0] == 'prep':
      return V(EMPTY, origin=('dtype-of-prep',))
    return EMPTY

  def ext_call(self, dotted, args, kwargs, node, st, eng):
    if dotted == MINIMIZE:
      x0 = kwargs.get('x0') or (args[1] if len(args) > 1 else None)
      self.min_calls.append((x0.d if x0 is not None else None,
                             self.site(node), kwargs, args))
      return frozenset(['optres'])
    return EMPTY

  def on_store_attr(self, objv, attr, val, node, st):
    super().on_store_attr(objv, attr, val, node, st)
    if attr == 'components_' and objv.obj is not None:
      self.stored.append((val.d or EMPTY, self.site(node)))


def rule_optimizer_handoff(repo, rep):
  R = 'R-FLOW:optimizer-starts-at-init'
  rep.rule(R, 'NCA / MLKR hand x0 = <initial transformation>.ravel() to '
           'scipy.optimize.minimize and store the reshaped result.x (the '
           'zero-iterations clause itself is decided by '
           'R-API:zero-iterations-return-x0)')
  Rs = 'R-SIB:value-and-gradient-same-sign'
  rep.rule(Rs, 'the callback passed with jac=True returns (value, gradient) '
           'carrying the same sign factor; for NCA the factor is bound to a '
           'negative literal (a maximised objective minimised through its '
           'negation)')
  for cname in ('NCA', 'MLKR'):
    c = repo.get_class(cname)
    f = repo.resolve_method(c, 'fit')
    rep.analysed(f)
    dom = OptDomain()
    Engine(repo, dom, self_cls=c).run(f)
    key = cname + '.fit'
    if len(dom.min_calls) < 1:
      rep.unknown(R, key, site(f), 'no call to scipy.optimize.minimize')
      continue
    for (x0, s, kwargs, args) in dom.min_calls:
      if cname == 'MLKR':
        Rd = 'R-FLOW:objective-sees-validated-data'
        rep.rule(Rd, 'the (X, y) handed to the MLKR objective are the very '
                 'arrays returned by _prepare_inputs (no cast, no copy with '
                 'another dtype)')
        at = kwargs.get('args') or (args[2] if len(args) > 2 else None)
        origins = [e.origin for e in at.elts] if at is not None and \
            at.elts is not None else None
        if origins == [('prep', 'X'), ('prep', 'y')]:
          rep.derived(Rd, key, s)
        elif origins is None:
          rep.unknown(Rd, key, s, 'objective arguments not recognised')
        else:
          rep.refuted(Rd, key, s, 'the objective does not receive the '
                      'validated (X, y) themselves (a derived / cast copy is '
                      'passed)')
      if x0 is not None and 'init' in x0:
        rep.derived(R, key + ':x0', s)
      else:
        rep.refuted(R, key + ':x0', s, 'x0 is not the (ravelled) result of '
                    '_initialize_components')
      jac = kwargs.get('jac')
      fun = kwargs.get('fun') or (args[0] if args else None)
      if jac is None or jac.const() is not True or fun is None or \
              fun.fn is None:
        rep.unknown(Rs, key, s, 'callback / jac=True not recognised')
        continue
      cb = fun.fn[1]
      rep.analysed(cb)
      rets = [r for r in ast.walk(cb.node) if isinstance(r, ast.Return)]
      params = set(cb.params())
      for r in rets:
        if not (isinstance(r.value, ast.Tuple) and len(r.value.elts) == 2):
          rep.refuted(Rs, '%s:%s' % (key, cb.name), site(cb, r),
                      'callback does not return a (value, gradient) pair')
          continue

        def factors(e):
          out = set()
          if isinstance(e, ast.BinOp) and isinstance(e.op, ast.Mult):
            out |= factors(e.left) | factors(e.right)
          elif isinstance(e, ast.UnaryOp) and isinstance(e.op, ast.USub):
            out |= {'-'} | factors(e.operand)
          elif isinstance(e, ast.Name) and e.id in params:
            out.add(e.id)
          return out
        fa, fb = factors(r.value.elts[0]), factors(r.value.elts[1])
        if fa == fb:
          rep.derived(Rs, '%s:%s' % (key, cb.name), site(cb, r),
                      sample=dict(rule=Rs, callback=cb.key,
                                  sign_factors=sorted(fa)))
        else:
          rep.refuted(Rs, '%s:%s' % (key, cb.name), site(cb, r),
                      'value carries factors %s but the gradient %s'
                      % (sorted(fa), sorted(fb)))
        if fa - {'-'}:
          # bound value of the sign parameter at the call site
          argt = kwargs.get('args') or (args[2] if len(args) > 2 else None)
          ps = cb.params()[2:] if cb.cls is not None else cb.params()[1:]
          for name in fa - {'-'}:
            val = None
            if argt is not None and argt.elts is not None and name in ps and \
                    ps.index(name) < len(argt.elts):
              val = argt.elts[ps.index(name)].const()
            if val is NOCONST or val is None:
              rep.unknown(Rs, '%s:%s-binding' % (key, name), s,
                          'value bound to %s not a literal' % name)
            elif val < 0:
              rep.derived(Rs, '%s:%s-binding' % (key, name), s)
            else:
              rep.refuted(Rs, '%s:%s-binding' % (key, name), s,
                          '%s is bound to %r: the maximised objective is not '
                          'negated for the minimiser' % (name, val))
    if dom.stored and all('optres' in t for (t, s) in dom.stored[-1:]):
      rep.derived(R, key + ':result', dom.stored[-1][1])
    else:
      rep.refuted(R, key + ':result', site(f), 'components_ is not the '
                  'reshaped optimiser result')


class ExclDomain(TagDomain):
  def __init__(self):
    super().__init__()
    self.uses = []

  def flow(self, tags):
    return frozenset(t for t in tags if t in ('dist', 'negdist'))

  def unop(self, op, v, node, st):
    # the negated distances: excluded from the soft-max by -inf
    d = v.d or EMPTY
    if isinstance(op, ast.USub):
      return frozenset({'dist': 'negdist', 'negdist': 'dist'}.get(t, t)
                       for t in d if t in ('dist', 'negdist'))
    return self.flow(d)

  def ext_call(self, dotted, args, kwargs, node, st, eng):
    if dotted in (canon('sklearn.metrics.pairwise_distances'),
                  canon('sklearn.metrics.euclidean_distances')):
      return frozenset(['dist'])
    if dotted == canon('numpy.negative') and args:
      return self.unop(ast.USub(), args[0], node, st)
    if dotted == canon('numpy.fill_diagonal') and len(args) >= 2:
      fill = ast.unparse(node.args[1])
      pos = fill in ('np.inf', 'numpy.inf', "float('inf')", 'inf')
      neg = fill in ('-np.inf', '-numpy.inf', "-float('inf')", '-inf',
                     "float('-inf')", 'np.NINF', '-np.Inf')
      tags = args[0].d or ()
      if ('dist' in tags and 'negdist' not in tags and pos) or \
              ('negdist' in tags and 'dist' not in tags and neg):
        self.event(st, ('self-excluded',))
      return EMPTY
    if dotted in (canon('scipy.special.logsumexp'), canon('numpy.exp'),
                  canon('scipy.special.softmax')):
      if any(('dist' in (a.d or ())) or ('negdist' in (a.d or ()))
             for a in args):
        self.uses.append((('self-excluded',) in self.must(st),
                          self.site(node)))
    return super().ext_call(dotted, args, kwargs, node, st, eng)


def rule_stable_softmax(repo, rep):
  R = 'R-FORM:stable-softmax'
  rep.rule(R, 'the soft-max over the self-excluded squared distances is '
           'exp(-d - logsumexp(-d, axis=1)[:, None]) (or an equivalent '
           'max-shifted form computed after the self-exclusion): a naive '
           'exp(-d) / sum underflows to 0/0 for large-scale features, and '
           'fit then fails or returns non-finite components')
  for key in ('nca.NCA._loss_grad_lbfgs', 'mlkr.MLKR._loss'):
    f = astutil.inline_helpers(repo, repo.get_func(key))
    exps = [c for c in astutil.calls_in(f.node)
            if canon(repo.dotted(f.module, c.func) or '') == canon(
                'numpy.exp')]
    if not exps:
      rep.unknown(R, key, site(f), 'no exponential found')
      continue
    for e in exps:
      arg = ast.unparse(e.args[0]) if e.args else ''
      import re
      m = re.match(r'^-\s*(\w+) - logsumexp\(-\s*(\w+), axis=1\)\[:, '
                   r'(np\.newaxis|None)\]$', arg)
      m2 = re.match(r'^(\w+) - logsumexp\((\w+), axis=1\)\[:, '
                    r'(np\.newaxis|None)\]$', arg)
      def _shifted_by_own_lse(a0):
        """x - logsumexp(x, axis=1)[:, None] / ...(x, axis=1, keepdims=True)
        with the same expression x on both sides"""
        if not (isinstance(a0, ast.BinOp) and isinstance(a0.op, ast.Sub)):
          return False
        x, r = a0.left, a0.right
        sub = False
        if isinstance(r, ast.Subscript):
          if ast.unparse(r.slice).replace(' ', '') not in (
                  ':,None', ':,np.newaxis', '(:,None)', '...,None'):
            return False
          r, sub = r.value, True
        if not (isinstance(r, ast.Call) and ast.unparse(r.func).endswith(
                'logsumexp') and r.args):
          return False
        kw = dict((k.arg, ast.unparse(k.value)) for k in r.keywords if k.arg)
        ax = kw.get('axis', ast.unparse(r.args[1]) if len(r.args) > 1
                    else None)
        keep = kw.get('keepdims') == 'True'
        return ast.dump(r.args[0]) == ast.dump(x) and ax in ('1', '-1') and \
            (sub != keep)
      if (m and m.group(1) == m.group(2)) or \
              (m2 and m2.group(1) == m2.group(2)) or \
              (e.args and _shifted_by_own_lse(e.args[0])):
        # exp(x - logsumexp(x)): shift-invariant whatever x is (the sign of
        # x and the self-exclusion are decided by the other rules)
        rep.derived(R, key, site(f, e),
                    sample=dict(rule=R, function=key, softmax=arg))
      elif 'logsumexp' in arg or 'softmax' in arg:
        rep.unknown(R, key, site(f, e), 'soft-max form %s not in the table'
                    % arg)
      else:
        # exp(-d) of the raw distances: refuted only when nothing in the
        # function shifts them (no row minimum / maximum subtracted, no
        # logsumexp / softmax anywhere); other forms are not decided here
        src = ast.unparse(f.node)
        shifted = any(x in src for x in ('logsumexp', 'softmax', '.min(',
                                         '.max(', 'np.min(', 'np.max(',
                                         'np.amin(', 'np.amax('))
        raw = e.args and isinstance(e.args[0], ast.UnaryOp) and \
            isinstance(e.args[0].op, ast.USub) and \
            isinstance(e.args[0].operand, ast.Name)
        # row-minimum shift `d -= d.min(axis=1)[:, None]`: stable exactly when
        # the minimum is taken after the self-exclusion (otherwise it is the
        # zero self-distance and nothing is shifted)
        dname = e.args[0].operand.id if raw else None
        shifts = [n for n in ast.walk(f.node) if isinstance(n, ast.AugAssign)
                  and isinstance(n.op, ast.Sub) and dname and
                  ast.unparse(n.target) == dname and
                  ('%s.min(axis=1)' % dname in ast.unparse(n.value) or
                   'np.min(%s, axis=1)' % dname in ast.unparse(n.value))]
        fills = [c for c in astutil.calls_in(f.node)
                 if canon(repo.dotted(f.module, c.func) or '') ==
                 canon('numpy.fill_diagonal') and c.args and
                 ast.unparse(c.args[0]) == dname]
        # any other definition of the exponentiated array that subtracts a
        # row statistic of itself (d = d - d.min(...), d - np.max(...), ...)
        other_shift = False
        if dname:
          for n in ast.walk(f.node):
            if isinstance(n, (ast.Assign, ast.AugAssign)) and \
                    n.lineno < e.lineno:
              tgt = n.target if isinstance(n, ast.AugAssign) else n.targets[0]
              if ast.unparse(tgt) == dname and any(
                      isinstance(c_, ast.Call) and (
                          (isinstance(c_.func, ast.Attribute) and
                           c_.func.attr in ('min', 'max', 'amin', 'amax')) or
                          ast.unparse(c_.func).endswith(('logsumexp',
                                                         'softmax')))
                      for c_ in ast.walk(n.value)):
                other_shift = True
        if raw and not shifts and not other_shift:
          rep.refuted(R, key, site(f, e), 'soft-max computed as exp(%s) of '
                      'the unshifted distances (no row minimum / logsumexp '
                      'is subtracted from %s): every term of a row underflows '
                      'to 0 once its smallest distance exceeds ~745, the '
                      'normalised weights are then 0/0 (or 0/EPS) instead of '
                      'the soft-max' % (arg, dname))
        elif raw and shifts and fills and 'logsumexp' not in src and \
                'softmax' not in src:
          if all(sh.lineno > fills[0].lineno for sh in shifts) and \
                  all(sh.lineno < e.lineno for sh in shifts):
            rep.derived(R, key, site(f, e),
                        sample=dict(rule=R, function=key,
                                    softmax='row-minimum shift after the '
                                    'self-exclusion'))
          else:
            rep.refuted(R, key, site(f, e), 'the row minimum is subtracted '
                        'before the self-exclusion (np.fill_diagonal): it is '
                        'the zero self-distance, nothing is shifted and '
                        'exp(%s) underflows for large-scale features' % arg)
        else:
          rep.unknown(R, key, site(f, e), 'exponential %s: not the '
                      'documented soft-max form, stability not decided'
                      % arg)


def rule_self_exclusion(repo, rep):
  R = 'R-DOM:point-is-not-its-own-neighbour'
  rep.rule(R, 'in the NCA and MLKR objectives np.fill_diagonal(<pairwise '
           'squared distances>, np.inf) is on every path before the '
           'distances enter the soft-max')
  for key in ('nca.NCA._loss_grad_lbfgs', 'mlkr.MLKR._loss'):
    f = repo.get_func(key)
    rep.analysed(f)
    dom = ExclDomain()
    Engine(repo, dom, self_cls=f.cls).run(f)
    if not dom.uses:
      rep.unknown(R, key, site(f), 'soft-max over distances not found')
    for (ok, s) in dom.uses:
      if ok:
        rep.derived(R, key, s)
      else:
        rep.refuted(R, key, s, 'the pairwise distances reach the soft-max '
                    'on a path without the diagonal set to infinity')


# -------------------------------------------------- LMNN objective weights
from ..ratfunc import Rat, LinM, eval_expr


def rule_lmnn_objective(repo, rep):
  R = 'R-FORM:lmnn-objective-weights'
  rep.rule(R, 'LMNN._loss_grad combines the pull (target-neighbour) term '
           'with weight reg and the push (active impostor) term with weight '
           '1 - reg: with G = reg dfG + (1 - reg) df the returned gradient is '
           '2 L G and the objective (1 - reg) total_active + <L G, L> - '
           'decided in the algebra of matrix words with coefficients rational '
           'in reg, for any use of temporaries')
  from ..ncalg import NC, NCEval
  from ..ratfunc import Rat as _Rat
  f = astutil.inline_helpers(repo, repo.get_func('lmnn.LMNN._loss_grad'))
  rep.analysed(getattr(f, 'orig', f))
  key = 'lmnn.LMNN._loss_grad:'

  def canon_of(e):
    d = repo.dotted(f.module, e)
    return canon(d) if d else None
  ret = [r for r in f.node.body if isinstance(r, ast.Return)]
  if not ret or not isinstance(ret[-1].value, ast.Tuple) or \
          len(ret[-1].value.elts) != 3:
    rep.unknown(R, key + 'return', site(f), 'returned triple not found')
    return
  g_e, o_e, a_e = ret[-1].value.elts
  # the accumulators of the neighbour loop are atoms: the push matrix is the
  # matrix accumulated in the loop, the count of active constraints the
  # scalar accumulated there
  loops = [n for n in f.node.body if isinstance(n, ast.For)]
  acc_m, acc_s = set(), set()
  for lp in loops:
    for n in ast.walk(lp):
      if isinstance(n, ast.AugAssign) and isinstance(n.target, ast.Name):
        txt = ast.unparse(n.value)
        if '_sum_outer_products' in txt or 'outer' in txt or '.T' in txt:
          acc_m.add(n.target.id)
        else:
          acc_s.add(n.target.id)
  if len(acc_m) != 1 or len(acc_s) != 1 or ast.unparse(a_e) not in acc_s:
    rep.unknown(R, key + 'accumulators', site(f), 'push matrix / active '
                'count accumulators not identified (%s / %s)'
                % (sorted(acc_m), sorted(acc_s)))
    return
  push_n, act_n = next(iter(acc_m)), next(iter(acc_s))
  reg, act = _Rat.sym('reg'), _Rat.sym('act')
  one = _Rat.const(1)
  Lm, pull, push = NC.atom('L'), NC.atom('pull'), NC.atom('push')
  ev = NCEval({'L': Lm, 'dfG': pull, push_n: push},
              {'reg': reg, act_n: act}, canon_of)

  def scalar(e):
    """-> [('rat', Rat) | ('inner', NC, NC)] or None"""
    if isinstance(e, ast.Name) and e.id in sc_env:
      return sc_env[e.id]
    if isinstance(e, ast.BinOp) and isinstance(e.op, ast.Add):
      a, b = scalar(e.left), scalar(e.right)
      return None if a is None or b is None else a + b
    v = ev.ev(e)
    if isinstance(v, _Rat):
      return [('rat', v)]
    # <X, Y>: X.ravel().dot(Y.ravel()) / flatten / np.sum(X * Y)
    if isinstance(e, ast.Call) and isinstance(e.func, ast.Attribute) and \
            e.func.attr == 'dot' and len(e.args) == 1:
      def flat(x):
        if isinstance(x, ast.Call) and isinstance(x.func, ast.Attribute) and \
                x.func.attr in ('ravel', 'flatten') and not x.args:
          return ev.ev(x.func.value)
        return None
      a, b = flat(e.func.value), flat(e.args[0])
      if isinstance(a, NC) and isinstance(b, NC):
        return [('inner', a, b)]
    if isinstance(e, ast.Call) and canon_of(e.func) == canon('numpy.sum') and \
            len(e.args) == 1 and isinstance(e.args[0], ast.BinOp) and \
            isinstance(e.args[0].op, ast.Mult):
      a, b = ev.ev(e.args[0].left), ev.ev(e.args[0].right)
      if isinstance(a, NC) and isinstance(b, NC) and a.kind == b.kind == 'mat':
        return [('inner', a, b)]
    return None
  sc_env = {}
  for s_ in f.node.body:
    if isinstance(s_, ast.Assign) and len(s_.targets) == 1 and \
            isinstance(s_.targets[0], ast.Name):
      nm = s_.targets[0].id
      if nm in (push_n, act_n):
        continue
      v = ev.ev(s_.value)
      if isinstance(v, NC):
        ev.mats[nm] = v
        sc_env.pop(nm, None)
      elif isinstance(v, _Rat):
        ev.scalars[nm] = v
        sc_env.pop(nm, None)
      else:
        ev.mats.pop(nm, None)
        sv = scalar(s_.value)
        if sv is not None:
          sc_env[nm] = sv
    elif isinstance(s_, ast.AugAssign) and isinstance(s_.target, ast.Name) \
            and isinstance(s_.op, ast.Add) and s_.target.id in sc_env:
      sv = scalar(s_.value)
      if sv is None:
        sc_env.pop(s_.target.id, None)
      else:
        sc_env[s_.target.id] = sc_env[s_.target.id] + sv
    elif isinstance(s_, ast.AugAssign) and isinstance(s_.target, ast.Name) \
            and isinstance(s_.op, ast.Add):
      # objective = <rat>; objective += <inner>
      base = ev.scalars.get(s_.target.id)
      sv = scalar(s_.value)
      if base is not None and sv is not None:
        sc_env[s_.target.id] = [('rat', base)] + sv
        ev.scalars.pop(s_.target.id, None)
  G = pull.scale(reg).add(push.scale(one - reg))
  LG = Lm.mul(G)
  gv = ev.ev(g_e)
  if not isinstance(gv, NC):
    rep.unknown(R, key + 'gradient', site(f, ret[-1]), 'returned gradient '
                '%s not derivable' % ast.unparse(g_e))
  elif gv == LG.scale(_Rat.const(2)):
    rep.derived(R, key + 'gradient', site(f, ret[-1]),
                sample=dict(rule=R, gradient=repr(gv)))
  else:
    rep.refuted(R, key + 'gradient', site(f, ret[-1]), 'the returned '
                'gradient is %r, documented 2 L (reg dfG + (1 - reg) df) = %r'
                % (gv, LG.scale(_Rat.const(2))))
  ov = scalar(o_e)
  if ov is None:
    rep.unknown(R, key + 'objective', site(f, ret[-1]), 'objective %s not '
                'derivable' % ast.unparse(o_e))
    return
  rat = _Rat.const(0)
  inners = []
  for t_ in ov:
    if t_[0] == 'rat':
      rat = rat + t_[1]
    else:
      inners.append(t_)
  ok_r = rat == act * (one - reg)
  ok_i = len(inners) == 1 and (
      (inners[0][1] == LG and inners[0][2] == Lm) or
      (inners[0][2] == LG and inners[0][1] == Lm))
  if ok_r and ok_i:
    rep.derived(R, key + 'objective', site(f, ret[-1]))
  else:
    rep.refuted(R, key + 'objective', site(f, ret[-1]), 'the objective is '
                '%r + %s, documented (1 - reg) total_active + <L G, L>'
                % (rat, [(repr(a), repr(b)) for (_, a, b) in inners]))


def rule_lmnn_impostor_enumeration(repo, rep):
  """Every unordered pair of differently-labelled points is examined exactly
  once: the classes are visited in order, `in` = the class, `out` = the
  classes after it; rows of the distance block are the out points, columns
  the in points, and each margin is compared along its own axis."""
  R = 'R-FRAME:lmnn-impostor-pairs-once'
  rep.rule(R, 'LMNN._find_impostors visits every pair of differently '
           'labelled points exactly once (in: label == c, out: label > c) '
           'and compares the pair distance with the margin radius of the out '
           'point along the rows and of the in point along the columns; the '
           'returned index pairs are (in_inds[column], out_inds[row])')
  f0 = astutil.inline_helpers(repo, repo.get_func('lmnn.LMNN._find_impostors'))
  rep.analysed(f0)
  roles = {}
  for n_ in ast.walk(f0.node):
    # the list that collects the pairs
    if isinstance(n_, ast.Call) and isinstance(n_.func, ast.Attribute) and \
            n_.func.attr == 'append' and isinstance(n_.func.value, ast.Name) \
            and n_.args and 'vstack' in ast.unparse(n_.args[0]):
      roles[n_.func.value.id] = 'impostors'
  dnames = set(ast.unparse(s_.targets[0]) for s_ in ast.walk(f0.node)
               if isinstance(s_, ast.Assign) and isinstance(s_.value, ast.Call)
               and canon(repo.dotted(f0.module, s_.value.func) or '') ==
               canon('sklearn.metrics.euclidean_distances'))
  rown, coln = set(), set()
  for n_ in ast.walk(f0.node):
    # the margin vector: what the block distances are compared with
    if isinstance(n_, ast.Compare) and ast.unparse(n_.left) in dnames and \
            len(n_.ops) == 1:
      b_ = n_.comparators[0]
      while isinstance(b_, ast.Subscript):
        b_ = b_.value
      if isinstance(b_, ast.Name):
        roles[b_.id] = 'margin_radii'
    # row / column index vectors of the violated entries
    if isinstance(n_, ast.Assign) and isinstance(n_.targets[0], ast.Tuple) \
            and len(n_.targets[0].elts) == 2 and \
            isinstance(n_.value, ast.Call) and \
            canon(repo.dotted(f0.module, n_.value.func) or '') == \
            canon('numpy.nonzero') and n_.value.args and \
            isinstance(n_.value.args[0], ast.Compare) and \
            ast.unparse(n_.value.args[0].left) in dnames:
      a_, b_ = n_.targets[0].elts
      if isinstance(a_, ast.Name) and isinstance(b_, ast.Name):
        rown.add(a_.id)
        coln.add(b_.id)
  for n_ in ast.walk(f0.node):
    if isinstance(n_, ast.Assign) and isinstance(n_.targets[0], ast.Name) and \
            isinstance(n_.value, ast.Call) and \
            canon(repo.dotted(f0.module, n_.value.func) or '') == \
            canon('numpy.hstack'):
      nm = set(x.id for x in ast.walk(n_.value) if isinstance(x, ast.Name)
               and x.id != 'np')
      if nm and nm <= rown:
        roles[n_.targets[0].id] = 'i'
      elif nm and nm <= coln:
        roles[n_.targets[0].id] = 'j'

  f = astutil.role_view(f0, roles)
  if f is None:
    rep.unknown(R, 'LMNN._find_impostors', site(f0), 'roles %s cannot be '
                'given canonical names without conflating variables' % roles)
    return
  loops = [n for n in f.node.body if isinstance(n, ast.For)]
  if len(loops) != 1 or not isinstance(loops[0].target, ast.Name):
    rep.unknown(R, 'LMNN._find_impostors', site(f), 'class loop not found')
    return
  lp = loops[0]
  lab = lp.target.id
  it = ast.unparse(lp.iter)
  sets = {}
  for s_ in lp.body:
    if isinstance(s_, ast.Assign) and isinstance(s_.value, ast.Call) and \
            canon(repo.dotted(f.module, s_.value.func) or '') == \
            canon('numpy.nonzero') and len(s_.value.args) == 1 and \
            isinstance(s_.value.args[0], ast.Compare) and \
            len(s_.value.args[0].ops) == 1:
      c = s_.value.args[0]
      l, r = ast.unparse(c.left), ast.unparse(c.comparators[0])
      op = type(c.ops[0]).__name__
      if l == lab:
        l, r = r, l
        op = {'Gt': 'Lt', 'Lt': 'Gt', 'GtE': 'LtE', 'LtE': 'GtE'}.get(op, op)
      if r == lab and l == 'label_inds':
        tg = s_.targets[0]
        nm = tg.elts[0].id if isinstance(tg, ast.Tuple) and tg.elts and \
            isinstance(tg.elts[0], ast.Name) else None
        if nm:
          sets[nm] = (op, s_)
  ins = [n for n, (op, _) in sets.items() if op == 'Eq']
  outs = [n for n, (op, _) in sets.items() if op != 'Eq']
  key = 'LMNN._find_impostors'
  if len(ins) != 1 or len(outs) != 1:
    rep.unknown(R, key + ':classes', site(f, lp), 'in / out index sets not '
                'recognised: %s' % {k: v[0] for k, v in sets.items()})
    return
  A, B = outs[0], ins[0]
  op, st_ = sets[A]
  full = it in ('self.labels_', 'np.unique(label_inds)')
  if (op == 'Gt' and (it == 'self.labels_[:-1]' or full)) or \
          (op == 'Lt' and (it == 'self.labels_[1:]' or full)):
    rep.derived(R, key + ':classes', site(f, st_))
  elif op == 'NotEq':
    rep.refuted(R, key + ':classes', site(f, st_), 'out set is label != c: '
                'with three or more classes every pair of classes not '
                'involving the last visited one is enumerated twice, its push '
                'terms count double in the objective and the gradient')
  elif op in ('GtE', 'LtE'):
    rep.refuted(R, key + ':classes', site(f, st_), 'out set includes the '
                'class itself: same-class points become impostors')
  elif op in ('Gt', 'Lt'):
    rep.refuted(R, key + ':classes', site(f, st_), 'classes visited: %s with '
                'out = label %s c: some pairs of classes are never examined'
                % (it, '>' if op == 'Gt' else '<'))
  else:
    rep.unknown(R, key + ':classes', site(f, st_), 'operator %s' % op)
  # axes of the distance block
  dcall = [s_ for s_ in lp.body if isinstance(s_, ast.Assign) and
           isinstance(s_.value, ast.Call) and
           canon(repo.dotted(f.module, s_.value.func) or '') ==
           canon('sklearn.metrics.euclidean_distances')]
  if len(dcall) != 1 or len(dcall[0].value.args) < 2:
    rep.unknown(R, key + ':axes', site(f, lp), 'distance block not found')
    return
  rows = ast.unparse(dcall[0].value.args[0])
  cols = ast.unparse(dcall[0].value.args[1])
  dn_ = ast.unparse(dcall[0].targets[0])
  m = {}
  for nm in (A, B):
    for tx in (rows, cols):
      if tx.endswith('[%s]' % nm):
        m['rows' if tx is rows else 'cols'] = nm
  if set(m) != {'rows', 'cols'} or m['rows'] == m['cols']:
    rep.unknown(R, key + ':axes', site(f, dcall[0]), 'rows %s / columns %s'
                % (rows, cols))
    return
  cmps = [n for n in ast.walk(lp) if isinstance(n, ast.Compare) and
          ast.unparse(n.left) == dn_ and len(n.ops) == 1 and
          isinstance(n.ops[0], (ast.Lt, ast.LtE))]
  seen = set()
  bad = None
  n_rec = 0
  for c in cmps:
    rt = ast.unparse(c.comparators[0])
    n_rec += any(rt in ('margin_radii[%s][:, None]' % nm,
                        'margin_radii[%s]' % nm,
                        'margin_radii[%s][None, :]' % nm) for nm in (A, B))
    for nm in (A, B):
      if rt == 'margin_radii[%s][:, None]' % nm:
        seen.add(('rows', nm))
        if m['rows'] != nm:
          bad = (c, 'radius of %s broadcast along the rows, which hold %s'
                 % (nm, m['rows']))
      elif rt == 'margin_radii[%s]' % nm or \
              rt == 'margin_radii[%s][None, :]' % nm:
        seen.add(('cols', nm))
        if m['cols'] != nm:
          bad = (c, 'radius of %s broadcast along the columns, which hold %s'
                 % (nm, m['cols']))
  if bad:
    rep.refuted(R, key + ':axes', site(f, bad[0]), bad[1])
  elif seen == {('rows', m['rows']), ('cols', m['cols'])}:
    rep.derived(R, key + ':axes', site(f, dcall[0]))
  elif n_rec == len(cmps) and cmps:
    miss = sorted({('rows', m['rows']), ('cols', m['cols'])} - seen)
    rep.refuted(R, key + ':axes', site(f, dcall[0]), 'the margin of the '
                'points along the %s (%s) is never tested: their impostors '
                'are missed' % miss[0])
  else:
    rep.unknown(R, key + ':axes', site(f, dcall[0]), 'margin comparisons '
                'found: %s' % sorted(seen))
  # returned pairs
  app = [n for n in ast.walk(lp) if isinstance(n, ast.Call) and
         ast.unparse(n.func) == 'impostors.append' and n.args]
  if len(app) == 1:
    t = ast.unparse(app[0].args[0])
    good = ('np.vstack((%s[j], %s[i]))' % (m['cols'], m['rows']),
            'np.vstack((%s[i], %s[j]))' % (m['rows'], m['cols']))
    if t in good:
      rep.derived(R, key + ':pairs', site(f, app[0]))
    elif t in ('np.vstack((%s[i], %s[j]))' % (m['cols'], m['rows']),
               'np.vstack((%s[j], %s[i]))' % (m['rows'], m['cols'])):
      rep.refuted(R, key + ':pairs', site(f, app[0]), 'row index used on the '
                  'column set and conversely: %s' % t)
    else:
      rep.unknown(R, key + ':pairs', site(f, app[0]), t)
  else:
    rep.unknown(R, key + ':pairs', site(f, lp), 'append not found')


class _Soft:
  """Sequential interpretation of an NCA / MLKR value-and-gradient function
  in the entry-wise algebra (ewalg).  Raises _SoftUnknown on anything outside
  the interpreted forms."""

  def __init__(self, repo, f, atoms):
    from .. import ewalg
    self.ew = ewalg
    self.repo, self.f = repo, f
    self.env = dict(atoms)
    self.diag = {}            # name of a matrix -> EW written on its diagonal
    self.excluded = set()     # distance matrices whose diagonal is inf
    self.ret = None

  def dn(self, e):
    d = self.repo.dotted(self.f.module, e)
    return canon(d) if d else None

  def kw(self, call):
    return {k.arg: ast.unparse(k.value) for k in call.keywords if k.arg}

  def ev(self, e):
    EW = self.ew.EW
    if isinstance(e, ast.Name):
      if e.id in self.env:
        return self.env[e.id]
      raise _SoftUnknown('name %s' % e.id)
    if isinstance(e, ast.Constant) and isinstance(e.value, (int, float)) and \
            not isinstance(e.value, bool):
      return EW.const(Fraction(e.value).limit_denominator(10 ** 9))
    if isinstance(e, ast.UnaryOp) and isinstance(e.op, ast.USub):
      v = self.ev(e.operand)
      if isinstance(v, EW):
        return v.scale(-1)
      if isinstance(v, tuple) and v[0] == 'D':
        return ('negD', v[1])
      raise _SoftUnknown('negation')
    if isinstance(e, ast.Attribute) and e.attr == 'T':
      v = self.ev(e.value)
      if isinstance(v, EW):
        return v.T()
      if v == ('E',):
        return ('Et',)
      if v == ('A',):
        return ('At',)
      raise _SoftUnknown('transpose')
    if isinstance(e, ast.Subscript):
      v = self.ev(e.value)
      st = ast.unparse(e.slice).replace(' ', '').strip('()')
      if isinstance(v, EW) and v.shape == 'v':
        if st in (':,np.newaxis', ':,None'):
          return v.as_col()
        if st in ('np.newaxis,:', 'None,:'):
          return v.as_row()
      if isinstance(v, tuple) and v[0] == 'lse' and \
              st in (':,np.newaxis', ':,None'):
        return ('lsecol', v[1])
      raise _SoftUnknown('subscript %s' % ast.unparse(e))
    if isinstance(e, ast.BinOp):
      if isinstance(e.op, ast.Pow) and isinstance(e.right, ast.Constant) and \
              e.right.value == 2:
        v = self.ev(e.left)
        if isinstance(v, EW):
          return v.mul(v)
        raise _SoftUnknown('power')
      if isinstance(e.op, ast.MatMult):
        return self.matprod(self.ev(e.left), self.ev(e.right))
      a, b = self.ev(e.left), self.ev(e.right)
      if isinstance(a, EW) and isinstance(b, EW):
        if isinstance(e.op, ast.Add):
          return a.add(b)
        if isinstance(e.op, ast.Sub):
          return a.add(b, -1)
        if isinstance(e.op, ast.Mult):
          return a.mul(b)
      # -D - logsumexp(-D, axis=1)[:, None]
      if isinstance(e.op, ast.Sub) and isinstance(a, tuple) and \
              a[0] == 'negD' and isinstance(b, tuple) and b[0] == 'lsecol' \
              and a[1] == b[1]:
        return ('logsoft', a[1])
      # c * gradient product
      if isinstance(e.op, ast.Mult):
        for x, y in ((a, b), (b, a)):
          if isinstance(x, EW) and x.shape == 's' and isinstance(y, tuple) \
                  and y[0] == 'grad':
            return ('grad', y[1].mul(x), y[2], y[3])
      raise _SoftUnknown('operator %s on %s' % (type(e.op).__name__,
                                                 ast.unparse(e)[:60]))
    if isinstance(e, ast.Call):
      return self.call(e)
    raise _SoftUnknown(type(e).__name__)

  def matprod(self, a, b):
    EW = self.ew.EW
    # X A^T
    if a == ('X',) and b == ('At',):
      return ('E',)
    # E^T W  /  (E^T W) X  /  W X  /  E^T (W X)
    if a == ('Et',) and isinstance(b, EW) and b.shape == 'mat':
      return ('EtW', b, self.pending_diag(b))
    if isinstance(a, tuple) and a[0] == 'EtW' and b == ('X',):
      return ('grad', EW.const(1), a[1], a[2])
    if isinstance(a, EW) and a.shape == 'mat' and b == ('X',):
      return ('WX', a, self.pending_diag(a))
    if a == ('Et',) and isinstance(b, tuple) and b[0] == 'WX':
      return ('grad', EW.const(1), b[1], b[2])
    # S y (matrix times 1-D vector)
    if isinstance(a, EW) and a.shape == 'mat' and isinstance(b, EW) and \
            b.shape == 'v':
      return EW.atom('mv[%r,%r]' % (a.key(), b.key()), 'v')
    raise _SoftUnknown('matrix product')

  def pending_diag(self, w):
    return self.diag.get(w.key())

  def call(self, e):
    EW = self.ew.EW
    d = self.dn(e.func)
    kw = self.kw(e)
    if isinstance(e.func, ast.Attribute) and d is None:
      recv = self.ev(e.func.value)
      m = e.func.attr
      if m == 'dot' and len(e.args) == 1:
        return self.matprod(recv, self.ev(e.args[0]))
      if m == 'reshape':
        t = ast.unparse(e).replace(' ', '')
        if recv == ('Aflat',) and ('reshape(-1,X.shape[1])' in t or
                                   'reshape((-1,X.shape[1]))' in t):
          return ('A',)
        raise _SoftUnknown('reshape')
      if m in ('ravel', 'flatten') and not e.args:
        return recv
      if m == 'sum' and isinstance(recv, EW):
        ax = kw.get('axis', ast.unparse(e.args[0]) if e.args else None)
        keep = kw.get('keepdims') == 'True'
        if ax is None:
          return recv.total()
        if ax in ('1', '-1') and recv.shape == 'mat':
          return recv.rowsum(keep)
        if ax == '0' and recv.shape == 'mat':
          return recv.colsum(keep)
        raise _SoftUnknown('sum axis %s' % ax)
      if m == 'copy':
        return recv
      raise _SoftUnknown('method %s' % m)
    if d == canon('numpy.dot') and len(e.args) == 2:
      return self.matprod(self.ev(e.args[0]), self.ev(e.args[1]))
    if d == canon('numpy.sum') and e.args:
      v = self.ev(e.args[0])
      if isinstance(v, EW):
        ax = kw.get('axis', ast.unparse(e.args[1]) if len(e.args) > 1
                    else None)
        keep = kw.get('keepdims') == 'True'
        if ax is None:
          return v.total()
        if ax in ('1', '-1') and v.shape == 'mat':
          return v.rowsum(keep)
        if ax == '0' and v.shape == 'mat':
          return v.colsum(keep)
      raise _SoftUnknown('np.sum')
    if d == canon('numpy.square') and len(e.args) == 1:
      v = self.ev(e.args[0])
      if isinstance(v, EW):
        return v.mul(v)
    if d == canon('sklearn.metrics.pairwise_distances') and e.args and \
            self.ev(e.args[0]) == ('E',) and kw.get('squared') == 'True':
      return ('D', id(e))
    if d in (canon('scipy.special.logsumexp'),) and e.args and \
            kw.get('axis') == '1':
      v = self.ev(e.args[0])
      if isinstance(v, tuple) and v[0] == 'negD':
        return ('lse', v[1])
      raise _SoftUnknown('logsumexp')
    if d == canon('numpy.exp') and len(e.args) == 1:
      v = self.ev(e.args[0])
      if isinstance(v, tuple) and v[0] == 'logsoft':
        if v[1] not in self.excluded:
          raise _SoftDifferent('the soft-max is taken before the point '
                               'itself is excluded (no np.fill_diagonal(., '
                               'inf) on the distances)')
        return EW.atom('S', 'ij')
      raise _SoftUnknown('exp')
    raise _SoftUnknown('call %s' % ast.unparse(e.func))

  def run(self, body):
    EW = self.ew.EW
    for s_ in body:
      if isinstance(s_, ast.Expr) and isinstance(s_.value, ast.Constant):
        continue
      if isinstance(s_, ast.If):
        # verbose reporting only
        if 'verbose' in ast.unparse(s_.test):
          continue
        raise _SoftUnknown('branch on %s' % ast.unparse(s_.test))
      if isinstance(s_, ast.Assign) and len(s_.targets) == 1 and \
              isinstance(s_.targets[0], ast.Name):
        if 'time.time' in ast.unparse(s_.value):
          continue
        self.env[s_.targets[0].id] = self.ev(s_.value)
        continue
      if isinstance(s_, ast.AugAssign) and \
              ast.unparse(s_.target).startswith('self.'):
        continue
      if isinstance(s_, ast.Expr) and isinstance(s_.value, ast.Call):
        c = s_.value
        if self.dn(c.func) == canon('numpy.fill_diagonal') and \
                len(c.args) == 2:
          tgt = self.ev(c.args[0])
          if isinstance(tgt, tuple) and tgt[0] == 'D':
            if ast.unparse(c.args[1]) in ('np.inf', 'numpy.inf',
                                          "float('inf')"):
              self.excluded.add(tgt[1])
              continue
            raise _SoftUnknown('diagonal of the distances set to %s'
                               % ast.unparse(c.args[1]))
          if isinstance(tgt, EW) and tgt.shape == 'mat':
            v = self.ev(c.args[1])
            if not isinstance(v, EW):
              raise _SoftUnknown('diagonal value')
            self.diag[tgt.key()] = v
            continue
        if 'flush' in ast.unparse(c.func) or 'print' in ast.unparse(c.func):
          continue
        raise _SoftUnknown('statement %s' % ast.unparse(s_)[:60])
      if isinstance(s_, ast.Return):
        if isinstance(s_.value, ast.Tuple) and len(s_.value.elts) == 2:
          self.ret = (self.ev(s_.value.elts[0]), self.ev(s_.value.elts[1]),
                      s_)
        return
      raise _SoftUnknown('statement %s' % type(s_).__name__)


class _SoftUnknown(Exception):
  pass


class _SoftDifferent(Exception):
  pass


def rule_softmax_objectives(repo, rep):
  R = 'R-FORM:nca-mlkr-value-and-gradient'
  rep.rule(R, 'NCA: with S the leave-one-out soft-max of minus the squared '
           'distances of X A^T and M the same-label mask, value = sum(M*S) '
           'and gradient = 2 E^T (W + W^T, diagonal -colsum W) X for W = '
           'M*S - S*rowsum(M*S); MLKR: yhat = S y, value = sum((yhat - y)^2), '
           'gradient = 4 E^T (W + W^T, diagonal -colsum W) X for W = S * '
           '(yhat - y)_i * (y_j - yhat_i) - as identities of the entry-wise '
           'algebra (any spelling, temporaries, commuted factors); reference '
           'forms frozen from the documented derivations (row sums of W '
           'vanish, hence the Laplacian form)')
  from ..ewalg import EW, SYMMETRIC
  SYMMETRIC.add('M')
  S = EW.atom('S', 'ij')
  for key, kind in (('nca.NCA._loss_grad_lbfgs', 'nca'),
                    ('mlkr.MLKR._loss', 'mlkr')):
    f = astutil.inline_helpers(repo, repo.get_func(key))
    rep.analysed(getattr(f, 'orig', f))
    params = f.params()
    atoms = {params[1]: ('Aflat',), 'X': ('X',)}
    if kind == 'nca':
      atoms[params[3]] = EW.atom('M', 'ij')
      if len(params) > 4:
        atoms[params[4]] = EW.atom('sign', 's')
      M = EW.atom('M', 'ij')
      MP = M.mul(S)
      r = MP.rowsum(True)
      want_val = r.total()
      alt_val = MP.total()
      W = MP.add(S.mul(r), -1)
      coef = 2
    else:
      atoms[params[3]] = EW.atom('y', 'v')
      y = EW.atom('y', 'v')
      yhat = EW.atom('mv[%r,%r]' % (S.key(), y.key()), 'v')
      a = yhat.add(y, -1)
      want_val = a.mul(a).total()
      alt_val = want_val
      W = S.mul(a.as_col()).mul(y.add(yhat.as_col(), -1))
      coef = 4
    want_sym = W.add(W.T())
    want_diag = W.colsum().scale(-1)
    ev = _Soft(repo, f, atoms)
    try:
      ev.run(f.node.body)
    except _SoftUnknown as u:
      rep.unknown(R, key, site(f), 'outside the interpreted forms: %s' % u)
      continue
    except _SoftDifferent as d_:
      rep.refuted(R, key, site(f), str(d_))
      continue
    if ev.ret is None:
      rep.unknown(R, key, site(f), 'returned pair not found')
      continue
    val, grad, node = ev.ret
    sgn = EW.atom('sign', 's') if kind == 'nca' and len(params) > 4 else \
        EW.const(1)
    if isinstance(val, EW) and val in (want_val.mul(sgn), alt_val.mul(sgn)):
      rep.derived(R, key + ':value', site(f, node),
                  sample=dict(rule=R, value=repr(val)[:200]))
    elif isinstance(val, EW):
      rep.refuted(R, key + ':value', site(f, node), 'the returned value is '
                  '%r, documented %r' % (val, want_val.mul(sgn)))
    else:
      rep.unknown(R, key + ':value', site(f, node), 'value not derivable')
    if not (isinstance(grad, tuple) and grad[0] == 'grad'):
      rep.unknown(R, key + ':gradient', site(f, node), 'gradient not of the '
                  'form c * E^T W X')
      continue
    c, wsym, dg = grad[1], grad[2], grad[3]
    ok_c = c == EW.const(coef).mul(sgn)
    ok_w = wsym == want_sym
    ok_d = dg is not None and dg == want_diag
    # only the product matters: a sign moved from the pair weights into the
    # scalar factor (or a factor 2 moved the other way) changes nothing
    wantc = EW.const(coef).mul(sgn)
    try:
      prod_ok = dg is not None and \
          wsym.mul(c) == want_sym.mul(wantc) and \
          dg.mul(c) == want_diag.mul(wantc)
    except Exception:
      prod_ok = False
    if (ok_c and ok_w and ok_d) or prod_ok:
      rep.derived(R, key + ':gradient', site(f, node))
    else:
      rep.refuted(R, key + ':gradient', site(f, node), 'gradient is '
                  '%r * E^T (%r, diagonal %r) X; documented %r * E^T (%r, '
                  'diagonal %r) X' % (c, wsym, dg, EW.const(coef).mul(sgn),
                                      want_sym, want_diag))
  # the same-label mask handed to NCA's objective: first by interpretation of
  # NCA.fit on symbolic labels (whatever the spelling), the text reading
  # below only where that is undecided
  g = repo.get_func('nca.NCA.fit')
  verdict = _nca_mask_interp(repo, g)
  if verdict is not None:
    kind, detail = verdict
    rep.add(R, 'nca.NCA.fit:mask', kind, site(g), detail)
    return
  md = [v for (n_, v) in guards.assignments(g.node, 'mask') if v is not None]
  calls = [c for c in astutil.calls_in(g.node)
           if canon(repo.dotted(g.module, c.func) or '') == MINIMIZE]
  mname = None
  for c in calls:
    for k in c.keywords:
      if k.arg == 'args' and isinstance(k.value, ast.Tuple) and \
              len(k.value.elts) >= 2 and isinstance(k.value.elts[1],
                                                    ast.Name):
        mname = k.value.elts[1].id
  md = [v for (n_, v) in guards.assignments(g.node, mname or 'mask')
        if v is not None]
  if not md:
    # the mask written in place in the argument tuple (keyword or dict of
    # optimiser parameters)
    tuples = [k.value for c in calls for k in c.keywords if k.arg == 'args']
    for dct in ast.walk(g.node):
      if isinstance(dct, ast.Dict):
        for kk, vv in zip(dct.keys, dct.values):
          if isinstance(kk, ast.Constant) and kk.value == 'args':
            tuples.append(vv)
    for tp in tuples:
      if isinstance(tp, ast.Tuple) and len(tp.elts) >= 2:
        e1 = tp.elts[1]
        if isinstance(e1, ast.Name):
          md = [v for (n_, v) in guards.assignments(g.node, e1.id)
                if v is not None] or md
        else:
          md = [e1]
  t = ast.unparse(md[0]).replace(' ', '') if md else ''
  import re as _re
  m = _re.match(r'^(\w+)\[(:,np\.newaxis|:,None|np\.newaxis,:|None,:)\]=='
                r'(\w+)\[(:,np\.newaxis|:,None|np\.newaxis,:|None,:)\]$', t)
  if m and m.group(1) == m.group(3) and \
          (':,' in m.group(2)) != (':,' in m.group(4)):
    rep.derived(R, 'nca.NCA.fit:mask', site(g))
  elif '!=' in t:
    rep.refuted(R, 'nca.NCA.fit:mask', site(g), 'the mask is %s: pairs with '
                'DIFFERENT labels are rewarded' % t)
  else:
    rep.unknown(R, 'nca.NCA.fit:mask', site(g), 'mask %s not recognised' % t)


def _nca_mask_interp(repo, g):
  """('derived' | 'refuted', detail) for the mask NCA.fit hands to its
  objective, or None when the interpretation is undecided"""
  from ..minterp import Interp, World, Undecided, Lib
  from .c07b import S, tg
  seen = []

  class W(World):
    def attr(self, it, v, attr, node):
      if v == S('self'):
        if attr == 'verbose':
          return False
        return S('selfattr', attr)
      if v == S('X') and attr == 'shape':
        return (S('n'), S('d'))
      if tg(v) == 'ind' and attr == 'T':
        return S('indT', v[1])
      if tg(v) == 'res':
        return S('resattr', attr)
      if tg(v) == 'A' and attr == 'shape':
        return (S('k'), S('d'))
      return NotImplemented

    def setattr(self, it, obj, attr, value, node):
      return None if obj == S('self') else NotImplemented

    def subscript(self, it, base, idx, node):
      full = slice(None, None, None)
      if base == S('labels') and isinstance(idx, tuple) and len(idx) == 2:
        if idx == (full, None):
          return S('lcol')
        if idx == (None, full):
          return S('lrow')
      return NotImplemented

    def compare(self, it, op, a, b, node):
      pair = {tg(a), tg(b)}
      if pair == {'lcol', 'lrow'} or (pair == {'lcol', 'sym'} and
                                       S('labels') in (a, b)):
        if isinstance(op, ast.Eq):
          return S('mask', 'same')
        if isinstance(op, ast.NotEq):
          return S('mask', 'diff')
      for x, y in ((a, b), (b, a)):
        if tg(x) == 'gram' and y == 0 and isinstance(op, (ast.Gt, ast.NotEq)):
          return S('mask', 'gram-' + x[1])
      return NotImplemented

    def unary(self, it, op, v, node):
      if isinstance(op, ast.Invert) and tg(v) == 'mask' and \
              v[1] in ('same', 'diff'):
        return S('mask', 'diff' if v[1] == 'same' else 'same')
      return NotImplemented

    def call(self, it, d, recv, args, kwargs, node):
      short = d.rsplit('.', 1)[-1]
      if d.startswith('.'):
        if recv == S('self') and d == '._prepare_inputs':
          return (S('X'), S('labels'))
        if d == '.reshape' and recv == S('labels') and list(args) in (
                [-1, 1], [(-1, 1)]):
          return S('lcol')
        if d == '.reshape' and recv == S('labels') and list(args) in (
                [1, -1], [(1, -1)]):
          return S('lrow')
        if d == '.fit_transform' and tg(recv) == 'enc' and args and \
                args[0] == S('labels'):
          return S('ind', recv[1])
        if d == '.dot' and tg(recv) == 'ind' and args and \
                args[0] == S('indT', recv[1]):
          return S('gram', recv[1])
        if d in ('.ravel', '.reshape', '.copy') and tg(recv) in ('A',
                                                                 'resattr'):
          return recv
        if d == '.astype' and tg(recv) == 'mask':
          return recv
        return NotImplemented
      if short == '_check_n_components':
        return S('k')
      if short == '_initialize_components':
        return S('A')
      if short == 'time':
        return 0
      if short in ('LabelBinarizer',):
        return S('enc', 'LabelBinarizer')
      if d == 'numpy.equal.outer' and list(args) == [S('labels'),
                                                     S('labels')]:
        return S('mask', 'same')
      if short == 'minimize':
        a_ = kwargs.get('args', args[2] if len(args) > 2 else None)
        if isinstance(a_, tuple) and len(a_) >= 2:
          seen.append(a_[1])
        return S('res')
      if d in ('print', 'builtins.print') or short == 'flush':
        return None
      if short == 'dict' and not args:
        return dict(kwargs)
      return NotImplemented
  try:
    it = Interp(repo, g, W())
    env = dict((p_, S('arg', p_)) for p_ in g.params())
    env[g.params()[0]] = S('self')
    it.run(env)
  except Exception:
    return None
  if not seen or tg(seen[0]) != 'mask':
    return None
  k = seen[0][1]
  if k == 'same':
    return 'derived', ''
  if k == 'diff':
    return 'refuted', 'the mask is true for pairs with DIFFERENT labels: ' \
        'they are rewarded'
  if k == 'gram-LabelBinarizer':
    return 'refuted', 'the mask is (E E^T > 0) with E = LabelBinarizer()' \
        '.fit_transform(labels): for exactly two classes LabelBinarizer ' \
        'returns ONE 0/1 column, so two points of the first class have ' \
        'inner product 0 and are not marked as the same class'
  return None


def rule_zero_iterations(repo, rep):
  R = 'R-API:zero-iterations-return-x0'
  rep.rule(R, 'for max_iter = 0 NCA / MLKR return the initialisation: either '
           'fit does not call the optimiser under max_iter == 0, or the '
           'installed scipy L-BFGS-B driver tests its iteration limit before '
           'the first iteration (decided on the source of '
           'scipy.optimize._lbfgsb_py._minimize_lbfgsb: a comparison with '
           'maxiter that precedes the main loop or is not preceded, on its '
           'path from the loop head, by the iteration counter increment)')
  import importlib, inspect
  lib_ok = None
  detail = ''
  try:
    m = importlib.import_module('scipy.optimize._lbfgsb_py')
    src = inspect.getsource(m._minimize_lbfgsb)
    tree = ast.parse(__import__('textwrap').dedent(src))
    fn = tree.body[0]
    loops = [n for n in ast.walk(fn) if isinstance(n, ast.While)]
    cmps = [n for n in ast.walk(fn) if isinstance(n, ast.Compare) and
            any(isinstance(x, ast.Name) and x.id == 'maxiter'
                for x in ast.walk(n))]
    if not loops or not cmps:
      detail = 'main loop / maxiter test not found in the installed scipy'
    else:
      lp = loops[0]
      early = [c for c in cmps if c.lineno < lp.lineno]
      in_loop = [c for c in cmps if lp.lineno <= c.lineno <= lp.end_lineno]
      # inside the loop: is the counter incremented before the test in the
      # same block?
      guarded_first = False
      for c in in_loop:
        st = astutil.stmt_of(lp, c)
        blk = astutil.parents(lp).get(st)
        body = None
        for fld in ('body', 'orelse'):
          if st in getattr(blk, fld, []):
            body = getattr(blk, fld)
        inc_before = body is not None and any(
            isinstance(x, ast.AugAssign) and isinstance(x.op, ast.Add) and
            x.lineno < st.lineno for x in body)
        if not inc_before and blk is lp:
          guarded_first = True
      lib_ok = bool(early) or guarded_first
      detail = 'scipy %s: the only tests of maxiter (%s) follow the ' \
          'increment of the iteration counter inside the main loop' % (
              __import__('scipy').__version__,
              ', '.join('line %d' % c.lineno for c in cmps))
  except Exception as e:            # source not available
    detail = 'source of the installed L-BFGS-B driver not available: %s' % e
  for cname in ('NCA', 'MLKR'):
    c = repo.get_class(cname)
    f = repo.resolve_method(c, 'fit')
    key = cname + '.fit:max_iter=0'
    calls = [x for x in astutil.calls_in(f.node)
             if (repo.dotted(f.module, x.func) or '').endswith('.minimize')]
    if not calls:
      rep.unknown(R, key, site(f), 'optimiser call not found')
      continue
    conds = astutil.path_condition(f.node, calls[0])
    own_guard = any('max_iter' in c_ and any(
        t in c_.replace(' ', '') for t in ('>0', '!=0', '>=1'))
        for c_ in conds)
    meth = None
    for n in ast.walk(f.node):
      if isinstance(n, ast.Constant) and n.value in ('L-BFGS-B', 'l-bfgs-b'):
        meth = n.value
    if own_guard:
      rep.derived(R, key, site(f, calls[0]))
    elif meth is None:
      rep.unknown(R, key, site(f, calls[0]), 'optimisation method not '
                  'identified')
    elif lib_ok is None:
      rep.unknown(R, key, site(f, calls[0]), detail)
    elif lib_ok:
      rep.derived(R, key, site(f, calls[0]))
    else:
      rep.refuted(R, key, site(f, calls[0]), 'minimize(method=L-BFGS-B, '
                  'options=dict(maxiter=self.max_iter)) is called for '
                  'max_iter = 0 as well, and the installed driver performs '
                  'at least one iteration (%s): the result is not the '
                  'initialisation' % detail)


def rule_lmnn_label_encoding(repo, rep):
  R = 'R-FRAME:lmnn-class-labels-one-encoding'
  rep.rule(R, 'LMNN compares the per-point class codes (the inverse indices '
           'of np.unique) with the elements of self.labels_: labels_ must be '
           'the codes 0..C-1 (np.arange(len(unique)) or np.unique of the '
           'codes), not the original label values - otherwise every class '
           'whose value is not its code selects no points')
  c = repo.get_class('LMNN')
  f = repo.resolve_method(c, 'fit')
  key = 'LMNN.fit:labels_'
  U = I = None
  for n in ast.walk(f.node):
    if isinstance(n, ast.Assign) and isinstance(n.value, ast.Call) and \
            canon(repo.dotted(f.module, n.value.func) or '') == \
            canon('numpy.unique') and isinstance(n.targets[0], ast.Tuple) \
            and len(n.targets[0].elts) == 2 and any(
                k.arg == 'return_inverse' for k in n.value.keywords):
      U, I = (ast.unparse(e) for e in n.targets[0].elts)
  stores = [n for n in ast.walk(f.node) if isinstance(n, ast.Assign) and
            ast.unparse(n.targets[0]) == 'self.labels_']
  if U is None or not stores:
    rep.unknown(R, key, site(f), 'label encoding idiom not found')
    return
  # do the helpers compare labels_ with the codes?
  uses_codes = False
  for mname in ('_select_targets', '_find_impostors'):
    g = repo.resolve_method(c, mname)
    if g is None:
      continue
    for lp in ast.walk(g.node):
      if isinstance(lp, ast.For) and 'self.labels_' in ast.unparse(lp.iter) \
              and isinstance(lp.target, ast.Name):
        for cmp_ in ast.walk(lp):
          if isinstance(cmp_, ast.Compare) and lp.target.id in [
                  x.id for x in ast.walk(cmp_) if isinstance(x, ast.Name)]:
            uses_codes = True
  passes_codes = any(
      isinstance(cl, ast.Call) and isinstance(cl.func, ast.Attribute) and
      cl.func.attr in ('_select_targets', '_find_impostors', '_loss_grad')
      and any(ast.unparse(a) == I for a in cl.args)
      for cl in ast.walk(f.node))
  for st_ in stores:
    txt = ast.unparse(st_.value).replace(' ', '')
    ok_forms = ('np.arange(len(%s))' % U, 'np.arange(%s.size)' % U,
                'np.arange(%s.shape[0])' % U, 'np.unique(%s)' % I,
                'range(len(%s))' % U, 'list(range(len(%s)))' % U)
    if txt in ok_forms:
      rep.derived(R, key, site(f, st_))
    elif txt == U and uses_codes and passes_codes:
      rep.refuted(R, key, site(f, st_), 'self.labels_ holds the label '
                  'values %s while the helpers compare its elements with the '
                  'codes %s: a class whose label differs from its code '
                  'selects no points' % (U, I))
    else:
      rep.unknown(R, key, site(f, st_), 'labels_ = %s' % txt)


class _CallDepDomain(TagDomain):
  """dependence sets ('in', <parameter>) of values; records the sets of the
  arguments of one repository callee"""

  def __init__(self, callee):
    super().__init__()
    self.callee = callee
    self.seen = []

  def param(self, func, name, index):
    return frozenset([('in', name)])

  def fitted_read(self, cls, name, node, st):
    return frozenset([('in', 'self.' + name)])

  def hyperparam(self, cls, name, node):
    return frozenset([('in', 'self.' + name)])

  def on_call(self, kind, target, args, kwargs, node, st):
    super().on_call(kind, target, args, kwargs, node, st)
    if kind == 'repo' and getattr(target, 'name', None) == self.callee:
      self.seen.append(([set(t[1] for t in self._u(a) if t[0] == 'in')
                         for a in args], self.site(node)))


def rule_lmnn_radius(repo, rep):
  R = 'R-FLOW:lmnn-margin-radius-follows-the-metric'
  rep.rule(R, 'the margin radius of the impostor search - the furthest '
           'target neighbour of each point - is determined under the CURRENT '
           'transformation: the reference points handed to _find_impostors '
           'depend on L (through the distances to the target neighbours), '
           'not only on the stored neighbour lists, whose order is that of '
           'the Euclidean distances at the start')
  c = repo.get_class('LMNN')
  f = repo.resolve_method(c, '_loss_grad') if c is not None else None
  key = 'lmnn.LMNN._loss_grad:_find_impostors'
  if f is None:
    rep.unknown(R, key, '', 'method vanished')
    return
  rep.analysed(f)
  dom = _CallDepDomain('_find_impostors')
  Engine(repo, dom, self_cls=c).run(f)
  if not dom.seen:
    rep.unknown(R, key, site(f), 'no call of _find_impostors')
    return
  lname = next((p for p in f.params() if p in ('L', 'transformation')), None)
  if lname is None:
    rep.unknown(R, key, site(f), 'parameter holding the transformation not '
                'identified (%s)' % f.params())
    return
  for (deps, s_) in dom.seen:
    # first explicit argument = the reference (furthest) neighbours
    ref = deps[0] if deps else set()
    if lname in ref:
      rep.derived(R, key, s_)
    elif ref:
      rep.refuted(R, key, s_, 'the reference neighbours of the impostor '
                  'search depend on %s only, not on the current '
                  'transformation %s: once the metric has moved away from '
                  'the Euclidean one another target neighbour is the '
                  'furthest, its margin violators are missed and the value '
                  'and gradient are not those of the documented objective'
                  % (sorted(ref), lname))
    else:
      rep.unknown(R, key, s_, 'dependences of the reference neighbours not '
                  'derivable')


def check(repo, rep, tier):
  rule_lmnn_radius(repo, rep)
  rule_lmnn_acceptance(repo, rep)
  rule_optimizer_handoff(repo, rep)
  rule_zero_iterations(repo, rep)
  rule_self_exclusion(repo, rep)
  rule_stable_softmax(repo, rep)
  rule_lmnn_objective(repo, rep)
  rule_lmnn_impostor_enumeration(repo, rep)
  rule_lmnn_label_encoding(repo, rep)
  rule_softmax_objectives(repo, rep)


