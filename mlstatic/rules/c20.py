"""C20 - PSD matrices are converted, validated and initialised as
documented."""
import ast
from fractions import Fraction
from ..model import FuncInfo
from ..engine import Engine, V, State, NOCONST
from ..algdom import AlgDomain
from ..tags import TagDomain
from ..algebra import UNKNOWN, Poly, SExpr, Vec, Lin, Tup, A
from .. import astutil
from .common import site


def _gram_equals_M(dom, Lval, st, mname='M'):
  """L^T L reduced with the library axioms / path assumptions == M ?"""
  if not isinstance(Lval, Poly) or Lval.kind != 'mat':
    return None, 'returned value %r is not a matrix form' % (Lval,)
  must = dom.must(st)
  checked = set(e[1] for e in must if e[0] == 'sdp-checked')
  G = Lval.transpose().mul(Lval, 'mat')
  G = G.map_diag(lambda sx: sx.relax(checked))
  rules = list(dom.axioms)
  M = (A(mname, 'mat', False, True),)
  if ('assume', 'isdiag', mname) in must:
    rules.append(((('diag', SExpr.base(('diagof', mname)).key()),), M))
  G = G.rewrite(rules)
  want = Poly({M: Fraction(1)}, 'mat')
  if G == want:
    return True, repr(Lval)
  return False, 'L = %r gives L^T L = %r, not %s' % (Lval, G, mname)


def rule_components_from_metric(repo, rep):
  R = 'R-FORM:LtL-equals-M'
  rep.rule(R, 'every return of components_from_metric(M) satisfies '
           'L^T L = M in the matrix algebra with the axioms '
           'cholesky(M) cholesky(M)^T = M, eigh(M) = (w, V) with '
           'V Diag(w) V^T = M and V^T V = I, max(0, x) ~ x only for a '
           'spectrum that passed _check_sdp_from_eigen on that path, and '
           'Diag(diag(M)) = M only on the branch that tested it')
  R2 = 'R-DOM:conversion-rejections'
  rep.rule(R2, 'the symmetry test precedes every return of '
           'components_from_metric and raises ValueError; the eigen and '
           'diagonal branches pass _check_sdp_from_eigen, whose negative '
           'spectrum path raises NonPSDError')
  f = repo.get_func('_util.components_from_metric')
  rep.analysed(f)
  # (a) algebra, M symmetric
  Poly.ORTHO.clear()
  dom = AlgDomain()
  dom.symm = {'M'}
  eng = Engine(repo, dom)
  Mv = V(Poly.sym('M', 'mat', symmetric=True), ty='ndarray')
  flow = eng.run(f, args={'metric': Mv})
  n = 0
  kinds = set()
  for (v, st, node) in flow.returns:
    n += 1
    ok, detail = _gram_equals_M(dom, v.d, st)
    txt = repr(v.d)
    branch = 'cholesky' if 'chol(' in txt else 'eigh' if 'V(' in txt else \
        'diagonal' if 'Diag' in txt else 'other'
    kinds.add(branch)
    key = '_util.components_from_metric:' + branch
    if ok is None:
      rep.unknown(R, key, site(f, node), detail)
    elif ok:
      rep.derived(R, key, site(f, node),
                  sample=dict(rule=R, branch=branch, L=detail))
    else:
      rep.refuted(R, key, site(f, node), detail)
  for b in ('cholesky', 'eigh', 'diagonal'):
    if b not in kinds:
      rep.unknown(R, '_util.components_from_metric:' + b, site(f),
                  'branch %s not found among the return paths' % b)
  # (b) rejections, M not assumed symmetric
  dom = AlgDomain()
  eng = Engine(repo, dom)
  flow = eng.run(f, args={'metric': V(Poly.sym('M', 'mat'), ty='ndarray')})
  for (v, st, node) in flow.returns:
    must = dom.must(st)
    key = '_util.components_from_metric:return'
    if ('assume', 'issym', 'M') in must:
      rep.derived(R2, key + ':symmetry', site(f, node))
    else:
      rep.refuted(R2, key + ':symmetry', site(f, node),
                  'a return is reachable without the symmetry test '
                  'np.allclose(M, M.T) having succeeded')
    txt = repr(v.d)
    if 'chol(' not in txt:
      if any(e[0] == 'sdp-checked' for e in must):
        rep.derived(R2, key + ':psd-check', site(f, node))
      else:
        rep.refuted(R2, key + ':psd-check', site(f, node),
                    'eigen/diagonal branch returns without '
                    '_check_sdp_from_eigen')
  sym_raise = [(names, st, node) for (names, st, node) in flow.raises
               if ('assume', 'not-issym', 'M') in dom.must(st)]
  if not sym_raise:
    rep.refuted(R2, '_util.components_from_metric:nonsymmetric', site(f),
                'no path rejects a non-symmetric matrix')
  for (names, st, node) in sym_raise:
    if 'ValueError' in names:
      rep.derived(R2, '_util.components_from_metric:nonsymmetric',
                  site(f, node))
    else:
      rep.refuted(R2, '_util.components_from_metric:nonsymmetric',
                  site(f, node), 'non-symmetric input raises %s' % names[0])
  # _check_sdp_from_eigen
  g = repo.get_func('_util._check_sdp_from_eigen')
  rep.analysed(g)
  w = g.params()[0]
  tol = g.params()[1] if len(g.params()) > 1 else 'tol'
  found = False
  for r in ast.walk(g.node):
    if isinstance(r, ast.Raise) and r.exc is not None:
      names = repo.exception_bases(g.module, r.exc)
      if names[0] == 'NonPSDError':
        conds = astutil.path_condition(g.node, r)
        accept = {'any(%s < -%s)' % (w, tol), 'np.any(%s < -%s)' % (w, tol),
                  '(%s < -%s).any()' % (w, tol), '%s.min() < -%s' % (w, tol),
                  'np.min(%s) < -%s' % (w, tol), 'min(%s) < -%s' % (w, tol)}
        if set(conds) & accept:
          found = True
          if 'LinAlgError' in names:
            rep.derived(R2, '_util._check_sdp_from_eigen', site(g, r))
          else:
            rep.refuted(R2, '_util._check_sdp_from_eigen', site(g, r),
                        'NonPSDError is not a LinAlgError')
        else:
          # another spelling of the test: which spectra raise is decided by
          # R-INTERP:psd-test on the function itself
          from . import c20b as _c20b
          if _interp_ok(repo, rep, _c20b.rule_psd_test):
            rep.derived(R2, '_util._check_sdp_from_eigen', site(g, r))
          else:
            rep.unknown(R2, '_util._check_sdp_from_eigen', site(g, r),
                        'NonPSDError raised under %s, documented: an '
                        'eigenvalue below -tol' % conds)
          found = True
  if not found:
    rep.refuted(R2, '_util._check_sdp_from_eigen', site(g),
                'no path raises NonPSDError for a negative spectrum')
  # the default tolerance replaces only tol=None (tol=0 is a valid request)
  Rt0 = 'R-GUARD:default-tolerance-only-for-None'
  rep.rule(Rt0, 'the default tolerance is substituted only under '
           '`tol is None`: an explicit tol (including 0) is used as given')
  for key in ('_util._check_sdp_from_eigen', '_util._pseudo_inverse_from_eig'):
    h = repo.get_func(key)
    for n_ in ast.walk(h.node):
      if isinstance(n_, ast.Assign) and \
              ast.unparse(n_.targets[0]) == 'tol':
        conds = astutil.path_condition(h.node, n_)
        if conds == ['tol is None']:
          rep.derived(Rt0, key, site(h, n_))
        else:
          rep.refuted(Rt0, key, site(h, n_), 'tol is replaced by the '
                      'default under %s: an explicit tol=0 is not honoured'
                      % conds)
  rep.floor('components_from_metric return paths', n, 3)


def _mk_args(f, **kw):
  out = {}
  for k, v in kw.items():
    out[k] = v
  return out


def cv(value, d=UNKNOWN):
  ty = 'str' if isinstance(value, str) else ('none' if value is None else None)
  return V(d, c=frozenset([value]), ty=ty)


def cvt(value):
  return cv(value, frozenset())


def rule_metric_init(repo, rep):
  R = 'R-FORM:prior-options'
  rep.rule(R, "_initialize_metric_mahalanobis: 'identity' is I; "
           "'covariance' is exactly one (pseudo-)inversion of "
           "cov(<input, de-duplicated when tuples>, rowvar=False); 'random' "
           "is make_spd_matrix; an array is the checked copy; with "
           "return_inverse the pair is (X, X^-1) in that order")
  Rt = 'R-TABLE:prior-options'
  rep.rule(Rt, 'every documented option value is accepted and dispatched '
           '(returns a matrix on every path), unknown values raise '
           'ValueError')
  Rp = 'R-GUARD:strict-pd'
  rep.rule(Rp, 'under strict_pd=True no path returns after the definiteness '
           'test reported a non-definite matrix')
  f = repo.get_func('_util._initialize_metric_mahalanobis')
  rep.analysed(f)
  rows = V(Poly.sym('X', 'rows'), ty='ndarray')
  tups = V(Tup('T', None), ty='ndarray')
  n = 0
  accepted = set()
  for n_ in ast.walk(f.node):
    if isinstance(n_, ast.Compare) and len(n_.ops) == 1 and \
            isinstance(n_.ops[0], (ast.In, ast.NotIn)) and \
            isinstance(n_.comparators[0], (ast.List, ast.Tuple, ast.Set)):
      for e_ in n_.comparators[0].elts:
        if isinstance(e_, ast.Constant) and isinstance(e_.value, str):
          accepted.add(e_.value)
  extra = sorted(accepted - {'identity', 'covariance', 'random'})
  # is the pseudo-inverse helper the documented one (interpretive rule)?
  from . import c20b
  from ..report import Report
  pinv_f = repo.get_func('_util._pseudo_inverse_from_eig')
  tmp = Report(rep.pid)
  try:
    c20b.rule_pinv_spectrum(repo, tmp)
    pinv_ok = bool(tmp.obs) and all(o['status'] == 'derived'
                                    for o in tmp.obs)
  except Exception:
    pinv_ok = False
  for opt in ('identity', 'covariance', 'random', '<array>', 'bogus') + \
          tuple(extra):
    for inp_name, inp in (('points', rows), ('tuples', tups)):
      for rinv in (False, True):
        for strict in (False, True):
          Poly.ORTHO.clear()
          dom = AlgDomain()
          eng = Engine(repo, dom)
          if pinv_ok and pinv_f is not None:
            # `_pseudo_inverse_from_eig(w, V)` is V Diag(1 / w) V^T on the
            # retained part of the spectrum: decided on the function itself
            # by R-INTERP:pinv-from-eig (c20b), so its spelling (in place
            # with where= / out=, or out of place with a masked store) does
            # not matter here
            def _pinv_sum(a, k, eng=eng):
              from ..engine import State
              expr = ast.parse('np.dot(V__ * (1 / w__), V__.T)',
                               mode='eval').body
              return eng.eval(expr, State({'w__': a[0], 'V__': a[1]},
                                          eng.dom.aux_init()), pinv_f)
            dom.summaries[pinv_f.key] = _pinv_sum
          initv = cv(opt) if opt != '<array>' else V(
              Poly.sym('init', 'mat', symmetric=True), ty='ndarray')
          facts = {('@attr', 'input', 'ndim'): V(
              UNKNOWN, c=frozenset([2 if inp_name == 'points' else 3]))}
          flow = eng.run(f, args={'input': inp, 'init': initv,
                                  'return_inverse': cv(rinv),
                                  'strict_pd': cv(strict),
                                  'random_state': V(UNKNOWN)}, facts=facts)
          key = '_util._initialize_metric_mahalanobis:%s:%s:inv=%s:strict=%s' % (
              opt, inp_name, rinv, strict)
          n += 1
          if opt == 'bogus':
            if flow.returns:
              rep.refuted(Rt, key, site(f), 'an unknown option value does '
                          'not raise')
            elif all('ValueError' in names for (names, s, nd) in flow.raises):
              rep.derived(Rt, key, site(f))
            else:
              rep.refuted(Rt, key, site(f), 'unknown option raises %s' % (
                  [names[0] for (names, s, nd) in flow.raises],))
            continue
          if not flow.returns:
            rep.refuted(Rt, key, site(f), 'documented option %r is rejected '
                        'on every path' % opt)
            continue
          src = 'X' if inp_name == 'points' else "distinct(Tup(T))"
          for (v, st, node) in flow.returns:
            if v.c is not NOCONST and v.const() is None:
              rep.refuted(Rt, key, site(f, node), 'option %r falls through '
                          'the dispatch (returns None)' % opt)
              continue
            if opt in extra:
              continue     # undocumented extra option that is dispatched
            if rinv:
              parts = [x.d for x in v.elts] if v.elts is not None and \
                  len(v.elts) == 2 else None
            else:
              parts = [v.d]
            if parts is None or any(p is UNKNOWN for p in parts):
              rep.unknown(R, key, site(f, node), 'returned form not '
                          'derivable: %r' % (v.d,))
              continue
            ok, detail = _option_form(opt, src, parts, rinv)
            if ok:
              rep.derived(R, key, site(f, node),
                          sample=dict(rule=R, option=opt, input=inp_name,
                                      returned=[repr(p) for p in parts])
                          if n % 9 == 1 else None)
            else:
              rep.refuted(R, key, site(f, node), detail)
            if strict:
              flags = [st.vars.get(nm) for nm in ('init_is_definite',
                                                  'cov_is_definite')]
              nondef = [x for x in flags if isinstance(x, V) and
                        x.c == frozenset([False])]
              if nondef:
                rep.refuted(Rp, key, site(f, node), 'strict_pd=True but a '
                            'non-definite matrix is returned')
              else:
                rep.derived(Rp, key, site(f, node))
  rep.floor('prior/init option configurations evaluated', n, 40)


def _pinv_form(name):
  wn, vn = 'w(%s)' % name, 'V(%s)' % name
  Vp = Poly({(A(vn, 'mat'),): Fraction(1)}, 'mat')
  inv = SExpr.base(('w', wn)).pow(-1)
  return Vp.mul(Poly.diag(inv), 'mat').mul(Vp.transpose(), 'mat')


def _option_form(opt, src, parts, rinv):
  if opt == 'identity':
    want = [Poly.eye()] * 2
  elif opt == 'covariance':
    cname = 'cov(%s)' % src
    want = [_pinv_form(cname), Poly.sym(cname, 'mat', symmetric=True)]
  elif opt == 'random':
    want = [Poly.sym('spd_random', 'mat', symmetric=True),
            Poly.sym('inv(spd_random)', 'mat', symmetric=True)]
  else:
    want = [Poly.sym('init', 'mat', symmetric=True), _pinv_form('init')]
  want = want if rinv else want[:1]
  for i, (p, w) in enumerate(zip(parts, want)):
    if p != w:
      return False, ('option %r: element %d of the returned %s is %r, '
                     'documented %r' % (opt, i, 'pair' if rinv else 'value',
                                        p, w))
  return True, ''


class StrictDomain(TagDomain):
  def __init__(self):
    super().__init__()
    self.seen = []

  def on_call(self, kind, target, args, kwargs, node, st):
    super().on_call(kind, target, args, kwargs, node, st)
    if kind == 'repo' and target.name == '_initialize_metric_mahalanobis':
      v = kwargs.get('strict_pd')
      if v is None and len(args) > 4:
        v = args[4]
      self.seen.append((v.const() if v is not None else False,
                        self.site(node)))


def rule_strict_sites(repo, rep):
  R = 'R-TABLE:strict-pd-call-sites'
  rep.rule(R, 'ITML, LSML and SDML request a strictly positive definite '
           'prior (strict_pd=True at the call site); MMC does not')
  for cname, want in (('ITML', True), ('ITML_Supervised', True),
                      ('LSML', True), ('LSML_Supervised', True),
                      ('SDML', True), ('SDML_Supervised', True),
                      ('MMC', False), ('MMC_Supervised', False)):
    c = repo.get_class(cname)
    f = repo.resolve_method(c, 'fit')
    dom = StrictDomain()
    Engine(repo, dom, self_cls=c).run(f)
    rep.analysed(f)
    key = cname + '.fit'
    if not dom.seen:
      rep.unknown(R, key, site(f), 'no call to '
                  '_initialize_metric_mahalanobis reached')
    for (val, s) in dom.seen:
      if (val is True) == want:
        rep.derived(R, key, s)
      else:
        rep.refuted(R, key, s, 'strict_pd=%r at the call site, documented %r'
                    % (val, want))


def rule_prior_inputs(repo, rep):
  R = 'R-FLOW:prior-computed-from-the-training-tuples'
  rep.rule(R, 'the tuple learners hand the validated tuple array itself (or '
           'its de-duplicated points) to _initialize_metric_mahalanobis, so '
           "that 'covariance' is taken over the DISTINCT training points")
  for cname, pname in (('ITML', 'pairs'), ('MMC', 'pairs'), ('SDML', 'pairs'),
                       ('LSML', 'quadruplets')):
    c = repo.get_class(cname)
    f = repo.resolve_method(c, '_fit')
    dom = AlgDomain()
    dom.max_states = 16
    t = 4 if cname == 'LSML' else 2
    eng = Engine(repo, dom, self_cls=c)
    eng.run(f, args={pname: V(Tup('T', list(range(t))), ty='ndarray')})
    rep.analysed(f)
    seen = getattr(dom, 'prior_inputs', [])
    if not seen:
      rep.unknown(R, cname + '._fit', site(f), 'no call observed')
    for (d, s) in seen:
      txt = repr(d)
      if isinstance(d, Tup) and not d.base.startswith('distinct-tuples'):
        rep.derived(R, cname + '._fit', s)
      elif isinstance(d, Poly) and txt.startswith('distinct('):
        rep.derived(R, cname + '._fit', s)
      elif d is UNKNOWN:
        rep.unknown(R, cname + '._fit', s, 'argument not derivable')
      else:
        rep.refuted(R, cname + '._fit', s, 'the prior is computed from %s: '
                    'points shared by several tuples are counted with '
                    'repetition' % txt)


def rule_components_init(repo, rep):
  Rt = 'R-TABLE:init-options'
  rep.rule(Rt, "_initialize_components accepts and dispatches every "
           "documented init value ('auto', 'pca', 'identity', 'random', "
           "'lda' iff has_classes, array), rejects others with ValueError, "
           "and _auto_select_init returns only dispatched values")
  Ra = 'R-GUARD:auto-init-rule'
  rep.rule(Ra, "_auto_select_init is the documented three-way rule: 'lda' "
           "iff has_classes and n_components <= min(n_features, n_classes-1); "
           "else 'pca' iff n_components < min(n_features, n_samples); else "
           "'identity'")
  Rs = 'R-GUARD:array-init-shape-checks'
  rep.rule(Rs, 'an array init is rejected with ValueError when its feature '
           'dimension differs from the data, when it has more rows than '
           'columns, or when its rows differ from n_components')
  f = repo.get_func('_util._initialize_components')
  rep.analysed(f)
  for has_classes in (True, False):
    opts = ['auto', 'pca', 'identity', 'random'] + \
        (['lda'] if has_classes else [])
    for opt in opts + ['bogus'] + ([] if has_classes else ['lda']):
      dom = TagDomain()
      dom.fork = True
      eng = Engine(repo, dom)
      flow = eng.run(f, args={'init': cvt(opt),
                              'has_classes': cvt(has_classes)})
      key = '_util._initialize_components:%s:has_classes=%s' % (opt,
                                                                has_classes)
      if opt in opts:
        none_ret = [nd for (v, s, nd) in flow.returns
                    if v.c is not NOCONST and v.const() is None]
        if not flow.returns:
          rep.refuted(Rt, key, site(f), 'documented option %r rejected' % opt)
        elif none_ret:
          rep.refuted(Rt, key, site(f, none_ret[0]), 'option %r falls through '
                      'the dispatch (returns None)' % opt)
        else:
          rep.derived(Rt, key, site(f))
      else:
        if flow.returns:
          rep.refuted(Rt, key, site(f), 'value %r is not rejected' % opt)
        elif all('ValueError' in names for (names, s, nd) in flow.raises):
          rep.derived(Rt, key, site(f))
        else:
          rep.refuted(Rt, key, site(f), 'value %r raises %s' % (
              opt, [n[0] for (n, s, nd) in flow.raises]))
  # shapes of the initial transformations
  Rk = 'SHAPE:init-options-k-by-d'
  rep.rule(Rk, "every string option of _initialize_components returns an "
           "array of symbolic shape (n_components, n_features): np.eye(k, d), "
           "randn(k, d), PCA(n_components=k).components_, "
           "lda.scalings_.T[:k]")
  from ..shape import ShapeDomain, arr as _arr, dims_of as _dims
  for opt in ('identity', 'random', 'pca', 'lda'):
    sd = ShapeDomain()
    sd.summary = lambda *a, **k: None
    eng = Engine(repo, sd)
    flow = eng.run(f, args={'init': cv(opt, None),
                            'n_components': V(('dim', 'k')),
                            'input': V(_arr('n', 'd'), ty='ndarray'),
                            'y': V(_arr('n'), ty='ndarray'),
                            'has_classes': cv(True, None),
                            'verbose': cv(False, None)})
    key = '_util._initialize_components:%s:shape' % opt
    rets = [(v, nd) for (v, st_, nd) in flow.returns]
    if not rets:
      rep.unknown(Rk, key, site(f), 'no return')
    for (v, nd) in rets:
      dd = _dims(v.d)
      if dd is None:
        rep.unknown(Rk, key, site(f, nd), 'shape not derivable')
      elif tuple(dd) == ('k', 'd'):
        rep.derived(Rk, key, site(f, nd))
      else:
        rep.refuted(Rk, key, site(f, nd), "init=%r returns an array of "
                    "shape %s, documented (n_components, n_features)"
                    % (opt, tuple(map(str, dd))))
  # auto rule
  g = repo.get_func('_util._auto_select_init')
  rep.analysed(g)
  def N(text):
    return astutil.norm_atom(ast.parse(text, mode='eval').body)
  want = {
      'lda': {'has_classes',
              N('n_components <= min(n_features, n_classes - 1)')},
      'pca': {N('n_components < min(n_features, n_samples)')},
      'identity': set()}
  got = {}
  for n in ast.walk(g.node):
    val = None
    if isinstance(n, ast.Assign) and isinstance(n.value, ast.Constant):
      val = n.value.value
    elif isinstance(n, ast.Return) and isinstance(n.value, ast.Constant):
      val = n.value.value
    if isinstance(val, str):
      got.setdefault(val, []).append(set(astutil.path_condition(g.node, n)))
  ok = set(got) == set(want)
  detail = ''
  if ok:
    lda = want['lda']
    neg_lda = 'not (has_classes and n_components <= min(n_features, ' \
        'n_classes - 1))'
    for val, condsets in got.items():
      for conds in condsets:
        pos = set(c for c in conds if not c.startswith('(') and
                  ' or ' not in c)
        if val == 'lda' and not (lda <= conds):
          ok, detail = False, "'lda' chosen under %s" % sorted(conds)
        if val == 'pca' and not (want['pca'] <= conds):
          ok, detail = False, "'pca' chosen under %s" % sorted(conds)
        if val == 'pca' and (lda <= conds):
          ok, detail = False, "'pca' chosen although the lda rule holds"
        if val == 'identity' and (want['pca'] <= conds or lda <= conds):
          ok, detail = False, "'identity' chosen under %s" % sorted(conds)
  else:
    detail = 'values selected: %s' % sorted(got)
  rep.add(Ra, '_util._auto_select_init', 'derived' if ok else 'refuted',
          site(g), detail)
  # shape checks
  # role: n_features = the local holding input.shape[-1] / input.shape[1]
  nf_roles = {}
  for n_ in ast.walk(f.node):
    if isinstance(n_, ast.Assign) and isinstance(n_.targets[0], ast.Name) and \
            ast.unparse(n_.value) in ('input.shape[-1]', 'input.shape[1]'):
      nf_roles[n_.targets[0].id] = 'n_features'
  f = astutil.role_view(f, nf_roles)
  conds_needed = {'init.shape[1] != n_features': False,
                  'init.shape[0] > init.shape[1]': False,
                  'init.shape[0] != n_components': False}
  for r in ast.walk(f.node):
    if isinstance(r, ast.Raise) and r.exc is not None and \
            'ValueError' in repo.exception_bases(f.module, r.exc):
      for c in astutil.path_condition(f.node, r):
        if c in conds_needed:
          conds_needed[c] = True
  # the behaviour itself (which array shapes are rejected) is decided by
  # R-INTERP:components-init-table; this reading of the guards by their text
  # only reports where that interpretation is not conclusive
  from . import c20b as _c20b
  if not all(conds_needed.values()) and _interp_ok(
          repo, rep, _c20b.rule_components_init_table):
    return
  for c, seen in conds_needed.items():
    if seen:
      rep.derived(Rs, '_util._initialize_components:' + c, site(f))
    else:
      rep.unknown(Rs, '_util._initialize_components:' + c, site(f),
                  'no ValueError found under the condition %s as written' % c)


def _interp_ok(repo, rep, rule_fn):
  """is the interpretive rule that decides the same behaviour derived?"""
  from ..report import Report
  tmp = Report(rep.pid)
  try:
    rule_fn(repo, tmp)
  except Exception:
    return False
  return bool(tmp.obs) and all(o['status'] == 'derived' for o in tmp.obs)


def rule_scml_basis_table(repo, rep):
  Rt = 'R-TABLE:scml-basis-options'
  rep.rule(Rt, "each value in a class's _authorized_basis is dispatched to a "
           'basis generator; other strings raise ValueError')
  for cname in ('SCML', 'SCML_Supervised'):
    c = repo.get_class(cname)
    _, expr = repo.class_attr(c, '_authorized_basis')
    dom = TagDomain()
    eng = Engine(repo, dom, self_cls=c)
    fake = repo.resolve_method(c, '_initialize_basis')
    auth = eng.load_attr(eng.make_self(c), '_authorized_basis', fake.node,
                         State({}, dom.aux_init()), fake)
    if auth.elts is None:
      rep.unknown(Rt, cname + '._authorized_basis', site(fake),
                  'option list is not a literal')
      continue
    vals = [x.const() for x in auth.elts]
    documented = ['triplet_diffs'] + (['lda'] if cname == 'SCML_Supervised'
                                      else [])
    if sorted(vals) != sorted(documented):
      rep.refuted(Rt, cname + '._authorized_basis', site(fake),
                  'authorised basis options %s, documented %s'
                  % (vals, documented))
    for opt in documented + ['bogus']:
      key = '%s.basis=%s' % (cname, opt)
      dom = TagDomain()
      dom.fork = True
      eng = Engine(repo, dom, self_cls=c)
      st0 = State({('self', 'basis'): cvt(opt)}, dom.aux_init())
      ok = None
      if cname == 'SCML_Supervised':
        f1 = repo.resolve_method(c, '_initialize_basis_supervised')
        fl = eng.run(f1, state=st0)
        nonnull = [v for (v, s, nd) in fl.returns
                   if v.elts is not None and not (
                       v.elts[0].c is not NOCONST and
                       v.elts[0].const() is None)]
        if opt == 'lda':
          ok = bool(nonnull) and len(nonnull) == len(fl.returns)
          rep.add(Rt, key, 'derived' if ok else 'refuted', site(f1),
                  '' if ok else "basis='lda' does not yield an LDA basis")
          continue
        if nonnull:
          rep.refuted(Rt, key, site(f1), 'supervised basis generated for %r'
                      % opt)
          continue
      f2 = repo.resolve_method(c, '_initialize_basis')
      dom = TagDomain()
      dom.fork = True
      eng = Engine(repo, dom, self_cls=c)
      st0 = State({('self', 'basis'): cvt(opt)}, dom.aux_init())
      fl = eng.run(f2, state=st0)
      unbound = [s for (v, s, nd) in fl.returns
                 if any(isinstance(k, tuple) and k[0] == '?unbound'
                        for k in s.vars)]
      if opt == 'bogus':
        good = not fl.returns and all('ValueError' in n
                                      for (n, s, nd) in fl.raises)
        rep.add(Rt, key, 'derived' if good else 'refuted', site(f2),
                '' if good else 'unknown basis option is not rejected with '
                'ValueError')
      else:
        good = bool(fl.returns) and not unbound and not dom_unbound(dom)
        rep.add(Rt, key, 'derived' if good else 'refuted', site(f2),
                '' if good else 'basis option %r is accepted but not '
                'dispatched to a generator' % opt)


def dom_unbound(dom):
  return [e for e in dom.events if e[0] == 'unbound']


def rule_default_tolerance(repo, rep):
  """Sibling agreement: the definiteness test and the pseudo-inverse cut the
  spectrum at the same default level, so that a matrix accepted as strictly
  definite is inverted on its whole spectrum (and a singular one is pseudo-
  inverted on exactly the part the test called non-zero)."""
  from ..model import canon
  from ..ratfunc import Rat, eval_expr
  R = 'R-SIBLING:default-eigenvalue-tolerance'
  rep.rule(R, 'the default tolerance of _check_sdp_from_eigen and of '
           '_pseudo_inverse_from_eig is the documented rank-style level '
           'max|w| * len(w) * eps(dtype of w), the same in both')
  want = Rat.sym('wmax') * Rat.sym('n') * Rat.sym('eps')
  n_found = 0
  for key in ('_util._check_sdp_from_eigen', '_util._pseudo_inverse_from_eig'):
    h = repo.get_func(key)
    rep.analysed(h)
    wname = h.params()[0]

    def dn(e):
      d = repo.dotted(h.module, e)
      return canon(d) if d else None

    def is_w(e):
      return isinstance(e, ast.Name) and e.id == wname

    def is_absw(e):
      return isinstance(e, ast.Call) and len(e.args) == 1 and is_w(e.args[0]) \
          and not e.keywords and (
              (isinstance(e.func, ast.Name) and e.func.id == 'abs') or
              dn(e.func) in (canon('numpy.abs'), canon('numpy.absolute'),
                             canon('numpy.fabs')))

    def maxof(e):
      """max(...) in function or method form -> the argument"""
      if isinstance(e, ast.Call) and not e.keywords:
        if isinstance(e.func, ast.Attribute) and e.func.attr == 'max' and \
                not e.args and dn(e.func) is None:
          return e.func.value
        if len(e.args) == 1 and (
                (isinstance(e.func, ast.Name) and e.func.id == 'max') or
                dn(e.func) in (canon('numpy.max'), canon('numpy.amax'))):
          return e.args[0]
      return None

    def atom(e):
      m = maxof(e)
      if m is not None:
        # the spectrum handed to both functions is that of a matrix already
        # tested or about to be tested for eigenvalues below -tol, so max(w)
        # and max|w| name the same magnitude
        if is_w(m) or is_absw(m):
          return 'wmax'
        if isinstance(m, ast.Attribute) and m.attr == 'shape' and \
                is_w(m.value):
          return 'n'
      if isinstance(e, ast.Call) and isinstance(e.func, ast.Name) and \
              e.func.id == 'len' and len(e.args) == 1 and is_w(e.args[0]):
        return 'n'
      if isinstance(e, ast.Attribute) and e.attr == 'size' and is_w(e.value):
        return 'n'
      if isinstance(e, ast.Subscript) and \
              isinstance(e.value, ast.Attribute) and e.value.attr == 'shape' \
              and is_w(e.value.value) and \
              isinstance(e.slice, ast.Constant) and e.slice.value in (0, -1):
        return 'n'
      if isinstance(e, ast.Attribute) and e.attr == 'eps' and \
              isinstance(e.value, ast.Call) and \
              dn(e.value.func) == canon('numpy.finfo') and \
              len(e.value.args) == 1 and \
              ast.unparse(e.value.args[0]) in (wname + '.dtype',):
        return 'eps'
      return None

    def ev(e):
      a = atom(e)
      if a is not None:
        return Rat.sym(a)
      if isinstance(e, ast.BinOp) and isinstance(e.op, (ast.Mult, ast.Div)):
        l, r = ev(e.left), ev(e.right)
        if l is None or r is None:
          return None
        return l * r if isinstance(e.op, ast.Mult) else (
            None if r.is_zero() else l / r)
      if isinstance(e, ast.Constant) and isinstance(e.value, (int, float)) \
              and not isinstance(e.value, bool):
        return Rat.const(Fraction(e.value).limit_denominator(10 ** 12))
      return None

    for n_ in ast.walk(h.node):
      if isinstance(n_, ast.Assign) and \
              ast.unparse(n_.targets[0]) == 'tol':
        n_found += 1
        v = ev(n_.value)
        if v is None:
          rep.unknown(R, key, site(h, n_), 'default tolerance %s is not a '
                      'product of recognised factors' % ast.unparse(n_.value))
        elif v == want:
          rep.derived(R, key, site(h, n_),
                      sample=dict(rule=R, function=key, form=repr(v)))
        else:
          rep.refuted(R, key, site(h, n_), 'default tolerance is %r, '
                      'documented %r: the definiteness test and the '
                      'pseudo-inverse no longer cut the spectrum at the same '
                      'level' % (v, want))
  rep.floor('default tolerance assignments', n_found, 2)


def check(repo, rep, tier):
  rule_components_from_metric(repo, rep)
  rule_default_tolerance(repo, rep)
  rule_metric_init(repo, rep)
  rule_strict_sites(repo, rep)
  rule_prior_inputs(repo, rep)
  rule_components_init(repo, rep)
  rule_scml_basis_table(repo, rep)
  from . import c20b
  c20b.rule_psd_test(repo, rep)
  c20b.rule_pinv_spectrum(repo, rep)
  c20b.rule_metric_init_table(repo, rep)
  c20b.rule_components_init_table(repo, rep)
  c20b.rule_sqrt_domain(repo, rep)
  c20b.rule_no_destructive_option(repo, rep)
  # an array prior / init holds the same numbers whatever its dtype
  from . import c06
  c06.rule_int_safe(repo, rep, only=('ITML', 'ITML_Supervised', 'LSML',
                                     'LSML_Supervised', 'SDML',
                                     'SDML_Supervised', 'MMC',
                                     'MMC_Supervised'))
