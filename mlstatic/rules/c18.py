"""C18 - constructor parameters round-trip; NotFittedError before use;
picklable state."""
import ast
from ..model import FuncInfo
from ..engine import Engine, V, NOCONST
from ..tags import TagDomain, EMPTY
from .common import site, methods_of, PUBLIC_METHODS
from ..model import canon

CHECK_IS_FITTED = canon('sklearn.utils.validation.check_is_fitted')

GUARDED_METHODS = ['transform', 'pair_distance', 'pair_score', 'score_pairs',
                   'predict', 'decision_function', 'score', 'get_metric',
                   'get_mahalanobis_matrix', 'set_threshold',
                   'calibrate_threshold']


class InitDomain(TagDomain):
  """Fork mode: every path through __init__ keeps object identities."""
  fork = True
  max_states = 64

  def param(self, func, name, index):
    return frozenset([('from', name)])


def rule_ctor(repo, rep, only=None):
  R = 'R-FLOW:ctor-param-stored'
  rep.rule(R, 'on every path of __init__ (through the base constructors '
           'along the MRO) self.<p> is the very object passed as parameter '
           'p; the only deviation accepted is the deprecated-alias idiom: '
           'the replacement may be taken from an alias whose default is '
           "'deprecated', on a path that emits FutureWarning, and the alias "
           "attribute itself is the constant 'deprecated'")
  R2 = 'R-EFFECT:ctor-no-fitted-state'
  rep.rule(R2, '__init__ stores no attribute ending in "_" (fitted state)')
  npairs = 0
  for c in repo.estimators():
    if only is not None and c.name not in only:
      continue
    f = repo.resolve_method(c, '__init__')
    if not isinstance(f, FuncInfo):
      rep.unknown(R, c.name + '.__init__', '', 'no repo __init__')
      continue
    params = repo.init_params(c)
    defaults = f.defaults()
    aliases = [p for p in params if p in defaults and
               isinstance(defaults[p], ast.Constant) and
               defaults[p].value == 'deprecated']
    dom = InitDomain()
    eng = Engine(repo, dom, self_cls=c)
    entry = {p: V(frozenset([('from', p)]), origin=('param', p))
             for p in params}
    flow = eng.run(f, args=dict(entry))
    rep.analysed(f)
    if not flow.returns:
      rep.refuted(R, c.name + '.__init__', site(f), 'no normal exit')
      continue
    for p in params:
      npairs += 1
      key = '%s.%s' % (c.name, p)
      verdict, detail = 'derived', ''
      for (_, st, node) in flow.returns:
        cur = st.vars.get(('self', p))
        if p in aliases:
          if cur is None or cur.const() != 'deprecated':
            verdict, detail = 'refuted', (
                "deprecated alias attribute self.%s is not the constant "
                "'deprecated' on a path" % p)
          continue
        if cur is None or ('?unbound', ('self', p)) in st.vars:
          verdict, detail = 'refuted', (
              'parameter %s is not stored as self.%s on a path through '
              '__init__' % (p, p))
          break
        if cur is entry[p] or cur.origin == ('param', p):
          continue
        alias_src = [a for a in aliases if cur is entry[a] or
                     cur.origin == ('param', a)]
        if alias_src:
          a = alias_src[0]
          must = dom.must(st)
          supplied = 'deprecated' in (cur.nc or ()) and not (
              cur.c is not NOCONST and 'deprecated' in cur.c)
          if not supplied:
            verdict, detail = 'refuted', (
                'self.%s is taken from the alias %s on a path where the '
                'alias was not supplied (it may still be the placeholder '
                "'deprecated'): the value passed as %s is lost" % (p, a, p))
            break
          if ('warn', 'FutureWarning') in must:
            continue
          verdict, detail = 'refuted', (
              'self.%s taken from alias %s without FutureWarning' % (p, a))
          break
        src = sorted(t[1] for t in (cur.d or EMPTY) if t[0] == 'from')
        if cur.c is not NOCONST and not src:
          detail = ('self.%s holds the constant %s, not the parameter (not '
                    'forwarded to the base constructor?)' % (
                        p, sorted(map(repr, cur.c))))
        elif src == [p]:
          detail = ('self.%s holds a value computed from parameter %s, not '
                    'the object itself' % (p, p))
        else:
          detail = 'self.%s holds a value derived from %s' % (p, src or '?')
        verdict = 'refuted'
        break
      rep.add(R, key, verdict, site(f), detail,
              sample=dict(rule=R, estimator=c.name, parameter=p,
                          paths=len(flow.returns), result=verdict)
              if npairs in (1, 50) else None)
    # every deprecated alias maps onto a replacement when it is supplied
    Ra = 'R-FLOW:deprecated-alias-mapped'
    rep.rule(Ra, "for every deprecated alias some path of __init__ stores "
             "its value in a (non-alias) parameter attribute; by "
             "R-FLOW:ctor-param-stored that path is one where the alias was "
             "supplied and a FutureWarning is emitted")
    for a in aliases:
      key = '%s.%s' % (c.name, a)
      mapped = False
      for (_, st, node) in flow.returns:
        for p in params:
          cur = st.vars.get(('self', p))
          if p not in aliases and cur is not None and \
                  (cur.origin == ('param', a) or cur is entry[a]):
            mapped = True
      if mapped:
        rep.derived(Ra, key, site(f))
      else:
        rep.refuted(Ra, key, site(f), 'no path of __init__ stores the value '
                    'of the deprecated alias %s in a parameter attribute: '
                    'the alias is silently ignored' % a)
    bad = set()
    for (_, st, node) in flow.returns:
      for ev in dom.may(st):
        if ev[0] == 'store' and ev[1] == 'self' and ev[2].endswith('_') \
                and not ev[2].startswith('__'):
          bad.add(ev[2])
    if bad:
      rep.refuted(R2, c.name + '.__init__', site(f),
                  '__init__ assigns fitted attribute(s) %s' % sorted(bad))
    else:
      rep.derived(R2, c.name + '.__init__', site(f))
  rep.floor('(estimator, constructor parameter) pairs', npairs,
            120 if only is None else 40)


class GuardDomain(TagDomain):
  """Reads of not-yet-assigned fitted attributes must be dominated by a
  fitted-state guard naming that attribute."""

  def __init__(self):
    super().__init__()
    self.reads = []      # (attr, guarded, site)
    self.stored_callables = []

  def _names(self, v):
    if v is None:
      return ['*']
    if isinstance(v.const(), str):
      return [v.const()]
    if v.elts is not None and all(isinstance(x.const(), str) for x in v.elts):
      return [x.const() for x in v.elts]
    return None

  def on_call(self, kind, target, args, kwargs, node, st):
    super().on_call(kind, target, args, kwargs, node, st)
    if kind == 'ext' and target == CHECK_IS_FITTED:
      if args and args[0].obj is not None and args[0].obj.oid == 'self':
        names = self._names(kwargs.get('attributes') or
                            (args[1] if len(args) > 1 else None))
        for n in names or []:
          self.event(st, ('fitted-checked', n))

  def on_branch(self, test, val, taken, node, st):
    # "attr" [not] in vars(self)   (pairs predict guards threshold_ this way)
    if isinstance(test, ast.Compare) and len(test.ops) == 1 and \
            isinstance(test.ops[0], (ast.In, ast.NotIn)) and \
            isinstance(test.left, ast.Constant) and \
            isinstance(test.left.value, str):
      r = test.comparators[0]
      if isinstance(r, ast.Call) and isinstance(r.func, ast.Name) and \
              r.func.id == 'vars' and len(r.args) == 1 and \
              isinstance(r.args[0], ast.Name) and r.args[0].id == 'self':
        present = taken if isinstance(test.ops[0], ast.In) else not taken
        if present:
          self.event(st, ('fitted-checked', test.left.value))
    if isinstance(test, ast.Call) and isinstance(test.func, ast.Name) and \
            test.func.id == 'hasattr' and len(test.args) == 2 and \
            isinstance(test.args[1], ast.Constant) and taken:
      self.event(st, ('fitted-checked', test.args[1].value))

  def fitted_read(self, cls, name, node, st):
    if name.endswith('_') and not name.startswith('_'):
      must = self.must(st)
      ok = ('fitted-checked', name) in must or ('fitted-checked', '*') in must
      self.reads.append((name, ok, self.site(node)))
    return EMPTY

  def on_store_attr(self, objv, attr, val, node, st):
    super().on_store_attr(objv, attr, val, node, st)
    if objv.obj is not None and objv.obj.oid == 'self' and val.fn is not None \
            and val.fn[0] in ('closure', 'lambda'):
      self.stored_callables.append((attr, self.site(node)))


def rule_guards(repo, rep):
  R = 'R-DOM:fitted-guard'
  rep.rule(R, 'in every query method every read of a fitted attribute is '
           'dominated by check_is_fitted(self, <that attribute>) (or the '
           '"threshold_" in vars(self) guard), directly or in the callee '
           'that performs the read')
  R4 = 'R-EFFECT:picklable-state'
  rep.rule(R4, 'no method stores a nested function or lambda on self')
  n = 0
  for c in repo.estimators():
    for name, f in methods_of(repo, c, GUARDED_METHODS + ['fit']):
      dom = GuardDomain()
      eng = Engine(repo, dom, self_cls=c)
      eng.run(f)
      rep.analysed(f)
      key = '%s.%s' % (c.name, name)
      if name != 'fit':
        n += 1
        bad = [(a, s) for (a, ok, s) in dom.reads if not ok]
        if bad:
          a, s = bad[0]
          rep.refuted(R, key + ':' + a, s,
                      'self.%s is read without a preceding fitted-state '
                      'check naming it (NotFittedError would not be raised)'
                      % a)
        else:
          rep.derived(R, key, site(f),
                      sample=dict(rule=R, method=key,
                                  guarded_reads=sorted(set(a for a, _, _
                                                           in dom.reads)))
                      if n == 1 else None)
      if dom.stored_callables:
        a, s = dom.stored_callables[0]
        rep.refuted(R4, key + ':' + a, s,
                    'a nested function / lambda is stored as self.%s '
                    '(not picklable)' % a)
      else:
        rep.derived(R4, key, site(f))
  rep.floor('query methods checked for fitted guards', n, 100)


def check(repo, rep, tier):
  rule_ctor(repo, rep)
  rule_guards(repo, rep)
  from . import c17
  c17.rule_no_hyper_writes(repo, rep)
  # set_params then fit must use the new values: fit reads no state left by
  # an earlier fit and re-assigns preprocessor_ unconditionally (typestate
  # rules of C17)
  c17.rule_history(repo, rep)
