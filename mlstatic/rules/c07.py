"""C07 - constraints generated from labels respect the labels (index frames,
unknown-label exclusion, pair relation, no repeats, chunk disjointness, RNG)."""
import ast
from ..model import FuncInfo
from ..engine import Engine, V, State, NOCONST
from ..frame import FrameDomain, is_idx, FULL, KNOWN
from .. import astutil
from .common import site
from . import c17, c07b


def cst(v):
  return V(None, c=frozenset([v]))


def idx_ok(d):
  return is_idx(d) and d[1] == FULL and 'known' in d[3]


def describe(d):
  if is_idx(d):
    return 'indices whose values are positions in frame %s (restricted to %s)' \
        % (d[1], sorted(d[3]) or 'nothing')
  return 'a value of unknown index provenance'


def run_method(repo, cls, name, args=None):
  f = cls.methods.get(name)
  if f is None:
    return None, None, None
  dom = FrameDomain()
  eng = Engine(repo, dom, self_cls=cls)
  flow = eng.run(f, args=args or {})
  return f, dom, flow


def rule_frames(repo, rep):
  R = 'FRAME:returned-indices-in-caller-frame'
  rep.rule(R, 'every index array returned by positive_negative_pairs / '
           '_pairs / generate_knntriplets is typed "values = positions in '
           'the caller\'s array, restricted to points with a known label": '
           'where(mask) yields values in the mask\'s frame, A[mask] / A[idx] '
           'creates a sub-frame, idx[rel] and np.take compose, kneighbors '
           'yields positions in the fitted array, randint(len(A)) positions '
           'in A')
  R2 = 'FRAME:pair-relation'
  rep.rule(R2, '_pairs adds (a, b) with label[a] == label[b] and a != b '
           '(self position cleared from the candidate mask) under '
           'same_label=True, and label[a] != label[b] under False')
  cons = repo.get_class('Constraints')
  rng = V(('rng',))
  n = 0
  # _pairs under both flag values
  for same in (True, False):
    f, dom, flow = run_method(repo, cons, '_pairs', {
        'same_label': cst(same), 'random_state': rng})
    if f is None:
      rep.unknown(R, 'Constraints._pairs', '', 'method vanished')
      continue
    rep.analysed(f)
    key = 'Constraints._pairs(same_label=%s)' % same
    for (v, st, node) in flow.returns:
      n += 1
      if idx_ok(v.d):
        rep.derived(R, key, site(f, node),
                    sample=dict(rule=R, function=key, returned=describe(v.d)))
      elif is_idx(v.d):
        rep.refuted(R, key, site(f, node), 'returns ' + describe(v.d))
      else:
        rep.unknown(R, key, site(f, node), 'returns ' + describe(v.d))
    want = 'eq-noself' if same else 'ne'
    if not dom.pairs_added:
      rep.unknown(R2, key, site(f), 'no pair accumulation found')
    for (rel, s) in dom.pairs_added:
      if rel == want:
        rep.derived(R2, key, s)
      elif rel is None:
        rep.unknown(R2, key, s, 'relation of the added pair not derivable')
      else:
        rep.refuted(R2, key, s, 'pairs added with relation %r, documented %r'
                    % (rel, want))
  # public generators
  f, dom, flow = run_method(repo, cons, 'positive_negative_pairs',
                            {'random_state': V(None)})
  if f is not None:
    rep.analysed(f)
    for (v, st, node) in flow.returns:
      elts = v.elts
      if elts is None or len(elts) != 4:
        rep.unknown(R, 'Constraints.positive_negative_pairs', site(f, node),
                    'return value is not a 4-tuple')
        continue
      for i, e in enumerate(elts):
        n += 1
        key = 'Constraints.positive_negative_pairs[%s]' % 'abcd'[i]
        if idx_ok(e.d):
          rep.derived(R, key, site(f, node))
        elif is_idx(e.d):
          rep.refuted(R, key, site(f, node), 'returns ' + describe(e.d))
        else:
          rep.unknown(R, key, site(f, node), 'returns ' + describe(e.d))
  f, dom, flow = run_method(repo, cons, 'generate_knntriplets',
                            {'X': V(('arr', FULL))})
  if f is not None:
    rep.analysed(f)
    key = 'Constraints.generate_knntriplets'
    Rq = 'FRAME:genuine-neighbours-exclude-self'
    rep.rule(Rq, 'no neighbour search queries the fitted point set against '
             'itself with an explicit X (each point would be its own '
             'neighbour; only the X-less kneighbors query excludes it)')
    sq = [e for e in dom.events if e[0] == 'self-query']
    if sq:
      rep.refuted(Rq, key, sq[0][1], 'the same-class neighbours are searched '
                  'by querying the fitted set against itself: a point is '
                  'returned as its own neighbour (with duplicated points not '
                  'necessarily first)')
    else:
      rep.derived(Rq, key, site(f))
    for (v, st, node) in flow.returns:
      n += 1
      if idx_ok(v.d):
        rep.derived(R, key, site(f, node),
                    sample=dict(rule=R, function=key, returned=describe(v.d)))
      elif is_idx(v.d):
        rep.refuted(R, key, site(f, node), 'returns ' + describe(v.d) +
                    ' - not indices into the caller\'s array')
      else:
        rep.unknown(R, key, site(f, node), 'returns ' + describe(v.d))
  rep.floor('returned index arrays typed', n, 7)


def rule_chunks(repo, rep, interp=None):
  R = 'FRAME:chunks-assigned-to-known-points'
  rep.rule(R, 'chunks() writes a chunk id only at positions of the caller\'s '
           'array that carry a known label; the returned array is laid out '
           'over the caller\'s frame')
  cons = repo.get_class('Constraints')
  f, dom, flow = run_method(repo, cons, 'chunks', {'random_state': V(None)})
  if f is None:
    rep.unknown(R, 'Constraints.chunks', '', 'method vanished')
    return
  rep.analysed(f)
  if not dom.stores:
    rep.unknown(R, 'Constraints.chunks', site(f), 'no store into the chunk '
                'array found')
  for (target, iv, s) in dom.stores:
    if target == ('arr', FULL) and idx_ok(iv):
      rep.derived(R, 'Constraints.chunks:store', s)
    elif target == ('arr', FULL) and is_idx(iv) and iv[1] == FULL and \
            'class' in iv[3] and (interp or {}).get('one-class') == 'derived':
      # positions of one class of the caller's array; that the class is a
      # known one is not visible to the frame typing here and is decided by
      # R-INTERP:chunks (one-class) on layouts with unlabelled points
      rep.derived(R, 'Constraints.chunks:store', s)
    elif target == ('arr', FULL) and is_idx(iv) and iv[1] == FULL and \
            'class' in iv[3] and (interp or {}).get('one-class') != 'refuted':
      # one class of the caller's array, but neither the frame typing nor
      # the interpretation could tell that the class is a labelled one
      rep.unknown(R, 'Constraints.chunks:store', s, 'chunk ids are written '
                  'at ' + describe(iv) + ': that the class is a labelled one '
                  'is not derivable')
    elif is_idx(iv):
      rep.refuted(R, 'Constraints.chunks:store', s, 'chunk ids are written '
                  'at ' + describe(iv))
    else:
      rep.unknown(R, 'Constraints.chunks:store', s, 'index provenance of the '
                  'store not derivable')
  for (v, st, node) in flow.returns:
    if v.d == ('arr', FULL):
      rep.derived(R, 'Constraints.chunks:return', site(f, node))
    else:
      rep.refuted(R, 'Constraints.chunks:return', site(f, node),
                  'returned array is not laid out over the caller\'s frame')


def rule_structure(repo, rep):
  R = 'R-FORM:pairs-no-repeat-limit-warning'
  rep.rule(R, '_pairs accumulates ordered tuples in a set, returns a prefix '
           'of at most n_constraints of them, and warns on every path with '
           'fewer; positive_negative_pairs truncates all four arrays to one '
           'common length under same_length')
  cons = repo.get_class('Constraints')
  f = cons.methods.get('_pairs')
  if f is None:
    rep.unknown(R, 'Constraints._pairs', '', 'method vanished')
    return
  adds = [c for c in astutil.calls_in(f.node)
          if isinstance(c.func, ast.Attribute) and c.func.attr in
          ('add', 'append', 'update', 'extend')]
  acc = adds[0].func.value.id if adds and isinstance(adds[0].func.value,
                                                     ast.Name) else None
  init = None
  for n in ast.walk(f.node):
    if isinstance(n, ast.Assign) and isinstance(n.targets[0], ast.Name) and \
            n.targets[0].id == acc:
      init = n.value
      break
  if acc is None or init is None:
    rep.unknown(R, 'Constraints._pairs:accumulator', site(f),
                'accumulator not recognised')
  elif ast.unparse(init) == 'set()' and adds[0].func.attr == 'add':
    rep.derived(R, 'Constraints._pairs:accumulator', site(f, adds[0]))
  else:
    rep.refuted(R, 'Constraints._pairs:accumulator', site(f, adds[0]),
                'pairs are accumulated in %s via .%s(): repetitions are '
                'possible' % (ast.unparse(init), adds[0].func.attr))
  warns = [c for c in astutil.calls_in(f.node)
           if repo.dotted(f.module, c.func) == 'warnings.warn']
  okw = any('len(%s) < n_constraints' % acc in
            astutil.path_condition(f.node, w) for w in warns)
  rep.add(R, 'Constraints._pairs:warning', 'derived' if okw else 'refuted',
          site(f), '' if okw else 'no warning under len(%s) < n_constraints'
          % acc)
  sl = [n for n in ast.walk(f.node) if isinstance(n, ast.Subscript) and
        isinstance(n.slice, ast.Slice) and n.slice.lower is None and
        n.slice.upper is not None and
        ast.unparse(n.slice.upper) == 'n_constraints']
  rep.add(R, 'Constraints._pairs:limit', 'derived' if sl else 'refuted',
          site(f), '' if sl else 'result is not limited to n_constraints')
  g = cons.methods.get('positive_negative_pairs')
  # with same_length=True every return hands out four arrays of one length:
  # all four cut at one common bound, or untouched on a path where the two
  # kinds are already equally many
  ok, why = True, ''
  n_ret = 0
  for (r, conds) in astutil.return_paths(g.node.body, {'same_length': True}):
    if r is None or not (isinstance(r.value, ast.Tuple) and
                         len(r.value.elts) == 4):
      ok, why = False, 'a path does not return the four index arrays'
      continue
    n_ret += 1
    uppers = set()
    for e in r.value.elts:
      if isinstance(e, ast.Subscript) and isinstance(e.slice, ast.Slice) \
              and e.slice.lower is None and e.slice.upper is not None:
        uppers.add(ast.unparse(e.slice.upper))
      else:
        uppers.add('?' + ast.unparse(e))
    cut = len(uppers) == 1 and not next(iter(uppers)).startswith('?')
    names = [ast.unparse(e) for e in r.value.elts]
    equal = any((t in ('len(%s) != len(%s)' % (names[0], names[2]),
                       'len(%s) != len(%s)' % (names[2], names[0])) and
                 not pol) or
                (t in ('len(%s) == len(%s)' % (names[0], names[2]),
                       'len(%s) == len(%s)' % (names[2], names[0])) and pol)
                for (t, pol) in conds)
    if not (cut or equal):
      ok = False
      why = 'under same_length a path returns %s (conditions %s): not cut ' \
            'to one common length' % (ast.unparse(r.value), conds)
  if n_ret == 0:
    ok, why = False, 'no return of four arrays found'
  rep.add(R, 'Constraints.positive_negative_pairs:same_length',
          'derived' if ok else 'refuted', site(g), why)


def check(repo, rep, tier):
  rule_frames(repo, rep)
  interp = c07b.rule_chunks_interp(repo, rep)
  rule_chunks(repo, rep, interp)
  c07b.rule_knn(repo, rep)
  c07b.rule_comb(repo, rep)
  c07b.rule_wrap_pairs(repo, rep)
  c07b.rule_pairs_interp(repo, rep)
  c07b.rule_pos_neg_interp(repo, rep)
  c17.rule_rng(repo, rep, only_constraints=True)
