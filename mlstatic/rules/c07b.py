"""C07, second part: the bookkeeping of generate_knntriplets / comb / chunks,
decided by interpreting the functions on representative class layouts
(minterp): which points are searched for whose neighbours, how many, where
the combinations are written, which pool a chunk is drawn from."""
import ast
from ..minterp import Interp, World, Undecided, Raised, Arr, runs
from .. import miniarr
from ..miniarr import MArr
from .common import site


class S:
  """symbolic value: a tag and arguments (not a tuple: Python tuples are
  sequences for the interpreter)"""
  __slots__ = ('t',)

  def __init__(self, *t):
    self.t = tuple(t)

  def __getitem__(self, i):
    return self.t[i]

  def __eq__(self, o):
    return isinstance(o, S) and self.t == o.t

  def __ne__(self, o):
    return not self.__eq__(o)

  def __hash__(self):
    return hash(self.t)

  def __repr__(self):
    return '<%s>' % ' '.join(str(x) for x in self.t)


def tg(v):
  return v.t[0] if isinstance(v, S) and v.t else None


def _unwrap(v):
  """np.where(mask) gives a 1-tuple; as an index it means its element"""
  if isinstance(v, tuple) and len(v) == 1:
    return v[0]
  return v


def _short(d):
  return d.rsplit('.', 1)[-1]


# ------------------------------------------------------------------ k-NN
class _KnnWorld(World):
  def __init__(self, counts):
    self.counts = list(counts)
    self.N = sum(counts)
    self.labels = [S('lab', i) for i in range(len(counts))]
    self.trips = {}
    self.nn = {}
    self.notes = []

  def size_of(self, pts):
    if pts == S('Xk'):
      return self.N
    if pts[0] == 'pts':
      c = self.counts[pts[1]]
      return c if pts[2] else self.N - c
    return None

  def attr(self, it, v, attr, node):
    if v == S('self') and attr == 'partial_labels':
      return S('pl')
    if attr == 'shape':
      if v in (S('klabels'), S('kidx')):
        return (self.N,)
      if v == S('Xk'):
        return (self.N, S('d'))
      if tg(v) == 'trip':
        return (self.trips[v[1]]['n'], 3)
    if attr == 'size' and v in (S('klabels'), S('kidx')):
      return self.N
    if attr == 'intp' or attr in ('int64', 'int32', 'int_'):
      return S('dtype')
    return NotImplemented

  def compare(self, it, op, a, b, node):
    if a == S('pl') and isinstance(b, int):
      if (isinstance(op, ast.GtE) and b == 0) or \
              (isinstance(op, ast.Gt) and b == -1):
        return S('kmask')
      if (isinstance(op, ast.Lt) and b == 0) or \
              (isinstance(op, ast.LtE) and b == -1):
        return S('umask')
    if b == S('pl') and isinstance(a, int):
      if (isinstance(op, ast.LtE) and a == 0) or \
              (isinstance(op, ast.Lt) and a == -1):
        return S('kmask')
      if (isinstance(op, ast.Gt) and a == 0) or \
              (isinstance(op, ast.GtE) and a == -1):
        return S('umask')
    for x, y in ((a, b), (b, a)):
      if x == S('klabels') and tg(y) == 'lab':
        if isinstance(op, ast.Eq):
          return S('cmask', y[1], True)
        if isinstance(op, ast.NotEq):
          return S('cmask', y[1], False)
    return NotImplemented

  def unary(self, it, op, v, node):
    if isinstance(op, ast.Invert):
      if tg(v) == 'cmask':
        return S('cmask', v[1], not v[2])
      if v == S('umask'):
        return S('kmask')
      if v == S('kmask'):
        return S('umask')
    return NotImplemented

  def _idx_of(self, m):
    if m == S('kmask'):
      return S('kidx')
    if tg(m) == 'cmask':
      return S('cidx', m[1], m[2])
    return None

  def _take(self, idx, rel, node):
    idx = _unwrap(idx)
    if tg(rel) == 'rel' and \
            tg(idx) == 'cidx':
      if rel[1] == S('pts', idx[1], idx[2]):
        return S('abs', (idx[1], idx[2]), rel[2], rel[3])
      return S('abs-mismatch', idx, rel)
    return NotImplemented

  def subscript(self, it, base, idx, node):
    i1 = _unwrap(idx)
    if base in (S('pl'), S('X')) and i1 in (S('kmask'), S('kidx')):
      return S('klabels') if base == S('pl') else S('Xk')
    if base == S('X') and tg(i1) in S('cmask', 'cidx'):
      return S('pts-wrong-frame', i1)
    if base == S('Xk') and tg(i1) in S('cmask', 'cidx'):
      return S('pts', i1[1], i1[2])
    if base == S('kidx') and tg(i1) == 'trip':
      return S('result', i1[1])
    b1 = _unwrap(base)
    if tg(b1) == 'cidx':
      r = self._take(b1, idx, node)
      if r is not NotImplemented:
        return r
    return NotImplemented

  def store(self, it, base, idx, value, node):
    if tg(base) == 'trip':
      rows = idx[0] if isinstance(idx, tuple) else idx
      cols = idx[1] if isinstance(idx, tuple) and len(idx) > 1 else \
          slice(None)
      if isinstance(rows, slice) and rows.step is None and \
              cols == slice(None, None, None):
        self.trips[base[1]]['blocks'].append((rows.start or 0, rows.stop,
                                              value, node))
        return None
    return NotImplemented

  def call(self, it, d, recv, args, kwargs, node):
    if d.startswith('.'):
      meth = d[1:]
      if tg(recv) == 'NN':
        if meth == 'fit':
          X = kwargs.get('X', args[0] if args else None)
          self.nn[recv[1]] = X
          return recv
        if meth == 'kneighbors':
          X = kwargs.get('X', args[0] if args else None)
          k = kwargs.get('n_neighbors', args[1] if len(args) > 1 else 5)
          rd = kwargs.get('return_distance',
                          args[2] if len(args) > 2 else True)
          fitted = self.nn.get(recv[1])
          if fitted is None:
            raise Raised(['NotFittedError'], node)
          size = self.size_of(fitted)
          if not isinstance(k, int) or size is None:
            raise Undecided('neighbour query %r on %r' % (k, fitted))
          if X is not None and self.size_of(X) is None:
            raise Undecided('query points %r' % (X,))
          avail = size - 1 if X is None else size
          if k > avail or k <= 0:
            self.notes.append('kneighbors(n_neighbors=%d) on a set of %d '
                              'points%s' % (k, size, ' (self query)'
                                            if X is None else ''))
            raise Raised(['ValueError'], node)
          rel = S('rel', fitted, 'self' if X is None else X, k)
          return (S('dist'), rel) if rd else rel
      if meth == 'sum' and tg(recv):
        if recv[0] == 'cmask':
          c = self.counts[recv[1]]
          return c if recv[2] else self.N - c
        if recv == S('kmask'):
          return self.N
      if meth in ('astype', 'copy'):
        return recv
      return NotImplemented
    short = _short(d)
    if d.startswith('numpy.'):
      if short in ('where', 'nonzero') and len(args) == 1:
        i = self._idx_of(args[0])
        if i is not None:
          return (i,)
      if short == 'flatnonzero' and len(args) == 1:
        i = self._idx_of(args[0])
        if i is not None:
          return i
      if short == 'unique' and args and args[0] == S('klabels'):
        extra = set(kwargs) - {'return_counts'}
        if extra or len(args) > 1:
          raise Undecided('np.unique options %s' % sorted(kwargs))
        if kwargs.get('return_counts'):
          return (list(self.labels), Arr(self.counts))
        return list(self.labels)
      if short == 'take' and len(args) == 2 and not kwargs:
        if _unwrap(args[0]) == S('kidx') and tg(args[1]) == 'trip':
          return S('result', args[1][1])
        return self._take(args[0], args[1], node)
      if short in ('empty', 'zeros') and args and \
              isinstance(args[0], tuple) and len(args[0]) == 2 and \
              isinstance(args[0][0], int) and args[0][1] == 3:
        k = len(self.trips)
        self.trips[k] = dict(n=args[0][0], blocks=[])
        return S('trip', k)
      if short == 'count_nonzero' and len(args) == 1:
        return self.call(it, '.sum', args[0], [], {}, node)
      if short == 'full_like' and len(args) == 2 and \
              isinstance(args[0], list):
        return NotImplemented       # concrete: handled by the interpreter
    if short == 'NearestNeighbors' and 'sklearn' in d:
      k = len(self.nn)
      self.nn[k] = None
      return S('NN', k)
    if short == 'comb' and d.startswith('metric_learn'):
      if len(args) == 5 and not kwargs:
        return S('comb', *args)
    if d == 'len' and len(args) == 1:
      v = args[0]
      if v in (S('klabels'), S('kidx'), S('Xk')):
        return self.N
      if tg(v) in S('cidx', 'pts'):
        c = self.counts[v[1]]
        return c if v[2] else self.N - c
    return NotImplemented


def rule_knn(repo, rep):
  R = 'R-INTERP:knn-triplets'
  rep.rule(R, 'generate_knntriplets interpreted on representative class '
           'layouts (class sizes x k_genuine x k_impostor): for each class '
           'the genuine neighbours are the min(k_genuine, n_c - 1) nearest '
           'points of the same class (self excluded), the impostors the '
           'min(k_impostor, N - n_c) nearest points of the other classes of '
           'the class\'s own points, relative positions are mapped through '
           'the index array of the set that was searched, comb receives '
           '(anchors, genuine, impostors) with these counts, the classes '
           'fill consecutive disjoint slices of exactly n_c * k_g * k_i rows, '
           'no in-scope layout raises, and the result is mapped to the '
           'caller\'s frame')
  cons = repo.get_class('Constraints')
  f = cons.methods.get('generate_knntriplets')
  if f is None:
    rep.unknown(R, 'Constraints.generate_knntriplets', '', 'method vanished')
    return
  rep.analysed(f)
  layouts = [(2, 2), (2, 3, 5), (5, 2, 3), (3, 3), (2, 6)]
  ks = [(1, 1), (2, 1), (1, 3), (2, 3), (4, 2), (3, 6), (7, 9)]
  verdict = {}       # clause -> ('refuted'|'unknown', detail, node)

  def fail(clause, kind, detail, node=None):
    cur = verdict.get(clause)
    if cur is None or (cur[0] == 'unknown' and kind == 'refuted'):
      verdict[clause] = (kind, detail, node)
  nrun = 0
  clauses = ('no-raise', 'genuine', 'impostor', 'tuple-order', 'slots',
             'caller-frame')
  for counts in layouts:
    for (kg, ki) in ks:
      nrun += 1
      w = _KnnWorld(counts)
      it = Interp(repo, f, w)
      tag = 'class sizes %s, k_genuine=%d, k_impostor=%d' % (
          list(counts), kg, ki)
      try:
        out = it.run({'self': S('self'), 'X': S('X'), 'k_genuine': kg,
                      'k_impostor': ki})
      except Undecided as u:
        for c in clauses:
          fail(c, 'unknown', '%s (%s)' % (u, tag))
        continue
      if out[0] == 'raise':
        fail('no-raise', 'refuted', 'raises %s for %s%s' % (
            out[1][0], tag, ': ' + w.notes[-1] if w.notes else ''), out[2])
        continue
      res = out[1]
      if not (tg(res) == 'result'):
        if tg(res) == 'trip':
          fail('caller-frame', 'refuted', 'returns positions among the '
               'labelled points, not indices of the caller\'s array (%s)'
               % tag)
          res = S('result', res[1])
        else:
          fail('caller-frame', 'unknown', 'returns %r (%s)' % (res, tag))
          continue
      trip = w.trips[res[1]]
      blocks = sorted(trip['blocks'], key=lambda b: (b[0], b[1]))
      N = sum(counts)
      expect = {}
      for i, c in enumerate(counts):
        expect[i] = (min(kg, c - 1), min(ki, N - c))
      pos = 0
      seen = set()
      for (start, stop, val, node) in blocks:
        if not (tg(val) == 'comb'):
          fail('slots', 'unknown', 'a slice receives %r (%s)' % (val, tag),
               node)
          continue
        A, B, C, sB, sC = val[1:]
        A = _unwrap(A)
        if not (tg(A) == 'cidx'):
          fail('tuple-order', 'unknown', 'anchors %r (%s)' % (A, tag), node)
          continue
        if not A[2]:
          fail('tuple-order', 'refuted', 'the anchors of a block are the '
               'points outside the class (%s)' % tag, node)
          continue
        i = A[1]
        g, m = expect[i]
        seen.add(i)
        # genuine
        if tg(B) == 'abs' and \
                tg(C) == 'abs' and \
                B[1] == (i, False) and C[1] == (i, True):
          fail('tuple-order', 'refuted', 'comb receives the impostors in the '
               'genuine slot and the genuine neighbours in the impostor '
               'slot: triplets are (a, c, b) (%s)' % tag, node)
          continue
        if not (tg(B) == 'abs'):
          kind = 'refuted' if tg(B) in S('abs-mismatch', 'rel') else 'unknown'
          fail('genuine', kind, 'genuine neighbours are %s (%s)' % (
              'relative positions mapped through the wrong index array'
              if kind == 'refuted' and B[0] == 'abs-mismatch' else
              'relative positions, not indices' if kind == 'refuted'
              else repr(B), tag), node)
        else:
          if B[1] != (i, True):
            fail('genuine', 'refuted', 'genuine neighbours of class %d are '
                 'searched among %s (%s)' % (
                     i, 'the other classes' if B[1] == (i, False)
                     else 'class %d' % B[1][0], tag), node)
          elif B[2] != 'self':
            fail('genuine', 'refuted', 'genuine neighbours are found by '
                 'querying %r: a point is its own nearest neighbour (%s)'
                 % (B[2], tag), node)
          elif B[3] != g:
            fail('genuine', 'refuted', '%d genuine neighbours per point '
                 'instead of min(k_genuine, n_c - 1) = %d (%s)'
                 % (B[3], g, tag), node)
        if not (tg(C) == 'abs'):
          kind = 'refuted' if tg(C) in S('abs-mismatch', 'rel') else 'unknown'
          fail('impostor', kind, 'impostors are %s (%s)' % (
              'relative positions mapped through the wrong index array'
              if kind == 'refuted' and C[0] == 'abs-mismatch' else
              'relative positions, not indices' if kind == 'refuted'
              else repr(C), tag), node)
        else:
          if C[1] != (i, False):
            fail('impostor', 'refuted', 'impostors of class %d are searched '
                 'among %s (%s)' % (i, 'its own points' if C[1] == (i, True)
                                    else repr(C[1]), tag), node)
          elif C[2] != S('pts', i, True):
            fail('impostor', 'refuted', 'the impostor query is made for %r, '
                 'not for the points of class %d (%s)' % (C[2], i, tag),
                 node)
          elif C[3] != m:
            fail('impostor', 'refuted', '%d impostors per point instead of '
                 'min(k_impostor, N - n_c) = %d (%s)' % (C[3], m, tag), node)
        if tg(B) == 'abs' and \
                tg(C) == 'abs' and \
                (sB, sC) != (B[3], C[3]):
          fail('slots', 'refuted', 'comb is told (%r, %r) neighbours per '
               'point, the neighbour arrays have (%d, %d) (%s)'
               % (sB, sC, B[3], C[3], tag), node)
        size = counts[i] * g * m
        if start != pos or stop is None or stop - start != size:
          fail('slots', 'refuted', 'class %d fills rows %s:%s, its %d '
               'combinations belong to rows %d:%d (%s)'
               % (i, start, stop, size, pos, pos + size, tag), node)
        pos = (stop if isinstance(stop, int) else pos + size)
      if seen != set(range(len(counts))):
        fail('slots', 'refuted', 'classes %s contribute no triplets (%s)'
             % (sorted(set(range(len(counts))) - seen), tag))
      total = sum(counts[i] * expect[i][0] * expect[i][1]
                  for i in range(len(counts)))
      if trip['n'] != total:
        fail('slots', 'refuted', 'the output has %s rows for %d combinations '
             '(%s)' % (trip['n'], total, tag))
  for c in clauses:
    key = 'Constraints.generate_knntriplets:%s' % c
    v = verdict.get(c)
    if v is None:
      rep.derived(R, key, site(f), sample=dict(rule=R, clause=c,
                                               layouts=nrun))
    elif v[0] == 'refuted':
      rep.refuted(R, key, site(f, v[2]) if v[2] is not None else site(f),
                  v[1])
    else:
      rep.unknown(R, key, site(f, v[2]) if v[2] is not None else site(f),
                  v[1])
  rep.floor('knn layouts interpreted', nrun, 30)


# ------------------------------------------------------------------ comb
class _ArrWorld(World):
  """numpy re-arrangements on MArr values"""

  def attr(self, it, v, attr, node):
    if isinstance(v, MArr):
      if attr == 'T':
        return v.T()
      if attr == 'shape':
        return v.shape
      if attr == 'size':
        return len(v.flat)
    return NotImplemented

  def binop(self, it, op, a, b, node):
    if isinstance(a, MArr) and isinstance(b, int) and \
            isinstance(op, ast.Mult) and \
            all(isinstance(x, int) for x in a.flat):
      return MArr(a.shape, [x * b for x in a.flat])
    if isinstance(b, MArr) and isinstance(a, int) and \
            isinstance(op, ast.Mult) and \
            all(isinstance(x, int) for x in b.flat):
      return MArr(b.shape, [x * a for x in b.flat])
    return NotImplemented

  def unary(self, it, op, v, node):
    if isinstance(op, ast.USub) and isinstance(v, MArr) and \
            all(isinstance(x, int) for x in v.flat):
      return MArr(v.shape, [-x for x in v.flat])
    return NotImplemented

  def subscript(self, it, base, idx, node):
    if base == S('X') and isinstance(idx, MArr):
      return S('gather', idx)
    if isinstance(base, MArr) and isinstance(idx, int) and base.ndim >= 1:
      rows = base.rows()
      if -len(rows) <= idx < len(rows):
        r = rows[idx]
        return r if r.ndim else r.flat[0]
    return NotImplemented

  def iterate(self, it, v, node):
    if isinstance(v, MArr):
      rows = v.rows()
      return [r if r.ndim else r.flat[0] for r in rows]
    return NotImplemented

  def call(self, it, d, recv, args, kwargs, node):
    try:
      if d.startswith('.'):
        meth = d[1:]
        if isinstance(recv, MArr):
          if meth in ('ravel', 'flatten'):
            order = kwargs.get('order', args[0] if args else 'C')
            return recv.ravel(order)
          if meth == 'reshape':
            shp = args[0] if len(args) == 1 and isinstance(args[0], tuple) \
                else tuple(args)
            return recv.reshape(shp)
          if meth == 'transpose' and not args:
            return recv.T()
          if meth in ('copy', 'astype'):
            return recv
        return NotImplemented
      if not d.startswith('numpy.'):
        return NotImplemented
      short = _short(d)
      if short == 'tile' and len(args) == 2:
        return miniarr.tile(args[0], args[1])
      if short == 'repeat' and len(args) >= 2 and isinstance(args[1], int):
        return miniarr.repeat(args[0], args[1],
                              kwargs.get('axis', args[2] if len(args) > 2
                                         else None))
      if short == 'hstack' and len(args) == 1:
        return miniarr.hstack(args[0])
      if short == 'vstack' and len(args) == 1:
        return miniarr.vstack(args[0])
      if short == 'column_stack' and len(args) == 1:
        return miniarr.column_stack(args[0])
      if short == 'concatenate' and args:
        return miniarr.concatenate(args[0], kwargs.get(
            'axis', args[1] if len(args) > 1 else 0))
      if short in ('asarray', 'array') and args:
        return MArr.of(args[0])
      if short in ('ones_like', 'zeros_like', 'full_like') and args and \
              isinstance(args[0], MArr):
        fill = {'ones_like': 1, 'zeros_like': 0}.get(
            short, args[1] if len(args) > 1 else None)
        if isinstance(fill, int):
          return MArr(args[0].shape, [fill] * len(args[0].flat))
      if short in ('ones', 'zeros', 'full') and args:
        shp = args[0] if isinstance(args[0], tuple) else (args[0],)
        fill = {'ones': 1, 'zeros': 0}.get(
            short, args[1] if len(args) > 1 else None)
        if all(isinstance(x, int) for x in shp) and isinstance(fill, int):
          n = 1
          for x in shp:
            n *= x
          return MArr(shp, [fill] * n)
      if short == 'negative' and len(args) == 1:
        return self.unary(it, ast.USub(), args[0], node)
      if short in ('ravel',) and args:
        return MArr.of(args[0]).ravel(kwargs.get('order', 'C'))
      if short == 'transpose' and len(args) == 1:
        return MArr.of(args[0]).T()
    except miniarr.ShapeMismatch:
      raise Raised(['ValueError'], node)
    except (ValueError, TypeError, AssertionError, IndexError) as e:
      raise Undecided('array model: %s' % e)
    return NotImplemented


def rule_comb(repo, rep):
  R = 'R-INTERP:comb-all-combinations-once'
  rep.rule(R, 'constraints.comb(A, B, C, sizeB, sizeC), interpreted with a '
           'model of tile / ravel / hstack / vstack / .T on symbolic atoms '
           'for n in 1..3 anchors, sizeB in 1..3, sizeC in 1..3, returns '
           'exactly the rows (a_i, b_ij, c_il), each once')
  f = repo.get_func('constraints.comb')
  if f is None:
    rep.unknown(R, 'constraints.comb', '', 'function vanished')
    return
  rep.analysed(f)
  ps = f.params()
  if len(ps) != 5:
    rep.unknown(R, 'constraints.comb', site(f), 'signature %s' % ps)
    return
  bad = None
  unk = None
  n_ok = 0
  for n in (1, 2, 3):
    for sB in (1, 2, 3):
      for sC in (1, 2, 3):
        A = (MArr((n,), ['a%d' % i for i in range(n)]),)
        B = MArr((n, sB), ['b%d_%d' % (i, j) for i in range(n)
                           for j in range(sB)])
        C = MArr((n, sC), ['c%d_%d' % (i, j) for i in range(n)
                           for j in range(sC)])
        want = sorted(('a%d' % i, 'b%d_%d' % (i, j), 'c%d_%d' % (i, l))
                      for i in range(n) for j in range(sB)
                      for l in range(sC))
        it = Interp(repo, f, _ArrWorld())
        try:
          out = it.run(dict(zip(ps, (A, B, C, sB, sC))))
        except Undecided as u:
          unk = unk or '%s (n=%d, sizeB=%d, sizeC=%d)' % (u, n, sB, sC)
          continue
        if out[0] != 'return' or not isinstance(out[1], MArr):
          unk = unk or 'returns %r' % (out[1],)
          continue
        r = out[1]
        if r.ndim != 2 or r.shape[1] != 3:
          bad = bad or 'result of shape %s for n=%d, sizeB=%d, sizeC=%d ' \
              '(expected %d x 3)' % (r.shape, n, sB, sC, n * sB * sC)
          continue
        got = sorted(tuple(row.flat) for row in r.rows())
        if got != want:
          extra = [g for g in got if g not in want][:2]
          miss = [w_ for w_ in want if w_ not in got][:2]
          bad = bad or 'for n=%d, sizeB=%d, sizeC=%d the rows contain %s ' \
              'and lack %s' % (n, sB, sC, extra or 'repetitions', miss)
        else:
          n_ok += 1
  if bad:
    rep.refuted(R, 'constraints.comb', site(f), bad)
  elif unk:
    rep.unknown(R, 'constraints.comb', site(f), unk)
  else:
    rep.derived(R, 'constraints.comb', site(f),
                sample=dict(rule=R, shapes_checked=n_ok))


# ------------------------------------------------------------------ chunks
class _ChunkWorld(World):
  """layout: list of (count, known) in the order of np.unique (unknown,
  i.e. negative, labels first)"""

  def __init__(self, layout):
    self.layout = layout
    self.attrs = {}
    self.n = sum(c for c, _ in layout)
    self.pools = {}
    self.draws = []
    self.stores = []
    self.arrays = 0
    self.notes = []

  def attr(self, it, v, attr, node):
    if v == S('self') and attr in self.attrs:
      return self.attrs[attr]
    if v == S('self') and attr == 'partial_labels':
      return S('pl')
    if v == S('pl') and attr == 'shape':
      return (self.n,)
    return NotImplemented

  def setattr(self, it, obj, attr, value, node):
    if obj == S('self'):
      self.attrs[attr] = value
      return None
    return NotImplemented

  def subscript(self, it, base, idx, node):
    if base == S('uniq') and isinstance(idx, int) and \
            -len(self.layout) <= idx < len(self.layout):
      return S('label', idx % len(self.layout))
    if base == S('pl') and idx == S('kmask'):
      return S('klabels')
    return NotImplemented

  def compare(self, it, op, a, b, node):
    for x, y in ((a, b), (b, a)):
      if x == S('pl') and tg(y) == 'labv' and \
              isinstance(op, (ast.Eq, ast.NotEq)):
        return S('cmask', y[1], isinstance(op, ast.Eq))
    if a == S('uniq') and b == 0 and isinstance(op, (ast.Lt, ast.GtE)):
      neg = Arr((int(not k) for _, k in self.layout), mask=True)
      return neg if isinstance(op, ast.Lt) else Arr((1 - x for x in neg.xs),
                                                    mask=True)
    if a == S('uniq') and b == -1 and isinstance(op, (ast.LtE, ast.Gt)):
      neg = Arr((int(not k) for _, k in self.layout), mask=True)
      return neg if isinstance(op, ast.LtE) else Arr((1 - x for x in neg.xs),
                                                     mask=True)
    if tg(a) == 'label' and isinstance(b, int) and b in (0, -1):
      known = self.layout[a[1]][1]
      if (isinstance(op, ast.GtE) and b == 0) or \
              (isinstance(op, ast.Gt) and b == -1):
        return known
      if (isinstance(op, ast.Lt) and b == 0) or \
              (isinstance(op, ast.LtE) and b == -1):
        return not known
    if a == S('lookup') and isinstance(b, int) and \
            isinstance(op, (ast.Eq, ast.NotEq)):
      return S('cmask', b, isinstance(op, ast.Eq))
    if b == S('lookup') and isinstance(a, int) and \
            isinstance(op, (ast.Eq, ast.NotEq)):
      return S('cmask', a, isinstance(op, ast.Eq))
    if a == S('pl') and isinstance(b, int):
      if (isinstance(op, ast.GtE) and b == 0) or \
              (isinstance(op, ast.Gt) and b == -1):
        return S('kmask')
    return NotImplemented

  def unary(self, it, op, v, node):
    if isinstance(op, ast.USub) and tg(v) == 'carr' and v[2] is not None:
      return S('carr', v[1], -v[2])
    if isinstance(op, ast.Invert) and tg(v) == 'cmask':
      return S('cmask', v[1], not v[2])
    return NotImplemented

  def truth(self, it, v, node):
    return NotImplemented

  def _pool_size(self, m):
    c, _k = self.layout[m[1]]
    return c if m[2] else self.n - c

  def store(self, it, base, idx, value, node):
    if tg(base) == 'carr':
      self.stores.append((base, _unwrap(idx), value, node))
      return None
    return NotImplemented

  def call(self, it, d, recv, args, kwargs, node):
    if d == 'len' and len(args) == 1:
      v = args[0]
      if tg(v) == 'pool':
        return self.pools[v[1]]['size']
      if tg(v) == 'members':
        return self.pools[v[1]]['size']
      if tg(v) == 'cidx':
        return self._pool_size(v)
      if v == S('uniq'):
        return len(self.layout)
      if v == S('pl'):
        return self.n
      return NotImplemented
    if d in ('set', 'list') and len(args) == 1:
      v = _unwrap(args[0])
      if d == 'set' and tg(v) == 'cidx':
        k = len(self.pools)
        self.pools[k] = dict(cls=(v[1], v[2]), size=self._pool_size(v),
                             pending=[])
        return S('pool', k)
      if d == 'list' and tg(v) == 'pool':
        return S('members', v[1])
      return NotImplemented
    if d.startswith('.'):
      meth = d[1:]
      if recv == S('rng'):
        if meth == 'randint':
          lo = kwargs.get('low', args[0] if args else None)
          hi = kwargs.get('high', args[1] if len(args) > 1 else None)
          if 'size' in kwargs or len(args) > 2:
            raise Undecided('vector randint')
          if hi is None:
            lo, hi = 0, lo
          if not (isinstance(lo, int) and isinstance(hi, int)):
            raise Undecided('randint bounds')
          if hi <= lo:
            self.notes.append('randint(%d, %d)' % (lo, hi))
            raise Raised(['ValueError'], node)
          return lo + it.choose(hi - lo)
        if meth == 'choice':
          a = args[0] if args else kwargs.get('a')
          size = kwargs.get('size', args[1] if len(args) > 1 else None)
          repl = kwargs.get('replace', args[2] if len(args) > 2 else True)
          if tg(a) in S('members', 'pool') \
                  and isinstance(size, int):
            p = self.pools[a[1]]
            if not repl and size > p['size']:
              self.notes.append('choice of %d among %d without replacement'
                                % (size, p['size']))
              raise Raised(['ValueError'], node)
            if p['size'] == 0:
              raise Raised(['ValueError'], node)
            dr = S('draw', len(self.draws), a[1], size, bool(repl))
            self.draws.append(dict(pool=a[1], size=size, replace=bool(repl),
                                   overlap=bool(p['pending']), node=node))
            p['pending'].append(dr[1])
            return dr
          raise Undecided('choice(%r, %r)' % (a, size))
        if meth in ('shuffle', 'permutation'):
          raise Undecided('rng.%s' % meth)
      if tg(recv) == 'pool':
        p = self.pools[recv[1]]
        if meth == 'difference_update' and len(args) == 1 and \
                tg(args[0]) == 'draw':
          dr = self.draws[args[0][1]]
          if dr['pool'] == recv[1] and args[0][1] in p['pending']:
            p['pending'].remove(args[0][1])
            # with replacement the draw may repeat members: at most its
            # size leaves the pool (the clause 'disjoint' reports the draw)
            p['size'] -= min(dr['size'], p['size'])
            return None
          return None       # removing members of another pool: no effect
      return NotImplemented
    short = _short(d)
    if d.startswith('numpy.'):
      if short == 'unique' and args and args[0] == S('pl'):
        if set(kwargs) == {'return_inverse'} and kwargs['return_inverse'] \
                and len(args) == 1:
          return (S('uniq'), S('lookup'))
        raise Undecided('np.unique options')
      if short == 'unique' and args == [S('klabels')] and not kwargs:
        # the distinct known label values, in increasing order
        return [S('labv', i) for i, (_c, k_) in enumerate(self.layout)
                if k_]
      if short in ('asanyarray', 'asarray', 'array') and args and \
              args[0] in (S('pl-arg'), S('pl')):
        return S('pl')
      if short in ('where', 'nonzero', 'flatnonzero') and len(args) == 1:
        m = args[0]
        if isinstance(m, Arr):
          idx = Arr(i for i, x in enumerate(m.xs) if x)
          return idx if short == 'flatnonzero' else (idx,)
        if tg(m) == 'cmask':
          i = S('cidx', m[1], m[2])
          return i if short == 'flatnonzero' else (i,)
      if short in ('ones_like', 'zeros_like', 'full_like', 'empty_like') \
              and args and args[0] == S('pl'):
        self.arrays += 1
        fill = {'ones_like': 1, 'zeros_like': 0, 'empty_like': None}.get(
            short, args[1] if len(args) > 1 else None)
        return S('carr', self.arrays, fill)
      if short == 'full' and len(args) == 2 and args[0] in (self.n,
                                                           (self.n,)):
        self.arrays += 1
        return S('carr', self.arrays, args[1])
    if short == 'check_random_state':
      return S('rng')
    return NotImplemented

  def binop(self, it, op, a, b, node):
    if tg(a) == 'carr' and isinstance(b, int) \
            and a[2] is not None:
      if isinstance(op, ast.Mult):
        return S('carr', a[1], a[2] * b)
      if isinstance(op, ast.Sub):
        return S('carr', a[1], a[2] - b)
      if isinstance(op, ast.Add):
        return S('carr', a[1], a[2] + b)
    if tg(b) == 'carr' and isinstance(a, int) \
            and b[2] is not None and isinstance(op, ast.Mult):
      return S('carr', b[1], a * b[2])
    return NotImplemented


def rule_chunks_interp(repo, rep):
  R = 'R-INTERP:chunks'
  rep.rule(R, 'Constraints.chunks interpreted on representative label '
           'layouts (class sizes incl. an unknown class and singletons) x '
           'chunk_size x n_chunks, over every outcome of the random class '
           'choice: an infeasible request (sum_c n_c // chunk_size < '
           'n_chunks) raises ValueError before any draw; otherwise exactly '
           'the ids 0..n_chunks-1 are written, each once, each on one draw '
           'of chunk_size members without replacement from the pool of one '
           'known class, and every draw is removed from its pool before the '
           'next draw from it; unassigned points keep -1')
  cons = repo.get_class('Constraints')
  f = cons.methods.get('chunks')
  if f is None:
    rep.unknown(R, 'Constraints.chunks', '', 'method vanished')
    return
  rep.analysed(f)
  ps = f.params()
  layouts = [[(2, False), (2, True), (3, True)],
             [(4, True), (1, True), (2, True)],
             [(1, False), (5, True)],
             [(3, True), (3, True)]]
  reqs = [(2, 1), (2, 2), (2, 3), (2, 4), (3, 1), (3, 2), (1, 3)]
  verdict = {}

  def fail(clause, kind, detail, node=None):
    cur = verdict.get(clause)
    if cur is None or (cur[0] == 'unknown' and kind == 'refuted'):
      verdict[clause] = (kind, detail, node)
  clauses = ('feasibility', 'count', 'one-class', 'disjoint', 'size',
             'unassigned')
  nrun = ncombo = 0
  for layout in layouts:
    for (size, want) in reqs:
      feasible = sum(c // size for c, k in layout if k) >= want
      tag = 'class sizes %s%s, chunk_size=%d, n_chunks=%d' % (
          [c for c, k in layout if k],
          ' + %d unlabelled' % sum(c for c, k in layout if not k)
          if any(not k for _, k in layout) else '', size, want)
      env0 = {'self': S('self'), 'n_chunks': want, 'chunk_size': size,
              'random_state': S('seed'), 'num_chunks': 'deprecated'}
      ncombo += 1

      def make_w(layout=layout):
        w = _ChunkWorld(layout)
        init_ = cons.methods.get('__init__')
        if init_ is not None and len(init_.params()) == 2:
          r = Interp(repo, init_, w).run({'self': S('self'),
                                          init_.params()[1]: S('pl-arg')})
          if r[0] == 'raise':
            raise Undecided('constructor raises')
        return w
      try:
        for w, out, it in runs(repo, f, make_w,
                               lambda w: dict(env0), limit=600):
          nrun += 1
          if out[0] == 'raise':
            if feasible:
              fail('feasibility', 'refuted', 'raises %s although the '
                   'request is feasible (%s)%s' % (
                       out[1][0], tag,
                       ': ' + w.notes[-1] if w.notes else ''), out[2])
            elif 'ValueError' not in out[1]:
              fail('feasibility', 'refuted', 'an infeasible request raises '
                   '%s, not ValueError (%s)' % (out[1][0], tag), out[2])
            elif w.draws:
              fail('feasibility', 'refuted', 'an infeasible request is '
                   'noticed only after %d draws (%s)' % (len(w.draws), tag),
                   out[2])
            continue
          if not feasible:
            fail('feasibility', 'refuted', 'no ValueError although only %d '
                 'chunks of %d members exist (%s)' % (
                     sum(c // size for c, k in layout if k), size, tag))
            continue
          res = out[1]
          if not (tg(res) == 'carr'):
            fail('unassigned', 'unknown', 'returns %r (%s)' % (res, tag))
            continue
          if res[2] != -1:
            fail('unassigned', 'refuted', 'points outside every chunk carry '
                 '%r, not -1 (%s)' % (res[2], tag))
          ids = []
          for (arr, idx, val, node) in w.stores:
            if arr[1] != res[1]:
              continue
            if not (tg(idx) == 'draw'):
              fail('one-class', 'unknown', 'chunk ids written at %r (%s)'
                   % (idx, tag), node)
              continue
            dr = w.draws[idx[1]]
            pool = w.pools[dr['pool']]
            ci, pos = pool['cls']
            if not pos:
              fail('one-class', 'refuted', 'a chunk is drawn from the points '
                   'outside class %d: its members need not share a class '
                   '(%s)' % (ci, tag), dr['node'])
            elif not layout[ci][1]:
              fail('one-class', 'refuted', 'a chunk is drawn from the '
                   'unlabelled points (%s)' % tag, dr['node'])
            if dr['replace']:
              fail('disjoint', 'refuted', 'chunk members are drawn with '
                   'replacement (%s)' % tag, dr['node'])
            if dr['overlap']:
              fail('disjoint', 'refuted', 'a chunk is drawn from a pool that '
                   'still contains the members of an earlier chunk (%s)'
                   % tag, dr['node'])
            if dr['size'] != size:
              fail('size', 'refuted', 'a chunk has %d members, chunk_size=%d '
                   '(%s)' % (dr['size'], size, tag), dr['node'])
            ids.append(val)
          if sorted(ids, key=repr) != list(range(want)):
            fail('count', 'refuted', 'chunk ids written: %s, expected '
                 '0..%d each once (%s)' % (sorted(ids, key=repr)[:8],
                                           want - 1, tag))
      except Undecided as u:
        for c in clauses:
          fail(c, 'unknown', '%s (%s)' % (u, tag))
  for c in clauses:
    key = 'Constraints.chunks:%s' % c
    v = verdict.get(c)
    if v is None:
      rep.derived(R, key, site(f), sample=dict(rule=R, clause=c, runs=nrun))
    elif v[0] == 'refuted':
      rep.refuted(R, key, site(f, v[2]) if v[2] is not None else site(f),
                  v[1])
    else:
      rep.unknown(R, key, site(f, v[2]) if v[2] is not None else site(f),
                  v[1])
  # repeated calls on one Constraints object with the same seed give the
  # same chunks: the constructor and two successive calls are interpreted on
  # one world (object state persists), with one choice sequence
  init = cons.methods.get('__init__')
  hist = None       # (kind, detail, node)
  nh = 0
  for layout in layouts[:2]:
    for (size, want) in ((2, 1), (2, 2)):
      tag = 'class sizes %s, chunk_size=%d, n_chunks=%d' % (
          [c for c, k in layout if k], size, want)
      env0 = {'self': S('self'), 'n_chunks': want, 'chunk_size': size,
              'random_state': S('seed'), 'num_chunks': 'deprecated'}

      def make():
        w = _ChunkWorld(layout)
        if init is not None:
          ips = init.params()
          ienv = {'self': S('self')}
          if len(ips) == 2:
            ienv[ips[1]] = S('pl-arg')
          r = Interp(repo, init, w).run(ienv)
          if r[0] == 'raise':
            raise Undecided('constructor raises')
        return w

      def summary(w, out):
        if out[0] == 'raise':
          return ('raise', out[1][0])
        return ('return', tuple(
            (w.pools[w.draws[i[1]]['pool']]['cls'], w.draws[i[1]]['size'], v)
            for (_a, i, v, _n) in w.stores if tg(i) == 'draw'))
      try:
        for w, out, it in runs(repo, f, make, lambda w: dict(env0),
                               limit=300):
          nh += 1
          s1 = summary(w, out)
          n1, d1 = len(w.stores), len(w.draws)
          it2 = Interp(repo, f, w, [c for c, _ in it.taken])
          out2 = it2.run(dict(env0))
          w2 = w
          if out2[0] == 'raise':
            s2 = ('raise', out2[1][0])
          else:
            s2 = ('return', tuple(
                (w2.pools[w2.draws[i[1]]['pool']]['cls'],
                 w2.draws[i[1]]['size'], v)
                for (_a, i, v, _n) in w2.stores[n1:] if tg(i) == 'draw'))
          if s1 != s2 or [a for a, _ in it2.taken] != \
                  [a for a, _ in it.taken][:len(it2.taken)] or \
                  len(it2.taken) != len(it.taken):
            if hist is None or hist[0] == 'unknown':
              hist = ('refuted', 'a second chunks() call on the same '
                      'Constraints object with the same seed differs from '
                      'the first: %s then %s (%s) - the call changes the '
                      'object\'s state' % (s1, s2, tag), None)
      except Undecided as u:
        if hist is None:
          hist = ('unknown', '%s (%s)' % (u, tag), None)
  key = 'Constraints.chunks:repeatable'
  if hist is None:
    rep.derived(R, key, site(f), sample=dict(rule=R, clause='repeatable',
                                             runs=nh))
  elif hist[0] == 'refuted':
    rep.refuted(R, key, site(f), hist[1])
  else:
    rep.unknown(R, key, site(f), hist[1])
  rep.floor('chunk layouts x requests interpreted', ncombo, 28)
  return dict((c, verdict.get(c, ('derived',))[0]) for c in clauses)


def rule_wrap_pairs(repo, rep):
  R = 'R-INTERP:wrap-pairs-labelling'
  rep.rule(R, 'constraints.wrap_pairs(X, (a, b, c, d)), interpreted on '
           'symbolic index atoms (2 positive, 3 negative pairs; 1 and 1; '
           '3 and 1), returns X gathered at the rows (a_i, b_i) and '
           '(c_j, d_j) together with labels aligned row by row: +1 for '
           'every (a_i, b_i), -1 for every (c_j, d_j)')
  f = repo.get_func('constraints.wrap_pairs')
  if f is None:
    rep.unknown(R, 'constraints.wrap_pairs', '', 'function vanished')
    return
  rep.analysed(f)
  ps = f.params()
  if len(ps) != 2:
    rep.unknown(R, 'constraints.wrap_pairs', site(f), 'signature %s' % ps)
    return
  bad = unk = None
  for npos, nneg in ((2, 3), (1, 1), (3, 1)):
    a = MArr((npos,), ['a%d' % i for i in range(npos)])
    b = MArr((npos,), ['b%d' % i for i in range(npos)])
    c = MArr((nneg,), ['c%d' % i for i in range(nneg)])
    d = MArr((nneg,), ['d%d' % i for i in range(nneg)])
    want = sorted([(('a%d' % i, 'b%d' % i), 1) for i in range(npos)] +
                  [(('c%d' % i, 'd%d' % i), -1) for i in range(nneg)])
    it = Interp(repo, f, _ArrWorld())
    try:
      out = it.run({ps[0]: S('X'), ps[1]: (a, b, c, d)})
    except Undecided as u:
      unk = unk or '%s (%d positive, %d negative pairs)' % (u, npos, nneg)
      continue
    if out[0] == 'raise':
      bad = bad or 'raises %s with %d positive and %d negative pairs' % (
          out[1][0], npos, nneg)
      continue
    if not (isinstance(out[1], tuple) and len(out[1]) == 2):
      unk = unk or 'returns %r' % (out[1],)
      continue
    pairs, y = out[1]
    if tg(pairs) != 'gather' or not isinstance(y, MArr):
      unk = unk or 'returns (%r, %r)' % (pairs, y)
      continue
    idx = pairs[1]
    if idx.ndim != 2 or idx.shape[1] != 2 or y.ndim != 1 or \
            y.shape[0] != idx.shape[0]:
      bad = bad or 'pairs gathered with an index array of shape %s and ' \
          'labels of shape %s (%d positive, %d negative pairs)' % (
              idx.shape, y.shape, npos, nneg)
      continue
    got = sorted((tuple(r.flat), lab) for r, lab in zip(idx.rows(), y.flat))
    if got != want:
      wrong = [g for g in got if g not in want][:3]
      bad = bad or 'with %d positive and %d negative pairs the rows and ' \
          'labels are %s ...; expected (a_i, b_i) -> +1 and (c_j, d_j) -> ' \
          '-1' % (npos, nneg, wrong)
  if bad:
    rep.refuted(R, 'constraints.wrap_pairs', site(f), bad)
  elif unk:
    rep.unknown(R, 'constraints.wrap_pairs', site(f), unk)
  else:
    rep.derived(R, 'constraints.wrap_pairs', site(f))


# ------------------------------------------------------------------ _pairs
class _PMask:
  """candidate mask of one draw: same / different label as the drawn point"""

  def __init__(self, kind, pt):
    self.kind, self.pt, self.cleared, self.spoiled = kind, pt, False, False

  def __repr__(self):
    return '<mask %s %s%s>' % (self.kind, self.pt,
                               ' self-cleared' if self.cleared else '')


class _PairsWorld(World):
  def __init__(self, counts):
    self.counts = list(counts)
    self.N = sum(counts)
    self.ndraw = 0
    self.warned = 0
    self.notes = []

  def attr(self, it, v, attr, node):
    if v == S('self') and attr == 'partial_labels':
      return S('pl')
    if tg(v) == 'pairsarr' and attr == 'T':
      return S('pairsT', v[1])
    if tg(v) == 'cands' and attr == 'size':
      return v[4]
    if tg(v) == 'cands' and attr == 'shape':
      return (v[4],)
    if v in (S('klabels'), S('kidx')) and attr == 'shape':
      return (self.N,)
    return NotImplemented

  def compare(self, it, op, a, b, node):
    if a == S('pl') and isinstance(b, int):
      if (isinstance(op, ast.GtE) and b == 0) or \
              (isinstance(op, ast.Gt) and b == -1):
        return S('kmask')
    for x, y in ((a, b), (b, a)):
      if tg(x) == 'labelof' and y == S('klabels') and \
              isinstance(op, (ast.Eq, ast.NotEq)):
        return _PMask('eq' if isinstance(op, ast.Eq) else 'ne', x[1])
    return NotImplemented

  def unary(self, it, op, v, node):
    if isinstance(op, ast.Invert) and isinstance(v, _PMask):
      m = _PMask('ne' if v.kind == 'eq' else 'eq', v.pt)
      m.spoiled = v.cleared      # ~ of a mask with the self position cleared
      return m
    return NotImplemented

  def subscript(self, it, base, idx, node):
    i1 = _unwrap(idx)
    if base == S('pl') and i1 in (S('kmask'), S('kidx')):
      return S('klabels')
    if base == S('klabels') and tg(i1) == 'pt':
      return S('labelof', i1)
    if base == S('kidx') and tg(i1) == 'pairsT':
      return S('result', i1[1])
    return NotImplemented

  def store(self, it, base, idx, value, node):
    if isinstance(base, _PMask) and tg(idx) == 'pt' and value is False:
      if idx == base.pt:
        base.cleared = True
      else:
        base.spoiled = True
      return None
    return NotImplemented

  def size(self, m):
    c = self.counts[m.pt[2]]
    if m.kind == 'eq':
      return c - (1 if m.cleared else 0)
    return self.N - c

  def call(self, it, d, recv, args, kwargs, node):
    if d == 'len' and len(args) == 1:
      v = args[0]
      if v in (S('klabels'), S('kidx')):
        return self.N
      if tg(v) == 'cands':
        return v[4]
      return NotImplemented
    if d.startswith('.'):
      m = d[1:]
      if recv == S('rng'):
        if m == 'randint':
          hi = args[0] if args else kwargs.get('high')
          size = kwargs.get('size', args[2] if len(args) > 2 else None)
          if len(args) > 1 and args[1] is not None:
            raise Undecided('randint(low, high)')
          if hi != self.N:
            self.notes.append('points drawn among %r positions, there are '
                              '%d labelled points' % (hi, self.N))
            raise Undecided('randint range %r' % (hi,))
          if size is None:
            size = 1
            scalar = True
          else:
            scalar = False
          if not isinstance(size, int):
            raise Undecided('randint size')
          if size < 0:
            raise Raised(['ValueError'], node)
          out = []
          for _ in range(size):
            cls = it.choose(len(self.counts))
            self.ndraw += 1
            out.append(S('pt', self.ndraw, cls))
          return out[0] if scalar else out
        if m == 'choice' and len(args) == 1 and tg(args[0]) == 'cands':
          if args[0][4] <= 0:
            self.notes.append('choice among no candidates')
            raise Raised(['ValueError'], node)
          return S('partner', args[0][1], args[0][2], args[0][3])
        raise Undecided('rng.%s' % m)
      if isinstance(recv, set) and m == 'add' and len(args) == 1:
        # the drawn pair may repeat one that is already there
        if recv and it.choose(2) == 1:
          return None
        recv.add(args[0])
        return None
      if isinstance(recv, _PMask) and m == 'copy':
        return recv
      return NotImplemented
    short = _short(d)
    if d.startswith('numpy.'):
      if short in ('where', 'nonzero', 'flatnonzero') and len(args) == 1:
        v = args[0]
        if v == S('kmask'):
          return S('kidx') if short == 'flatnonzero' else (S('kidx'),)
        if isinstance(v, _PMask):
          if v.spoiled:
            raise Undecided('mask edited at another position')
          c = S('cands', v.kind, v.pt, v.cleared, self.size(v))
          return c if short == 'flatnonzero' else (c,)
      if short in ('array', 'asarray') and len(args) == 1 and \
              isinstance(args[0], list):
        return S('pairsarr', tuple(args[0]))
    if short == 'check_random_state':
      return S('rng')
    return NotImplemented

  def name(self, it, ident):
    return NotImplemented

  def warn(self, it, node):
    self.warned += 1


def rule_pairs_interp(repo, rep):
  R = 'R-INTERP:pairs'
  rep.rule(R, 'Constraints._pairs interpreted on class layouts [2, 1] and '
           '[3, 2] (singleton class, unlabelled points), n_constraints in '
           '{1, 2}, max_iter in {1, 2}, both values of same_label, over every '
           'outcome of the draws (class of the drawn point, repetition of an '
           'earlier pair): never raises; every returned pair joins the drawn '
           'point with a candidate of its own draw - same label and not '
           'itself, resp. different label; at most n_constraints pairs, no '
           'pair twice; a warning exactly when fewer are returned; positions '
           'mapped to the caller\'s frame')
  cons = repo.get_class('Constraints')
  f = cons.methods.get('_pairs')
  if f is None:
    rep.unknown(R, 'Constraints._pairs', '', 'method vanished')
    return
  rep.analysed(f)
  ps = f.params()
  verdict = {}

  def fail(clause, kind, detail, node=None):
    cur = verdict.get(clause)
    if cur is None or (cur[0] == 'unknown' and kind == 'refuted'):
      verdict[clause] = (kind, detail, node)
  clauses = ('no-raise', 'relation', 'limit', 'warning', 'caller-frame')
  nrun = ncombo = 0
  for counts in ([2, 1], [3, 2]):
    for same in (True, False):
      for n in (1, 2):
        for mi in (1, 2):
          ncombo += 1
          tag = 'class sizes %s, same_label=%s, n_constraints=%d, ' \
              'max_iter=%d' % (counts, same, n, mi)
          env0 = {'self': S('self'), 'n_constraints': n, 'same_label': same,
                  'max_iter': mi, 'random_state': S('rng')}
          env0 = dict((k, v) for k, v in env0.items() if k in ps)
          try:
            for w, out, it in runs(repo, f, lambda: _PairsWorld(counts),
                                   lambda w: dict(env0), limit=3000):
              nrun += 1
              if out[0] == 'raise':
                fail('no-raise', 'refuted', 'raises %s (%s)%s' % (
                    out[1][0], tag, ': ' + w.notes[-1] if w.notes else ''),
                    out[2])
                continue
              res = out[1]
              if tg(res) != 'result':
                if tg(res) == 'pairsT':
                  fail('caller-frame', 'refuted', 'returns positions among '
                       'the labelled points, not indices of the caller\'s '
                       'array (%s)' % tag)
                  res = S('result', res[1])
                else:
                  fail('caller-frame', 'unknown', 'returns %r (%s)'
                       % (res, tag))
                  continue
              pairs = res[1]
              if len(pairs) > n:
                fail('limit', 'refuted', '%d pairs returned for '
                     'n_constraints=%d (%s)' % (len(pairs), n, tag))
              if len(set(pairs)) != len(pairs):
                fail('limit', 'refuted', 'a pair is returned twice (%s)'
                     % tag)
              for p_ in pairs:
                if not (isinstance(p_, tuple) and len(p_) == 2 and
                        tg(p_[0]) == 'pt' and tg(p_[1]) == 'partner'):
                  fail('relation', 'unknown', 'pair %r (%s)' % (p_, tag))
                  continue
                a, b = p_
                if b[2] != a:
                  fail('relation', 'refuted', 'a point is paired with a '
                       'candidate computed for another draw (%s)' % tag)
                elif same and (b[1] != 'eq' or not b[3]):
                  fail('relation', 'refuted', 'under same_label=True the '
                       'partner is drawn among the points with %s (%s)' % (
                           'a different label' if b[1] != 'eq' else
                           'the same label including the point itself',
                           tag))
                elif not same and b[1] != 'ne':
                  fail('relation', 'refuted', 'under same_label=False the '
                       'partner is drawn among the points with the same '
                       'label (%s)' % tag)
              if (len(pairs) < n) != (w.warned > 0):
                fail('warning', 'refuted', '%d of %d requested pairs '
                     'returned %s a warning (%s)' % (
                         len(pairs), n, 'without' if not w.warned
                         else 'with', tag))
          except Undecided as u:
            for c in clauses:
              fail(c, 'unknown', '%s (%s)' % (u, tag))
  for c in clauses:
    key = 'Constraints._pairs:%s' % c
    v = verdict.get(c)
    if v is None:
      rep.derived(R, key, site(f), sample=dict(rule=R, clause=c, runs=nrun))
    elif v[0] == 'refuted':
      rep.refuted(R, key, site(f, v[2]) if v[2] is not None else site(f),
                  v[1])
    else:
      rep.unknown(R, key, site(f, v[2]) if v[2] is not None else site(f),
                  v[1])
  rep.floor('_pairs layout x request combinations interpreted', ncombo, 16)


def rule_pos_neg_interp(repo, rep):
  R = 'R-INTERP:positive-negative-pairs'
  rep.rule(R, 'positive_negative_pairs interpreted with _pairs summarised '
           '(it returns k <= n_constraints pairs, every k explored for both '
           'kinds): _pairs is asked for n_constraints pairs with '
           'same_label=True, then False, on the one checked random state; '
           'the result is (a, b, c, d) with a, b the positive and c, d the '
           'negative indices; under same_length all four are cut to '
           'min(#positive, #negative), otherwise none is cut')
  cons = repo.get_class('Constraints')
  f = cons.methods.get('positive_negative_pairs')
  if f is None:
    rep.unknown(R, 'Constraints.positive_negative_pairs', '', 'vanished')
    return
  rep.analysed(f)
  ps = f.params()

  class W(World):
    def __init__(self, n):
      self.n, self.calls, self.attrs = n, [], {}

    def attr(self, it, v, attr, node):
      if v == S('self') and attr in self.attrs:
        return self.attrs[attr]
      if tg(v) == 'idx' and attr == 'shape':
        return (v[2],)
      if tg(v) == 'idx' and attr == 'size':
        return v[2]
      return NotImplemented

    def setattr(self, it, obj, attr, value, node):
      if obj == S('self'):
        self.attrs[attr] = value
        return None
      return NotImplemented

    def subscript(self, it, base, idx, node):
      if tg(base) == 'idx' and isinstance(idx, slice) and \
              idx.start is None and idx.step is None and \
              isinstance(idx.stop, int) and idx.stop >= 0:
        return S('idx', base[1], min(base[2], idx.stop))
      return NotImplemented

    def call(self, it, d, recv, args, kwargs, node):
      if d == 'len' and args and tg(args[0]) == 'idx':
        return args[0][2]
      if d == '._pairs' and recv == S('self'):
        n = kwargs.get('n_constraints', args[0] if args else None)
        same = kwargs.get('same_label', args[1] if len(args) > 1 else True)
        rs = kwargs.get('random_state', None)
        self.calls.append((n, same, rs))
        if not isinstance(n, int) or not isinstance(same, bool):
          raise Undecided('_pairs(%r, same_label=%r)' % (n, same))
        k = it.choose(n + 1)
        x, y = ('a', 'b') if same else ('c', 'd')
        return (S('idx', x, k), S('idx', y, k))
      if d.rsplit('.', 1)[-1] == 'check_random_state':
        return S('rng', args[0] if args else None)
      return NotImplemented
  bad = unk = None
  nrun = 0
  for n in (1, 2):
    for same_length in (False, True):
      env0 = {'self': S('self'), 'n_constraints': n,
              'same_length': same_length, 'random_state': S('seed'),
              'num_constraints': 'deprecated'}
      env0 = dict((k, v) for k, v in env0.items() if k in ps)
      tag = 'n_constraints=%d, same_length=%s' % (n, same_length)
      try:
        for w, out, it in runs(repo, f, lambda: W(n), lambda w: dict(env0),
                               limit=200):
          nrun += 1
          if out[0] == 'raise':
            bad = bad or 'raises %s (%s)' % (out[1][0], tag)
            continue
          res = out[1]
          if not (isinstance(res, tuple) and len(res) == 4 and
                  all(tg(x) == 'idx' for x in res)):
            unk = unk or 'returns %r (%s)' % (res, tag)
            continue
          if [x[1] for x in res] != ['a', 'b', 'c', 'd']:
            bad = bad or 'returns the index arrays in the order %s (%s)' % (
                [x[1] for x in res], tag)
            continue
          calls = w.calls
          if [(c[0], c[1]) for c in calls] != [(n, True), (n, False)]:
            bad = bad or '_pairs is called as %s (%s)' % (
                [(c[0], c[1]) for c in calls], tag)
            continue
          if any(c[2] != S('rng', S('seed')) for c in calls):
            bad = bad or '_pairs does not receive the checked random state ' \
                '(%s)' % tag
            continue
          ka = [c for c, _ in it.taken][0]
          kc = [c for c, _ in it.taken][1]
          lens = [x[2] for x in res]
          want = [min(ka, kc)] * 4 if same_length else [ka, ka, kc, kc]
          if lens != want:
            bad = bad or 'with %d positive and %d negative pairs found the ' \
                'four arrays have lengths %s, expected %s (%s)' % (
                    ka, kc, lens, want, tag)
      except Undecided as u:
        unk = unk or '%s (%s)' % (u, tag)
  key = 'Constraints.positive_negative_pairs'
  if bad:
    rep.refuted(R, key, site(f), bad)
  elif unk:
    rep.unknown(R, key, site(f), unk)
  else:
    rep.derived(R, key, site(f), sample=dict(rule=R, runs=nrun))
