"""C03 - fit on well-formed input yields a valid Mahalanobis model of the
right shape (structural necessary conditions; see DESIGN.md section 4)."""
from ..model import FuncInfo
from ..engine import Engine
from ..tags import TagDomain
from .. import api
from .common import site


def rule_return_self_and_components(repo, rep):
  rep.rule('R-DOM:return-self', 'on every normal exit of every resolved fit '
           'the returned value is the estimator object itself '
           '(interprocedural, through _fit / _fit_full / RCA.fit ...)')
  rep.rule('R-DOM:components-assigned', 'self.components_ is assigned on '
           'every path from the entry of fit to each normal exit')
  n = 0
  for c in repo.estimators():
    f = repo.resolve_method(c, 'fit')
    if not isinstance(f, FuncInfo):
      rep.unknown('R-DOM:return-self', c.name + '.fit', '', 'fit not found')
      continue
    dom = TagDomain()
    eng = Engine(repo, dom, self_cls=c)
    flow = eng.run(f)
    rep.analysed(f)
    if not flow.returns:
      rep.refuted('R-DOM:return-self', c.name + '.fit', site(f),
                  'fit has no normal exit')
      continue
    for (v, st, node) in flow.returns:
      n += 1
      key = '%s.fit@%s' % (c.name, 'end' if node is f.node else 'return')
      if v.obj is not None and v.obj.oid == 'self':
        rep.derived('R-DOM:return-self', key, site(f, node),
                    sample=dict(rule='R-DOM:return-self', estimator=c.name,
                                exit=site(f, node), returned='self')
                    if n == 1 else None)
      elif v.c and v.c is not None and v.const() is None:
        rep.refuted('R-DOM:return-self', key, site(f, node),
                    'fit returns None on this exit instead of the estimator')
      elif v.obj is not None or v.fn is not None or v.elts is not None:
        rep.refuted('R-DOM:return-self', key, site(f, node),
                    'fit returns a value that is not the estimator')
      else:
        rep.unknown('R-DOM:return-self', key, site(f, node),
                    'returned value could not be resolved to an object')
      if ('store', 'self', 'components_') in dom.must(st):
        rep.derived('R-DOM:components-assigned', key, site(f, node))
      else:
        rep.refuted('R-DOM:components-assigned', key, site(f, node),
                    'a path reaches this exit of fit without assigning '
                    'self.components_')
  rep.floor('fit exits analysed', n, 17)


# ---------------------------------------------------------------- DTYPE
import ast as _ast
from ..tags import EMPTY as _EMPTY
from .. import astutil as _astutil
from ..model import canon as _canon
from ..engine import V as _V, NOCONST as _NOCONST

COMPLEX_SOURCES = set(_canon(x) for x in (
    'numpy.linalg.eig', 'numpy.linalg.eigvals', 'scipy.linalg.eig',
    'scipy.linalg.eigvals', 'scipy.linalg.sqrtm', 'scipy.linalg.logm',
    'numpy.roots', 'scipy.linalg.schur', 'scipy.linalg.funm',
    'numpy.emath.sqrt', 'numpy.emath.log', 'numpy.fft.fft'))
REAL_SANITIZERS = set(_canon(x) for x in (
    'numpy.real', 'numpy.abs', 'numpy.absolute', 'builtins.abs',
    'builtins.float', 'numpy.real_if_close', 'numpy.linalg.norm',
    'numpy.isfinite', 'numpy.isnan', 'numpy.argsort', 'builtins.len'))
# (function key, callee): frozen, with the reason
COMPLEX_EXEMPT = {
    ('lfda._eigh', _canon('scipy.linalg.eig')):
        'last-resort solver, reached only when the generalised eigenproblem '
        'is not definite: outside C03\'s full-rank quantifier',
}


class DtypeDomain(TagDomain):
  def __init__(self):
    super().__init__()
    self.sinks = []

  def flow(self, tags):
    return frozenset(t for t in tags if t[0] == 'cplx')

  def attr(self, v, name, node, st):
    if name in ('real', 'imag', 'shape', 'ndim', 'size'):
      return _EMPTY
    return super().attr(v, name, node, st)

  def compare(self, ops, vals, node, st):
    return _EMPTY

  def ext_call(self, dotted, args, kwargs, node, st, eng):
    if dotted in COMPLEX_SOURCES:
      f = self.cur()
      if (f.key, dotted) in COMPLEX_EXEMPT:
        return _EMPTY
      return frozenset([('cplx', dotted, self.site(node))])
    if dotted in REAL_SANITIZERS:
      return _EMPTY
    return super().ext_call(dotted, args, kwargs, node, st, eng)

  def method_call(self, recv, name, args, kwargs, node, st, eng):
    if name == 'astype' and args:
      a = args[0]
      if (a.fn and a.fn[0] == 'ext' and a.fn[1] in ('builtins.float',
                                                    'numpy.float64')) or \
              a.const() in ('float', 'float64', 'f8'):
        return _EMPTY
    return super().method_call(recv, name, args, kwargs, node, st, eng)

  def on_store_attr(self, objv, attr, val, node, st):
    super().on_store_attr(objv, attr, val, node, st)
    if objv.obj is not None and objv.obj.oid == 'self' and \
            attr == 'components_':
      tags = [t for t in self._u(val) if t[0] == 'cplx']
      self.sinks.append((tags, self.site(node)))


def rule_real_components(repo, rep):
  R = 'DTYPE:components-real'
  rep.rule(R, 'no value produced by a library routine that returns complex '
           'arrays for real input in the installed versions (numpy.linalg.eig '
           '/ eigvals, scipy.linalg.eig / sqrtm / logm ...) reaches '
           'self.components_ without .real / np.real / abs / astype(float)')
  n = 0
  for c in repo.estimators():
    f = repo.resolve_method(c, 'fit')
    dom = DtypeDomain()
    Engine(repo, dom, self_cls=c).run(f)
    key = c.name + '.fit'
    bad = [(t, s) for (t, s) in dom.sinks if t]
    n += len(dom.sinks)
    if bad:
      t = bad[0][0][0]
      rep.refuted(R, key + ':' + t[1], bad[0][1], 'components_ is computed '
                  'from the complex-typed result of %s (%s)' % (t[1], t[2]))
    elif dom.sinks:
      rep.derived(R, key, site(f))
    else:
      rep.unknown(R, key, site(f), 'no assignment to components_ observed')
  rep.notes['dtype_frozen_exemptions'] = [
      '%s -> %s: %s' % (k[0], k[1], v) for k, v in COMPLEX_EXEMPT.items()]
  rep.floor('components_ sinks analysed for dtype', n, 17)


# ------------------------------------------------------------ DEFASSIGN
# No name-keyed exemptions: the idioms that make a conditionally bound local
# safe are recognised structurally (DefDomain._while_runs_once,
# DefDomain._best_so_far) or decided by the path facts of the fork mode.
DEFASSIGN_EXEMPT = {}


class DefDomain(TagDomain):
  # path-sensitive (fork at `if`, join only at loop heads / beyond the cap):
  # correlated literal tests must not produce unbound-variable reports
  fork = True
  max_states = 32
  # an objective value compared with a bound that is still +inf is smaller:
  # objective values are finite (assert_all_finite in the repository, NaN /
  # inf outside the properties' quantifiers)
  assume_finite_lt_inf = True

  def __init__(self, hypers):
    super().__init__()
    self.hypers = hypers
    self.problems = []
    self.idioms = set()

  def event(self, st, ev):
    pass          # no event bookkeeping: identical states can be merged

  def loop_may_skip(self, node, itv, st):
    # loops over range(<hyper-parameter>): max_iter >= 1 in the quantifier
    if isinstance(node, _ast.While) and self.cur() is not None and \
            self._while_runs_once(node, self.cur()):
      return False
    if isinstance(node, _ast.For):
      for n in _ast.walk(node.iter):
        if isinstance(n, _ast.Attribute) and isinstance(n.value, _ast.Name) \
                and n.value.id == 'self' and n.attr in self.hypers:
          return False
      # a literal non-empty range / sequence always runs its body once
      it = node.iter
      if isinstance(it, _ast.Call) and isinstance(it.func, _ast.Name) and \
              it.func.id == 'range' and len(it.args) == 1 and \
              isinstance(it.args[0], _ast.Constant) and \
              isinstance(it.args[0].value, int) and it.args[0].value > 0:
        return False
      if isinstance(it, (_ast.Tuple, _ast.List)) and it.elts:
        return False
    return True

  def _is_inf(self, e, fn):
    d = self.eng.repo.dotted(fn.module, e) if fn is not None else None
    return d in ('numpy.inf', 'numpy.Inf', 'numpy.infty', 'math.inf') or \
        _ast.unparse(e) in ("float('inf')", 'float("inf")')

  def _inf_before(self, fn, name, node):
    """`name = inf` is the last assignment to `name` textually before
    `node` in its own block (nothing in between rebinds it)"""
    pm = _astutil.parents(fn.node)
    blk = pm.get(node)
    for fld in ('body', 'orelse', 'finalbody'):
      body = getattr(blk, fld, None)
      if isinstance(body, list) and node in body:
        last = None
        for s_ in body[:body.index(node)]:
          for n_ in _ast.walk(s_):
            if isinstance(n_, (_ast.Assign, _ast.AugAssign)):
              tg = n_.targets if isinstance(n_, _ast.Assign) else [n_.target]
              for t_ in tg:
                for x in _ast.walk(t_):
                  if isinstance(x, _ast.Name) and x.id == name:
                    last = n_
        return isinstance(last, _ast.Assign) and self._is_inf(last.value, fn)
    return False

  def _while_runs_once(self, node, fn):
    # while a < b: entered at least once when b = inf was just assigned (a is
    # a finite objective value: the repository asserts it with
    # assert_all_finite, NaN is excluded by the property's quantifier)
    t = node.test
    if isinstance(t, _ast.Compare) and len(t.ops) == 1 and \
            isinstance(t.ops[0], _ast.Lt) and \
            isinstance(t.comparators[0], _ast.Name):
      return self._inf_before(fn, t.comparators[0].id, node)
    return False

  def _best_so_far(self, name, fn):
    """every assignment to `name` sits directly under `if a < b:` whose
    body also sets b = a, b starting at inf before the enclosing loop: the
    first evaluated checkpoint binds it"""
    pm = _astutil.parents(fn.node)
    asg = [n_ for n_ in _ast.walk(fn.node) if isinstance(n_, _ast.Assign) and
           any(isinstance(x, _ast.Name) and x.id == name
               for t_ in n_.targets for x in _ast.walk(t_))]
    if not asg:
      return False
    for a_ in asg:
      blk = pm.get(a_)
      if not (isinstance(blk, _ast.If) and a_ in blk.body and
              isinstance(blk.test, _ast.Compare) and len(blk.test.ops) == 1
              and isinstance(blk.test.ops[0], _ast.Lt) and
              isinstance(blk.test.comparators[0], _ast.Name) and
              isinstance(blk.test.left, _ast.Name)):
        return False
      b, a = blk.test.comparators[0].id, blk.test.left.id
      if not any(t_ == b and _ast.unparse(v_) == a for s_ in blk.body
                 for (t_, v_) in _astutil.assign_pairs(s_)):
        return False
      # b = inf before the loop that contains the checkpoint
      n_ = blk
      loop = None
      while n_ in pm:
        n_ = pm[n_]
        if isinstance(n_, (_ast.For, _ast.While)):
          loop = n_
      if loop is None or not self._inf_before(fn, b, loop):
        return False
    return True

  def _facts(self, st):
    b = st.vars.get(('self', 'basis'))
    return {'self.basis': b.c if isinstance(b, _V) else None}

  def maybe_unbound_read(self, name, node, st):
    if self.cur() is not None and self._best_so_far(name, self.cur()):
      self.idioms.add((self.cur().key, 'best-so-far checkpoint'))
      return
    self.problems.append(('unbound', name, self.site(node), self.cur(),
                          self._facts(st)))

  def unbound_name(self, name, node, st):
    if self.cur() is not None and self._best_so_far(name, self.cur()):
      # the state that leaves the loop after an iteration without a
      # checkpoint: at least one checkpoint is evaluated (output_iter <=
      # max_iter is validated), and the first one binds the name
      self.idioms.add((self.cur().key, 'best-so-far checkpoint'))
      return _EMPTY
    self.problems.append(('unbound', name, self.site(node), self.cur(),
                          self._facts(st)))
    return _EMPTY

  def array_str_compare(self, key, const, node, st):
    self.problems.append(('arraystr', '%s == %r' % (key, const),
                          self.site(node), self.cur(), {}))


def rule_defassign(repo, rep):
  R = 'R-DEFASSIGN:option-paths-executable'
  rep.rule(R, 'on every feasible path through fit (path conditions: literal '
           'option tests, isinstance tests, loops over range(<hyper-parameter '
           '>= 1>)) no local is read while unbound, and no value known to be '
           'an ndarray is used in the truth test of a comparison with a '
           'string literal')
  n = 0
  for c in repo.estimators():
    f = repo.resolve_method(c, 'fit')
    dom = DefDomain(set(repo.init_params(c)))
    Engine(repo, dom, self_cls=c).run(f)
    n += 1
    key = c.name + '.fit'
    seen = set()
    exempt_used = set()
    for (kind, name, s, fn, facts) in dom.problems:
      fk = fn.key if fn else ''
      if kind == 'unbound' and (fk, name) in DEFASSIGN_EXEMPT:
        # the scml exemption holds only on the path where basis == 'lda'
        if fk != 'scml._BaseSCML._initialize_basis' or \
                facts.get('self.basis') == frozenset(['lda']):
          exempt_used.add((fk, name))
          continue
      k = (kind, name, fk)
      if k in seen:
        continue
      seen.add(k)
      if kind == 'unbound':
        rep.refuted(R, '%s:%s@%s' % (key, name, fk), s,
                    'local %r may be read while unbound on an option path'
                    % name)
      else:
        rep.refuted(R, '%s:%s@%s' % (key, name, fk), s,
                    'an ndarray is compared with a string in a truth test '
                    '(%s)' % name)
    if not seen:
      rep.derived(R, key, site(f))
  rep.notes['defassign_frozen_exemptions'] = [
      '%s:%s: %s' % (k[0], k[1], v) for k, v in DEFASSIGN_EXEMPT.items()]
  rep.floor('fit entry points analysed for definite assignment', n, 17)


# ---------------------------------------------------------------- SHAPE
from ..shape import ShapeDomain, dims_of as _dims_of


def rule_shapes(repo, rep):
  R = 'SHAPE:components-k-by-d'
  rep.rule(R, 'the value stored as components_ has symbolic shape (k, d): d '
           'the last dimension of the validated data, k the value returned '
           'by _check_n_components (or d, or the number of active SCML '
           'bases); transfer functions for reshape / ravel / .T / dot / eye / '
           'eigh / eigsh / qr (numpy: reduced, scipy: full by default) / cov '
           '/ slicing by a rank prefix cover the def-use chain')
  R5 = 'SHAPE:n_features_in-is-feature-count'
  rep.rule(R5, 'n_features_in_ is assigned, unconditionally (typestate: '
           'C17), the last dimension of the validated array for both point '
           'inputs (n, d) and tuple inputs (n, t, d)')
  n = 0
  for c in repo.estimators():
    f = repo.resolve_method(c, 'fit')
    dom = ShapeDomain()
    Engine(repo, dom, self_cls=c).run(f)
    key = c.name + '.fit'
    comps = [(d, s, kd) for (a, d, s, kd) in dom.sinks
             if a == 'components_']
    if not comps:
      rep.unknown(R, key, site(f), 'no store of components_ observed')
      continue
    n += 1
    has_k = 'n_components' in repo.init_params(c)
    seen = set()
    for (d, s, kd) in comps:
      dd = _dims_of(d)
      if (dd, s) in seen:
        continue
      seen.add((dd, s))
      if has_k:
        # rows = the checked n_components (k); d only where k == d is known
        rows_ok = dd is not None and len(dd) == 2 and (
            dd[0] == 'k' or (dd[0] == 'd' and kd))
      elif c.name.startswith('SCML'):
        rows_ok = dd is not None and len(dd) == 2 and dd[0] in ('d', '?')
      else:
        rows_ok = dd is not None and len(dd) == 2 and dd[0] == 'd'
      if dd is None:
        rep.unknown(R, key, s, 'shape of the stored value not derivable')
      elif rows_ok and dd[1] == 'd':
        rep.derived(R, key, s, sample=dict(rule=R, estimator=c.name,
                                           shape=list(map(str, dd)))
                    if c.name in ('LFDA', 'NCA') else None)
      else:
        rep.refuted(R, key, s, 'components_ has shape %s, documented '
                    '(n_components, n_features)' % (tuple(map(str, dd)),))
  rep.floor('estimators with a derived components_ shape', n, 17)
  # n_features_in_: analyse _prepare_inputs under both input kinds
  g = repo.get_func('base_metric.BaseMetricLearner._prepare_inputs')
  for toi in ('classic', 'tuples'):
    for with_y in (False, True):
      dom = ShapeDomain()
      orig = dom.summary

      def summ(target, args, kwargs, node, st, orig=orig):
        if target.name == '_prepare_inputs':
          return None
        return orig(target, args, kwargs, node, st)
      dom.summary = summ
      from ..engine import V as _VV
      a = {'type_of_inputs': _VV(None, c=frozenset([toi]), ty='str')}
      a['y'] = _VV(None, ty='ndarray') if with_y else _VV(None, c=frozenset([None]),
                                           ty='none')
      Engine(repo, dom, self_cls=repo.get_class('Covariance')).run(g, args=a)
      key = 'BaseMetricLearner._prepare_inputs:%s:y=%s' % (toi, with_y)
      nf = [(d, s) for (at, d, s, kd) in dom.sinks if at == 'n_features_in_']
      if not nf:
        rep.refuted(R5, key, site(g), 'n_features_in_ is not assigned')
      for (d, s) in nf:
        if d == ('dim', 'd'):
          rep.derived(R5, key, s)
        elif isinstance(d, tuple) and d[0] == 'dim':
          rep.refuted(R5, key, s, 'n_features_in_ is set to the dimension '
                      '%r of the validated array, not the feature count'
                      % (d[1],))
        else:
          rep.unknown(R5, key, s, 'value of n_features_in_ not derivable')


def rule_class_codes_vs_values(repo, rep):
  R = 'R-FRAME:class-position-is-not-the-label-value'
  rep.rule(R, 'where a function enumerates the classes found by np.unique '
           'with `for c in range(<number of classes>)`, the members of class '
           'c are selected by comparing the labels with the c-th VALUE '
           '(`y == values[c]`) or the inverse CODES with c (`codes == c`), '
           'never the original labels with the position c: that is right '
           'only for labels that happen to be 0..C-1, every other labelling '
           'selects no (or the wrong) points')
  n = 0
  for f in repo.all_functions():
    uniq = []          # (values name, original labels name, codes name|None)
    for a in _ast.walk(f.node):
      if isinstance(a, _ast.Assign) and isinstance(a.value, _ast.Call) and \
              _canon(repo.dotted(f.module, a.value.func) or '') == \
              _canon('numpy.unique') and a.value.args and \
              isinstance(a.value.args[0], _ast.Name):
        t = a.targets[0]
        kws = [k.arg for k in a.value.keywords
               if isinstance(k.value, _ast.Constant) and k.value.value]
        if isinstance(t, _ast.Name):
          uniq.append((t.id, a.value.args[0].id, None, a))
        elif isinstance(t, _ast.Tuple) and t.elts and \
                all(isinstance(e, _ast.Name) for e in t.elts):
          codes = None
          order = [k for k in ('return_index', 'return_inverse',
                               'return_counts') if k in kws]
          if 'return_inverse' in order and \
                  len(t.elts) > 1 + order.index('return_inverse'):
            codes = t.elts[1 + order.index('return_inverse')].id
          uniq.append((t.elts[0].id, a.value.args[0].id, codes, a))
    for (U, Y, I, stmt) in uniq:
      if I == Y:
        continue        # the labels name now holds the codes
      # names holding the number of classes
      counts = set()
      for a in _ast.walk(f.node):
        if isinstance(a, _ast.Assign) and isinstance(a.targets[0], _ast.Name) \
                and _ast.unparse(a.value).replace(' ', '') in (
                    'len(%s)' % U, '%s.shape[0]' % U, '%s.size' % U):
          counts.add(a.targets[0].id)
      for lp in _ast.walk(f.node):
        if not (isinstance(lp, _ast.For) and isinstance(lp.target, _ast.Name)
                and isinstance(lp.iter, _ast.Call) and
                _ast.unparse(lp.iter.func) == 'range' and lp.iter.args):
          continue
        bound = _ast.unparse(lp.iter.args[-1]).replace(' ', '')
        if not (bound in counts or bound in ('len(%s)' % U,
                                             '%s.shape[0]' % U,
                                             '%s.size' % U)):
          continue
        cvar = lp.target.id
        for cmp_ in _ast.walk(lp):
          if not (isinstance(cmp_, _ast.Compare) and len(cmp_.ops) == 1 and
                  isinstance(cmp_.ops[0], (_ast.Eq, _ast.NotEq))):
            continue
          sides = [cmp_.left, cmp_.comparators[0]]
          txt = [_ast.unparse(x) for x in sides]
          if cvar not in txt:
            continue
          other = txt[1 - txt.index(cvar)]
          n += 1
          key = '%s:%s' % (f.key, _ast.unparse(cmp_)[:40])
          if other == Y:
            rep.refuted(R, key, site(f, cmp_), '%s compares the labels %s '
                        'with the class position %s (np.unique values are '
                        'in %s): correct only for labels 0..C-1'
                        % (_ast.unparse(cmp_), Y, cvar, U))
          elif I is not None and other == I:
            rep.derived(R, key, site(f, cmp_))
    # the value form y == U[c]
    for (U, Y, I, stmt) in uniq:
      for cmp_ in _ast.walk(f.node):
        if isinstance(cmp_, _ast.Compare) and len(cmp_.ops) == 1 and \
                isinstance(cmp_.ops[0], _ast.Eq):
          txt = [_ast.unparse(cmp_.left), _ast.unparse(cmp_.comparators[0])]
          if Y in txt and any(t.startswith(U + '[') for t in txt):
            n += 1
            rep.derived(R, '%s:%s' % (f.key, _ast.unparse(cmp_)[:40]),
                        site(f, cmp_))
  rep.floor('class-membership comparisons examined', n, 1)


def rule_no_axisless_squeeze(repo, rep, modules=None):
  R = 'R-SHAPE:no-axis-less-squeeze-of-a-batch'
  rep.rule(R, 'no `.squeeze()` / `np.squeeze(x)` WITHOUT an axis is applied, '
           'in the learners, to an array that still carries the sample / '
           'constraint axis of the training data (a slice, a difference of '
           'slices or np.diff along another axis of the validated input): it '
           'removes every unit axis, so with exactly one sample or one '
           'constraint the batch axis disappears too and later products '
           'broadcast silently')
  data_params = {'X', 'pairs', 'triplets', 'quadruplets', 'tuples',
                 'input', 'points', 'pairs_valid'}
  n = 0
  for f in repo.all_functions():
    if modules is not None and f.module.short not in modules:
      continue
    if f.module.short in ('_util', 'sklearn_shims', '_version'):
      continue
    data = set(p for p in f.params() if p in data_params)
    for a in _ast.walk(f.node):
      if isinstance(a, _ast.Assign) and isinstance(a.value, _ast.Call) and \
              _ast.unparse(a.value.func).endswith('_prepare_inputs'):
        t = a.targets[0]
        if isinstance(t, _ast.Name):
          data.add(t.id)
        elif isinstance(t, _ast.Tuple) and t.elts and \
                isinstance(t.elts[0], _ast.Name):
          data.add(t.elts[0].id)

    def batch(e):
      """does e keep the leading sample axis of a data array?"""
      if isinstance(e, _ast.Name):
        return e.id in data
      if isinstance(e, _ast.Subscript):
        sl = e.slice
        first = sl.elts[0] if isinstance(sl, _ast.Tuple) and sl.elts else sl
        keeps = isinstance(first, _ast.Slice) or (
            isinstance(first, _ast.Compare))
        return keeps and batch(e.value)
      if isinstance(e, _ast.BinOp) and isinstance(
              e.op, (_ast.Add, _ast.Sub, _ast.Mult, _ast.Div)):
        return batch(e.left) or batch(e.right)
      if isinstance(e, _ast.Call) and _ast.unparse(e.func).endswith(
              ('np.diff', 'numpy.diff')) and e.args:
        ax = [k.value for k in e.keywords if k.arg == 'axis']
        axv = _ast.unparse(ax[0]) if ax else '-1'
        return axv not in ('0',) and batch(e.args[0])
      if isinstance(e, _ast.Call) and isinstance(e.func, _ast.Attribute) and \
              e.func.attr in ('copy', 'astype'):
        return batch(e.func.value)
      return False
    for c in _ast.walk(f.node):
      if not isinstance(c, _ast.Call):
        continue
      operand = None
      if isinstance(c.func, _ast.Attribute) and c.func.attr == 'squeeze' and \
              not c.args and not c.keywords and \
              not _ast.unparse(c.func.value) in ('np', 'numpy'):
        operand = c.func.value
      elif _ast.unparse(c.func) in ('np.squeeze', 'numpy.squeeze') and \
              len(c.args) == 1 and not c.keywords:
        operand = c.args[0]
      if operand is None:
        continue
      st_ = _astutil.stmt_of(f.node, c)
      un = _astutil.unfold(operand, f.node.body, st_) \
          if st_ in f.node.body else operand
      n += 1
      key = '%s:%s' % (f.key, _ast.unparse(c)[:40])
      if batch(un):
        rep.refuted(R, key, site(f, c), '%s squeezes every unit axis of an '
                    'array that carries the sample / constraint axis of the '
                    'training data: with a single sample or constraint that '
                    'axis is removed as well' % _ast.unparse(c)[:60])
      else:
        rep.derived(R, key, site(f, c))
  if n == 0:
    rep.derived(R, 'package', '', sample=dict(rule=R, sites=0))


def check(repo, rep, tier):
  api.run_rule(repo, rep)
  rule_class_codes_vs_values(repo, rep)
  rule_no_axisless_squeeze(repo, rep)
  rule_return_self_and_components(repo, rep)
  rule_real_components(repo, rep)
  rule_defassign(repo, rep)
  rule_shapes(repo, rep)
  # k <= n_features for SCML's low-rank branch; finite soft-max (NCA, MLKR)
  from . import c15, c10
  c15.rule_low_rank_condition(repo, rep)
  c10.rule_stable_softmax(repo, rep)
  # n_features_in_ reflects the LAST fit: typestate rule of C17, restricted
  from . import c17
  before = len(rep.obs)
  c17.rule_history(repo, rep)
  rep.obs[before:] = [o for o in rep.obs[before:]
                      if o['status'] == 'derived' or
                      'n_features_in_' in o['construct']]




