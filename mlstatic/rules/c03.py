"""C03 - fit on well-formed input yields a valid Mahalanobis model of the
right shape (structural necessary conditions; see DESIGN.md section 4)."""
from ..model import FuncInfo
from ..engine import Engine
from ..tags import TagDomain
from .. import api
from .common import site


def rule_return_self_and_components(repo, rep):
  rep.rule('R-DOM:return-self', 'on every normal exit of every resolved fit '
           'the returned value is the estimator object itself '
           '(interprocedural, through _fit / _fit_full / RCA.fit ...)')
  rep.rule('R-DOM:components-assigned', 'self.components_ is assigned on '
           'every path from the entry of fit to each normal exit')
  n = 0
  for c in repo.estimators():
    f = repo.resolve_method(c, 'fit')
    if not isinstance(f, FuncInfo):
      rep.unknown('R-DOM:return-self', c.name + '.fit', '', 'fit not found')
      continue
    dom = TagDomain()
    eng = Engine(repo, dom, self_cls=c)
    flow = eng.run(f)
    rep.analysed(f)
    if not flow.returns:
      rep.refuted('R-DOM:return-self', c.name + '.fit', site(f),
                  'fit has no normal exit')
      continue
    for (v, st, node) in flow.returns:
      n += 1
      key = '%s.fit@%s' % (c.name, 'end' if node is f.node else 'return')
      if v.obj is not None and v.obj.oid == 'self':
        rep.derived('R-DOM:return-self', key, site(f, node),
                    sample=dict(rule='R-DOM:return-self', estimator=c.name,
                                exit=site(f, node), returned='self')
                    if n == 1 else None)
      elif v.c and v.c is not None and v.const() is None:
        rep.refuted('R-DOM:return-self', key, site(f, node),
                    'fit returns None on this exit instead of the estimator')
      elif v.obj is not None or v.fn is not None or v.elts is not None:
        rep.refuted('R-DOM:return-self', key, site(f, node),
                    'fit returns a value that is not the estimator')
      else:
        rep.unknown('R-DOM:return-self', key, site(f, node),
                    'returned value could not be resolved to an object')
      if ('store', 'self', 'components_') in dom.must(st):
        rep.derived('R-DOM:components-assigned', key, site(f, node))
      else:
        rep.refuted('R-DOM:components-assigned', key, site(f, node),
                    'a path reaches this exit of fit without assigning '
                    'self.components_')
  rep.floor('fit exits analysed', n, 17)


def check(repo, rep, tier):
  api.run_rule(repo, rep)
  rule_return_self_and_components(repo, rep)
