"""C19 - the learned distance depends on the data only through its geometry:
translation invariance and within-tuple swap invariance by equivariance
typing (rotation, scaling, permutation and the learners that are invariant
only through algebraic cancellations are NOT decided)."""
from ..model import FuncInfo
from ..engine import Engine, V
from ..eqv import StickyEqvDomain as EqvDomain
from .common import site

TRANSLATION = ['Covariance', 'ITML', 'ITML_Supervised', 'MMC',
               'MMC_Supervised', 'SDML', 'SDML_Supervised', 'LSML',
               'LSML_Supervised', 'SCML', 'SCML_Supervised', 'LMNN']
DECLINED = {'NCA': 'soft-max weights cancel the translation only through '
                   'zero row sums of the weight matrix',
            'MLKR': 'same cancellation as NCA'}
SWAP = ['ITML', 'MMC', 'SDML', 'LSML']


def check(repo, rep, tier):
  Rt = 'EQV:translation-invariant-fit'
  rep.rule(Rt, 'typing every value of fit as Inv / Abs (moves with the '
           'points) / Lin(W) (linear image of Abs) / Dep: Abs - Abs, '
           'Lin(W) - Lin(W), np.cov(Abs), pairwise distances of Abs, '
           'PCA/LDA components fitted on Abs and index results are Inv; any '
           'product or reduction of absolute coordinates is Dep; the fitted '
           'state (components_, threshold_, bounds_) must be Inv')
  Rs = 'EQV:within-tuple-swap-invariant-fit'
  rep.rule(Rs, 'the difference of the two slots of a pair is odd under the '
           'swap; products / outer products / quadratic forms of an even '
           'number of odd factors are even; the de-duplicated point set is '
           'even; the fitted state must be even')
  # RCA: the in-place centring is certified by C09's structural rules
  from . import c09
  before = len(rep.obs)
  c09.rule_rca(repo, rep)
  rca_ok = all(o['status'] == 'derived' for o in rep.obs[before:]
               if o['rule'] in ('R-FORM:rca-chunk-centering',
                                'R-FORM:rca-every-chunk-centred'))
  Rr = 'EQV:rca-centring-certificate'
  rep.rule(Rr, 'RCA uses the data only through rows with their own chunk '
           'mean subtracted (each chunk centred with the mean of exactly its '
           'rows, every chunk id visited, rows with chunk -1 dropped) and '
           'through np.cov: both are translation invariant')
  rep.add(Rr, 'rca._chunk_mean_centering', 'derived' if rca_ok else
          'unknown', '', '' if rca_ok else 'the centring rules of C09 do not '
          'all hold: translation invariance of RCA not certified')
  # LFDA: the scatter statements equal the pairwise-defined scatters
  before = len(rep.obs)
  c09.rule_lfda_scatter(repo, rep)
  lf = [o for o in rep.obs[before:]]
  lf_ok = lf and all(o['status'] == 'derived' for o in lf)
  Rl = 'EQV:lfda-pairwise-certificate'
  rep.rule(Rl, 'LFDA\'s scatter accumulation equals 1/2 sum_ij W_ij (x_i - '
           'x_j)(x_i - x_j)^T (formula rule of C09), which depends on the '
           'points only through their differences and the affinities, '
           'themselves functions of pairwise distances')
  rep.add(Rl, 'LFDA.fit', 'derived' if lf_ok else
          ('refuted' if any(o['status'] == 'refuted' for o in lf)
           else 'unknown'), '', '' if lf_ok else 'the accumulation is not '
          'the pairwise-defined scatter: translation invariance of LFDA is '
          'not certified (%s)' % '; '.join(o['detail'][:120] for o in lf
                                           if o['status'] != 'derived'))
  n = 0
  for cname in TRANSLATION + ['RCA', 'RCA_Supervised']:
    c = repo.get_class(cname)
    f = repo.resolve_method(c, 'fit')
    dom = EqvDomain(tuple_learner=cname in SWAP)
    dom.centring_certified = rca_ok
    Engine(repo, dom, self_cls=c).run(f)
    rep.analysed(f)
    key = cname + '.fit'
    if not dom.sinks:
      rep.unknown(Rt, key, site(f), 'no fitted state stored')
      continue
    n += 1
    bad = [(a, t, s) for (a, t, p, s) in dom.sinks if t == 'Dep']
    unk = [(a, t, s) for (a, t, p, s) in dom.sinks if t == 'Unk']
    if bad:
      rep.refuted(Rt, '%s:%s' % (key, bad[0][0]), bad[0][2], 'self.%s '
                  'depends on the absolute position of the points (a raw '
                  'coordinate is used where a difference / centred quantity '
                  'is meant)' % bad[0][0])
    elif unk:
      rep.unknown(Rt, '%s:%s' % (key, unk[0][0]), unk[0][2], 'equivariance '
                  'type of self.%s not derivable (operation outside the '
                  'table on a translated value)' % unk[0][0])
    else:
      rep.derived(Rt, key, site(f),
                  sample=dict(rule=Rt, estimator=cname,
                              sinks=sorted(set(a for (a, t, p, s)
                                               in dom.sinks))))
    if cname in SWAP:
      badp = [(a, s) for (a, t, p, s) in dom.sinks if p == 'O']
      unkp = [(a, s) for (a, t, p, s) in dom.sinks if p == 'X']
      if not badp and unkp:
        rep.unknown(Rs, '%s:%s' % (key, unkp[0][0]), unkp[0][1], 'swap parity '
                    'of self.%s not derivable' % unkp[0][0])
      elif badp:
        rep.refuted(Rs, '%s:%s' % (key, badp[0][0]), badp[0][1], 'self.%s is '
                    'not invariant under swapping the two points of a '
                    'training pair (an odd or slot-specific quantity reaches '
                    'it)' % badp[0][0])
      else:
        rep.derived(Rs, key, site(f))
  rep.notes['translation_not_decided_for'] = DECLINED
  rep.floor('estimators typed for translation invariance', n, 13)
