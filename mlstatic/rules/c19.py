"""C19 - the learned distance depends on the data only through its geometry:
translation invariance and within-tuple swap invariance by equivariance
typing (rotation, scaling, permutation and the learners that are invariant
only through algebraic cancellations are NOT decided)."""
from ..model import FuncInfo
from ..engine import Engine, V
from ..eqv import StickyEqvDomain as EqvDomain
from .common import site

TRANSLATION = ['Covariance', 'ITML', 'ITML_Supervised', 'MMC',
               'MMC_Supervised', 'SDML', 'SDML_Supervised', 'LSML',
               'LSML_Supervised', 'SCML', 'SCML_Supervised', 'LMNN']
DECLINED = {'NCA': 'soft-max weights cancel the translation only through '
                   'zero row sums of the weight matrix',
            'MLKR': 'same cancellation as NCA',
            'LFDA': 'scatter matrices cancel through sum x x^T - (sum x)'
                    '(sum x)^T / n',
            'RCA': 'masked in-place centring covers every row only because '
                   'every chunk label lies in 0..max (a runtime fact)',
            'RCA_Supervised': 'as RCA'}
SWAP = ['ITML', 'MMC', 'SDML', 'LSML']


def check(repo, rep, tier):
  Rt = 'EQV:translation-invariant-fit'
  rep.rule(Rt, 'typing every value of fit as Inv / Abs (moves with the '
           'points) / Lin(W) (linear image of Abs) / Dep: Abs - Abs, '
           'Lin(W) - Lin(W), np.cov(Abs), pairwise distances of Abs, '
           'PCA/LDA components fitted on Abs and index results are Inv; any '
           'product or reduction of absolute coordinates is Dep; the fitted '
           'state (components_, threshold_, bounds_) must be Inv')
  Rs = 'EQV:within-tuple-swap-invariant-fit'
  rep.rule(Rs, 'the difference of the two slots of a pair is odd under the '
           'swap; products / outer products / quadratic forms of an even '
           'number of odd factors are even; the de-duplicated point set is '
           'even; the fitted state must be even')
  n = 0
  for cname in TRANSLATION:
    c = repo.get_class(cname)
    f = repo.resolve_method(c, 'fit')
    dom = EqvDomain(tuple_learner=cname in SWAP)
    Engine(repo, dom, self_cls=c).run(f)
    rep.analysed(f)
    key = cname + '.fit'
    if not dom.sinks:
      rep.unknown(Rt, key, site(f), 'no fitted state stored')
      continue
    n += 1
    bad = [(a, t, s) for (a, t, p, s) in dom.sinks if t == 'Dep']
    unk = [(a, t, s) for (a, t, p, s) in dom.sinks if t == 'Unk']
    if bad:
      rep.refuted(Rt, '%s:%s' % (key, bad[0][0]), bad[0][2], 'self.%s '
                  'depends on the absolute position of the points (a raw '
                  'coordinate is used where a difference / centred quantity '
                  'is meant)' % bad[0][0])
    elif unk:
      rep.unknown(Rt, '%s:%s' % (key, unk[0][0]), unk[0][2], 'equivariance '
                  'type of self.%s not derivable (operation outside the '
                  'table on a translated value)' % unk[0][0])
    else:
      rep.derived(Rt, key, site(f),
                  sample=dict(rule=Rt, estimator=cname,
                              sinks=sorted(set(a for (a, t, p, s)
                                               in dom.sinks))))
    if cname in SWAP:
      badp = [(a, s) for (a, t, p, s) in dom.sinks if p == 'O']
      unkp = [(a, s) for (a, t, p, s) in dom.sinks if p == 'X']
      if not badp and unkp:
        rep.unknown(Rs, '%s:%s' % (key, unkp[0][0]), unkp[0][1], 'swap parity '
                    'of self.%s not derivable' % unkp[0][0])
      elif badp:
        rep.refuted(Rs, '%s:%s' % (key, badp[0][0]), badp[0][1], 'self.%s is '
                    'not invariant under swapping the two points of a '
                    'training pair (an odd or slot-specific quantity reaches '
                    'it)' % badp[0][0])
      else:
        rep.derived(Rs, key, site(f))
  rep.notes['translation_not_decided_for'] = DECLINED
  rep.floor('estimators typed for translation invariance', n, 11)
