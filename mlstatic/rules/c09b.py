"""C09, interpretive part: what LFDA does with the solver's eigen-pairs.

The statements of `LFDA.fit` after the call of the generalised eigen-solver
are interpreted (minterp) on symbolic tokens for each documented
`embedding_type`: `vals`, `vecs` are opaque; arg-sorts, reversals, prefix /
suffix selections, `.real`, square roots, QR and transposition are modelled;
whatever reaches `self.components_` is compared with the documented value

  plain            (vecs[:, top-dim by decreasing eigenvalue])^T
  weighted         (the same vectors, each scaled by the square root of ITS
                    eigenvalue)^T
  orthonormalized  (Q of the QR factorisation of the same ordered vectors)^T

however the code spells it (if/elif chain, dispatch table of functions,
helpers, temporaries).  The constructor is interpreted on the three
documented values and on others: it must accept exactly the documented ones.
"""
import ast
from ..minterp import Interp, World, Undecided, Raised, Lib, Closure
from ..model import FuncInfo
from .common import site
from .c07b import S, tg

DOC = ('plain', 'weighted', 'orthonormalized')
TOP = ('desc', 'head')      # the dim largest, in decreasing order


class _TailWorld(World):
  def __init__(self, emb):
    self.emb = emb
    self.stored = []

  def attr(self, it, v, attr, node):
    if v == S('self'):
      if attr == 'embedding_type':
        return self.emb
      return S('selfattr', attr)
    if attr == 'real' and tg(v) in ('vals', 'vals_sel', 'vecs', 'vecs_sel'):
      return v
    if attr == 'T' and tg(v) in ('vecs_sel', 'weighted', 'q', 'vecs', 'orth',
                                 'sel_of'):
      return S('T', v)
    if attr == 'T' and tg(v) == 'T':
      return v[1]
    return NotImplemented

  def setattr(self, it, obj, attr, value, node):
    if obj == S('self'):
      self.stored.append((attr, value, node))
      return None
    return NotImplemented

  def unary(self, it, op, v, node):
    if isinstance(op, ast.USub) and tg(v) in ('vals',):
      return S('negvals')
    if isinstance(op, ast.USub) and v == S('dim'):
      return S('negdim')
    return NotImplemented

  def _sel(self, perm, sl):
    """perm = S('perm', order, part); apply a slice"""
    order, part = perm[1], perm[2]
    lo, hi, step = sl.start, sl.stop, sl.step
    if lo is None and hi is None and step == -1:
      order = 'asc' if order == 'desc' else 'desc'
      part = {'all': 'all', 'head': 'tail*', 'tail': 'head'}.get(part)
      # reversing the ascending tail gives the descending head; reversing a
      # head gives the OTHER end in the other order
      if part == 'tail*':
        part = 'smallest-tail'
      return S('perm', order, part)
    if step is None and lo is None and hi == S('dim') and part == 'all':
      return S('perm', order, 'head')
    if step is None and hi is None and lo == S('negdim') and part == 'all':
      return S('perm', order, 'tail')
    raise Undecided('selection %r of an arg-sort' % (sl,))

  def subscript(self, it, base, idx, node):
    if tg(base) == 'perm' and isinstance(idx, slice):
      return self._sel(base, idx)
    if tg(base) == 'vals' and tg(idx) == 'perm':
      return S('vals_sel', self._norm(idx))
    if tg(base) == 'vecs' and isinstance(idx, tuple) and len(idx) == 2 and \
            idx[0] == slice(None, None, None) and tg(idx[1]) == 'perm':
      return S('vecs_sel', self._norm(idx[1]))
    if tg(base) in ('vals_sel',) and isinstance(idx, slice) and \
            idx == slice(None, None, None):
      return base
    if tg(base) in ('q', 'orth') and base[1] == S('vecs') and \
            isinstance(idx, tuple) and len(idx) == 2 and \
            idx[0] == slice(None, None, None) and tg(idx[1]) == 'perm':
      return S('sel_of', base, self._norm(idx[1]))
    return NotImplemented

  def _norm(self, perm):
    """('desc','head') | ('asc','tail') | other, as a plain pair"""
    return (perm[1], perm[2])

  def binop(self, it, op, a, b, node):
    if isinstance(op, ast.Mult):
      for x, y in ((a, b), (b, a)):
        if tg(x) == 'vecs_sel' and tg(y) == 'sqrtvals':
          return S('weighted', x[1], y[1])
    if isinstance(op, ast.Pow) and tg(a) == 'vals_sel' and \
            str(b) in ('1/2',):
      return S('sqrtvals', a[1])
    return NotImplemented

  def call(self, it, d, recv, args, kwargs, node):
    short = d.rsplit('.', 1)[-1]
    if d.startswith('numpy.') or d.startswith('scipy.'):
      if short == 'argsort' and len(args) == 1 and not kwargs:
        if args[0] == S('negvals'):
          return S('perm', 'desc', 'all')
        if tg(args[0]) == 'vals':
          return S('perm', 'asc', 'all')
      if short in ('flip', 'flipud') and len(args) == 1 and \
              tg(args[0]) == 'perm':
        return self._sel(args[0], slice(None, None, -1))
      if short == 'sqrt' and len(args) == 1 and tg(args[0]) == 'vals_sel':
        return S('sqrtvals', args[0][1])
      if short in ('real', 'abs', 'absolute') and len(args) == 1 and \
              tg(args[0]) in ('vals_sel', 'vecs_sel') and short == 'real':
        return args[0]
      if short == 'qr' and args and tg(args[0]) in (
              'vecs_sel', 'vecs', 'sel_of', 'q', 'weighted', 'orth'):
        return (S('q', args[0]), S('r'))
      if short == 'orth' and args and tg(args[0]) in ('vecs_sel', 'vecs'):
        # an orthonormal basis of the span from the SVD: not the
        # orthonormalisation of the vectors one after the other
        return S('orth', args[0])
      if short in ('multiply',) and len(args) == 2:
        return self.binop(it, ast.Mult(), args[0], args[1], node)
      if short == 'transpose' and len(args) == 1:
        r = self.attr(it, args[0], 'T', node)
        if r is not NotImplemented:
          return r
      if short in ('asarray', 'ascontiguousarray', 'array') and \
              len(args) == 1 and tg(args[0]) in ('T', 'vecs_sel', 'weighted',
                                                 'q'):
        return args[0]
    if d == '.argsort' and tg(recv) == 'vals' and not args:
      return S('perm', 'asc', 'all')
    if d == '.argsort' and recv == S('negvals') and not args:
      return S('perm', 'desc', 'all')
    if d in ('.copy',) and tg(recv) in ('vecs_sel', 'vals_sel', 'T',
                                        'weighted', 'q'):
      return recv
    if d == '.transpose' and not args:
      r = self.attr(it, recv, 'T', node)
      if r is not NotImplemented:
        return r
    return NotImplemented


def _expected(emb):
  v = S('vecs_sel', TOP)
  if emb == 'plain':
    return S('T', v)
  if emb == 'weighted':
    return S('T', S('weighted', TOP, TOP))
  return S('T', S('q', v))


def _describe(v):
  if tg(v) == 'T':
    return '(%s)^T' % _describe(v[1])
  if tg(v) == 'vecs_sel':
    return 'eigenvectors selected as %s' % (v[1],)
  if tg(v) == 'weighted':
    return 'eigenvectors %s scaled by sqrt of the eigenvalues %s' % (v[1],
                                                                      v[2])
  if tg(v) == 'q':
    return 'Q of QR(%s)' % _describe(v[1])
  if tg(v) == 'orth':
    return 'an SVD basis of the span of (%s)' % _describe(v[1])
  if tg(v) == 'sel_of':
    return 'the columns %s of %s' % (v[2], _describe(v[1]))
  if v == S('vecs'):
    return 'the eigenvectors as returned by the solver (not ordered)'
  return repr(v)


def rule_lfda_tail(repo, rep):
  R = 'R-INTERP:lfda-ordering-and-embedding'
  rep.rule(R, 'the statements of LFDA.fit after the eigen-solver call, '
           'interpreted on symbolic eigen-pairs for each documented '
           'embedding_type, store components_ = (the dim eigenvectors of '
           'largest eigenvalue, in decreasing order)^T, for "weighted" each '
           'scaled by the square root of its own eigenvalue, for '
           '"orthonormalized" replaced by Q of their QR factorisation; the '
           'constructor accepts exactly the three documented values')
  c = repo.get_class('LFDA')
  f = repo.resolve_method(c, 'fit') if c is not None else None
  if f is None:
    rep.unknown(R, 'LFDA.fit', '', 'method vanished')
    return
  rep.analysed(f)
  # the solver call: a top-level tuple assignment from lfda._eigh
  cut = None
  for i, s_ in enumerate(f.node.body):
    if isinstance(s_, ast.Assign) and isinstance(s_.value, ast.Call) and \
            (repo.dotted(f.module, s_.value.func) or '').endswith('_eigh') \
            and isinstance(s_.targets[0], ast.Tuple) and \
            len(s_.targets[0].elts) == 2 and \
            all(isinstance(e, ast.Name) for e in s_.targets[0].elts):
      cut = i
  if cut is None:
    rep.unknown(R, 'LFDA.fit', site(f), 'the call of the eigen-solver helper '
                '(vals, vecs = _eigh(...)) is not a top-level statement')
    return
  solver = f.node.body[cut]
  valn, vecn = [e.id for e in solver.targets[0].elts]
  dimn = ast.unparse(solver.value.args[2]) if len(solver.value.args) > 2 \
      else None
  tail = f.node.body[cut + 1:]
  fnode = ast.FunctionDef(name='fit_tail', args=ast.arguments(
      posonlyargs=[], args=[], kwonlyargs=[], kw_defaults=[], defaults=[]),
      body=tail, decorator_list=[], lineno=solver.lineno, col_offset=0)
  fake = FuncInfo(f.module, 'fit', fnode, cls=c)
  free = set(n_.id for s_ in tail for n_ in ast.walk(s_)
             if isinstance(n_, ast.Name) and isinstance(n_.ctx, ast.Load))
  n = 0
  for emb in DOC:
    key = 'LFDA.fit:%s' % emb
    w = _TailWorld(emb)
    env = {}
    for nm in free:
      if nm == 'self':
        env[nm] = S('self')
      elif nm == valn:
        env[nm] = S('vals')
      elif nm == vecn:
        env[nm] = S('vecs')
      elif nm == dimn:
        env[nm] = S('dim')
      elif nm in f.module.aliases or nm in f.module.functions or \
              nm in f.module.const_exprs or nm in f.module.consts or \
              nm in f.module.classes:
        continue
      elif nm in f.params() or any(
              isinstance(x, ast.Name) and x.id == nm and
              isinstance(x.ctx, ast.Store) for s2 in f.node.body[:cut]
              for x in ast.walk(s2)):
        env[nm] = S('free', nm)
    try:
      out = Interp(repo, fake, w).run(env)
    except Undecided as u:
      rep.unknown(R, key, site(f, solver), str(u))
      continue
    n += 1
    if out[0] == 'raise':
      rep.refuted(R, key, site(f, out[2]), 'raises %s for the documented '
                  'embedding_type %r' % (out[1][0], emb))
      continue
    comp = [x for x in w.stored if x[0] == 'components_']
    if not comp:
      rep.refuted(R, key, site(f, solver), 'components_ is not stored for '
                  'embedding_type %r' % emb)
      continue
    got = comp[-1][1]
    want = _expected(emb)
    if got == want:
      rep.derived(R, key, site(f, comp[-1][2]),
                  sample=dict(rule=R, embedding_type=emb,
                              stored=_describe(got)))
    elif tg(got) in ('T', 'vecs_sel', 'weighted', 'q', 'orth', 'sel_of',
                     'vecs'):
      rep.refuted(R, key, site(f, comp[-1][2]), 'for embedding_type %r '
                  'components_ is %s; documented: %s'
                  % (emb, _describe(got), _describe(want)))
    else:
      rep.unknown(R, key, site(f, comp[-1][2]), 'stored value %r is outside '
                  'the interpreted forms' % (got,))
  rep.floor('embedding types interpreted', n, 0)
  # the constructor's table
  init = repo.resolve_method(c, '__init__')
  key = 'LFDA.__init__:embedding_type-values'
  if init is None:
    rep.unknown(R, key, '', 'constructor vanished')
    return
  rep.analysed(init)

  class _InitWorld(World):
    def name(self, it, ident):
      if ident in init.module.classes:
        return S('class', ident)
      return NotImplemented

    def setattr(self, it, obj, attr, value, node):
      return None if obj == S('self') else NotImplemented

    def call(self, it, d, recv, args, kwargs, node):
      if d in ('super', 'builtins.super'):
        return S('super')
      if d == '.__init__' and recv == S('super'):
        return None
      if d == '.format':
        return '<message>'
      return NotImplemented
  for val, ok in [(v, True) for v in DOC] + [
          ('bogus', False), ('Plain', False), ('weight', False), ('', False)]:
    env = dict((p, S('p', p)) for p in init.params())
    env['self'] = S('self')
    if 'embedding_type' not in env:
      rep.unknown(R, key, site(init), 'no parameter embedding_type')
      return
    env['embedding_type'] = val
    try:
      out = Interp(repo, init, _InitWorld()).run(env)
    except Undecided as u:
      rep.unknown(R, key, site(init), '%s (embedding_type=%r)' % (u, val))
      return
    if ok and out[0] == 'raise':
      rep.refuted(R, key, site(init, out[2]), 'the documented value %r is '
                  'rejected (%s)' % (val, out[1][0]))
      return
    if not ok and out[0] != 'raise':
      rep.refuted(R, key, site(init), 'the undocumented value %r is accepted'
                  % val)
      return
    if not ok and 'ValueError' not in out[1]:
      rep.refuted(R, key, site(init, out[2]), 'raises %s, not ValueError, '
                  'for embedding_type=%r' % (out[1][0], val))
      return
  rep.derived(R, key, site(init))
