"""C13 - SDML: the solver is fed the documented problem; no non-SPD /
non-finite result is ever stored (optimality NOT decided)."""
import ast
from ..model import FuncInfo, canon
from ..engine import Engine, V, State, NOCONST
from ..tags import TagDomain, EMPTY
from .. import astutil, guards
from .common import site

GLASSO = set(canon(x) for x in (
    'sklearn.covariance._graph_lasso._graphical_lasso',
    'sklearn.covariance.graphical_lasso'))


class SdmlDomain(TagDomain):
  # path-sensitive: the error flag set in the handler is correlated with the
  # path that skipped the solver
  fork = True
  max_states = 32

  def __init__(self):
    super().__init__()
    self.solver_calls = []
    self.prior_calls = []
    self.stores = []

  def on_store_attr(self, objv, attr, val, node, st):
    super().on_store_attr(objv, attr, val, node, st)
    if attr == 'components_' and objv.obj is not None:
      self.stores.append((('solver',) in self.must(st), self.site(node)))

  def hyperparam(self, cls, name, node):
    return frozenset([('hyper', name)])

  def summary(self, target, args, kwargs, node, st):
    if target.name == '_prepare_inputs' and target.cls is not None:
      return V(EMPTY, elts=(V(frozenset([('in', 'pairs')])),
                            V(frozenset([('in', 'y')]))))
    if target.name == '_initialize_metric_mahalanobis':
      ri = kwargs.get('return_inverse')
      sp = kwargs.get('strict_pd')
      self.prior_calls.append((ri.const() if ri is not None else False,
                               sp.const() if sp is not None else False,
                               self._u(args[1]) if len(args) > 1 else EMPTY,
                               self.site(node)))
      if ri is not None and ri.const() is True:
        return V(EMPTY, elts=(V(frozenset([('prior', 0)])),
                              V(frozenset([('prior', 1)]))))
      return V(frozenset([('prior', 0)]))
    return None

  def ext_call(self, dotted, args, kwargs, node, st, eng):
    if dotted in GLASSO:
      a0 = args[0] if args else kwargs.get('emp_cov')
      alpha = kwargs.get('alpha') or (args[1] if len(args) > 1 else None)
      self.solver_calls.append((self._u(a0) if a0 is not None else EMPTY,
                                self._u(alpha) if alpha is not None
                                else None, self.site(node)))
      self.event(st, ('solver',))
    return super().ext_call(dotted, args, kwargs, node, st, eng)


def rule_problem(repo, rep):
  R = 'DEP:sdml-solver-input'
  rep.rule(R, 'the matrix given to the graphical lasso depends on the '
           'INVERSE prior (element 1 of _initialize_metric_mahalanobis(..., '
           'return_inverse=True, strict_pd=True)), on balance_param, on the '
           'pair differences and on the labels y; its alpha is '
           'self.sparsity_param; the prior option is self.prior')
  c = repo.get_class('SDML')
  f = repo.get_func('sdml._BaseSDML._fit')
  rep.analysed(f)
  dom = SdmlDomain()
  Engine(repo, dom, self_cls=c).run(f)
  if not dom.solver_calls:
    rep.unknown(R, 'sdml._BaseSDML._fit:solver', site(f), 'no graphical '
                'lasso call reached')
  for (tags, alpha, s) in dom.solver_calls:
    need = {('prior', 1): 'the inverse prior',
            ('hyper', 'balance_param'): 'balance_param',
            ('in', 'pairs'): 'the pair differences', ('in', 'y'): 'the labels'}
    missing = [v for k, v in need.items() if k not in tags]
    if ('prior', 0) in tags:
      rep.refuted(R, 'sdml._BaseSDML._fit:solver-input', s, 'the solver '
                  'input depends on the prior itself instead of its inverse')
    elif missing:
      rep.refuted(R, 'sdml._BaseSDML._fit:solver-input', s, 'the solver '
                  'input does not depend on %s' % ', '.join(missing))
    else:
      rep.derived(R, 'sdml._BaseSDML._fit:solver-input', s,
                  sample=dict(rule=R, depends_on=sorted(map(str, tags))))
    if alpha is None or set(alpha) != {('hyper', 'sparsity_param')}:
      rep.refuted(R, 'sdml._BaseSDML._fit:alpha', s, 'alpha derives from %s, '
                  'documented self.sparsity_param'
                  % (sorted(map(str, alpha)) if alpha is not None else None))
    else:
      rep.derived(R, 'sdml._BaseSDML._fit:alpha', s)
  Rs = 'R-DOM:sdml-result-comes-from-the-solver'
  rep.rule(Rs, 'the graphical-lasso call is on every path to the store of '
           'components_ (no shortcut returns a matrix the solver did not '
           'produce)')
  if not dom.stores:
    rep.unknown(Rs, 'sdml._BaseSDML._fit', site(f), 'no store observed')
  for (ok, s) in dom.stores:
    if ok:
      rep.derived(Rs, 'sdml._BaseSDML._fit', s)
    else:
      rep.refuted(Rs, 'sdml._BaseSDML._fit', s, 'a path stores components_ '
                  'without having run the graphical lasso solver')
  for (ri, sp, opt, s) in dom.prior_calls:
    ok = ri is True and sp is True and set(opt) == {('hyper', 'prior')}
    rep.add(R, 'sdml._BaseSDML._fit:prior-call', 'derived' if ok else
            'refuted', s, '' if ok else 'prior requested with '
            'return_inverse=%r strict_pd=%r option=%s' % (ri, sp,
                                                          sorted(map(str, opt))))


def rule_vetting(repo, rep):
  R = 'R-DOM:sdml-result-vetted'
  rep.rule(R, 'components_ is stored only after the test "raised_error is '
           'None and not not_spd and not not_finite" - not_spd from the '
           'eigenvalues of M, not_finite from np.isfinite(M) - whose other '
           'branch raises RuntimeError')
  f = repo.get_func('sdml._BaseSDML._fit')
  body = f.node.body
  store = [s for s in body if isinstance(s, ast.Assign) and
           ast.unparse(s.targets[0]) == 'self.components_']
  raises = [r for r in ast.walk(f.node) if isinstance(r, ast.Raise) and
            r.exc is not None and
            repo.exception_bases(f.module, r.exc)[0] == 'RuntimeError']
  if not store:
    rep.unknown(R, 'sdml._BaseSDML._fit', site(f), 'store of components_ is '
                'not a top-level statement of _fit')
    return
  st = store[-1]
  guard = None
  for s in body[:body.index(st)]:
    if isinstance(s, ast.If) and any(r in list(ast.walk(s)) for r in raises):
      # the raise must be unconditional inside the if body
      if any(isinstance(x, ast.Raise) for x in s.body):
        guard = s
  if guard is None:
    rep.refuted(R, 'sdml._BaseSDML._fit:guard', site(f, st), 'no RuntimeError '
                'guard precedes the store of components_')
    return
  # every failure of the solver is converted: the try around it catches
  # Exception
  Rh = 'R-TRY:sdml-solver-errors-converted'
  rep.rule(Rh, 'the solver call lies in a try whose handler catches '
           'Exception, so that any solver failure becomes the documented '
           'RuntimeError')
  calls = [c for c in astutil.calls_in(f.node)
           if (repo.dotted(f.module, c.func) or '') and
           canon(repo.dotted(f.module, c.func)) in GLASSO]
  for c in calls:
    tries = astutil.enclosing(f.node, c, ast.Try)
    ok = False
    caught = []
    for (t_, ch) in tries:
      for h in t_.handlers:
        if h.type is None:
          ok = True
        else:
          for tt in (h.type.elts if isinstance(h.type, ast.Tuple)
                     else [h.type]):
            nm = repo.exception_bases(f.module, tt)[0]
            caught.append(nm)
            if nm in ('Exception', 'BaseException'):
              ok = True
    if ok:
      rep.derived(Rh, 'sdml._BaseSDML._fit', site(f, c))
    else:
      rep.refuted(Rh, 'sdml._BaseSDML._fit', site(f, c), 'the handler '
                  'around the solver catches only %s: other solver failures '
                  '(e.g. FloatingPointError) escape instead of RuntimeError'
                  % caught)
  # the guard as a disjunction of predicates, per path: through the try body
  # (no exception) and through the handler
  # the solver result: the argument of the conversion that is stored
  Mname = None
  if isinstance(st.value, ast.Call) and st.value.args:
    a0 = st.value.args[0]
    while isinstance(a0, ast.Call) and a0.args and canon(
            repo.dotted(f.module, a0.func) or '') in (
                canon('numpy.atleast_2d'), canon('numpy.asarray')):
      a0 = a0.args[0]
    if isinstance(a0, ast.Name):
      Mname = a0.id
  def dn(e):
    d = repo.dotted(f.module, e)
    return canon(d) if d else None

  def quant(e, neg=False):
    """-> (quantifier, element predicate node, negated?) or None"""
    if isinstance(e, ast.UnaryOp) and isinstance(e.op, ast.Not):
      return quant(e.operand, not neg)
    if isinstance(e, ast.Call) and isinstance(e.func, ast.Name) and \
            e.func.id == 'bool' and len(e.args) == 1:
      return quant(e.args[0], neg)
    q = el = None
    if isinstance(e, ast.Call) and len(e.args) == 1 and not e.keywords and (
            (isinstance(e.func, ast.Name) and e.func.id in ('any', 'all')) or
            dn(e.func) in (canon('numpy.any'), canon('numpy.all'))):
      q = 'any' if ast.unparse(e.func).endswith('any') else 'all'
      el = e.args[0]
    elif isinstance(e, ast.Call) and not e.args and not e.keywords and \
            isinstance(e.func, ast.Attribute) and e.func.attr in ('any', 'all'):
      q, el = e.func.attr, e.func.value
    elif isinstance(e, ast.Compare) and len(e.ops) == 1:
      # min(E) < 0  <=>  any(E < 0)
      l, r = e.left, e.comparators[0]
      op = e.ops[0]
      if isinstance(r, ast.Constant) and r.value == 0 and \
              isinstance(op, (ast.Lt, ast.LtE)):
        m = l
        inner = None
        if isinstance(m, ast.Call) and not m.keywords:
          if isinstance(m.func, ast.Attribute) and m.func.attr == 'min' and \
                  not m.args:
            inner = m.func.value
          elif len(m.args) == 1 and (
                  (isinstance(m.func, ast.Name) and m.func.id == 'min') or
                  dn(m.func) in (canon('numpy.min'), canon('numpy.amin'))):
            inner = m.args[0]
        if inner is not None:
          q = 'any'
          el = ast.Compare(left=inner, ops=[op], comparators=[r])
    if q is None:
      return None
    # not any(P) = all(not P); not all(P) = any(not P)
    if neg:
      return ('all' if q == 'any' else 'any', el, True)
    return (q, el, False)

  def elem(e, neg):
    """-> ('neg', vector name) | ('nonfinite', matrix name) | ('other',)"""
    if isinstance(e, ast.UnaryOp) and isinstance(e.op, ast.Invert):
      return elem(e.operand, not neg)
    if isinstance(e, ast.Compare) and len(e.ops) == 1 and not neg:
      l, r, op = e.left, e.comparators[0], e.ops[0]
      if isinstance(op, (ast.Gt, ast.GtE)):
        l, r = r, l
        op = ast.Lt() if isinstance(op, ast.Gt) else ast.LtE()
      if isinstance(op, (ast.Lt, ast.LtE)) and isinstance(r, ast.Constant) \
              and r.value == 0 and isinstance(l, ast.Name):
        return ('neg', l.id)
    if isinstance(e, ast.Call) and len(e.args) == 1 and not e.keywords and \
            isinstance(e.args[0], ast.Name):
      d = dn(e.func)
      if d == canon('numpy.isfinite') and neg:
        return ('nonfinite', e.args[0].id)
      if d == canon('numpy.isfinite') and not neg:
        return ('finite', e.args[0].id)
    return ('other',)

  def spectrum_of_M(nm):
    for n2 in ast.walk(f.node):
      if not isinstance(n2, ast.Assign) or not isinstance(n2.value, ast.Call):
        continue
      d = dn(n2.value.func)
      args_ = [ast.unparse(a) for a in n2.value.args]
      if args_[:1] != [Mname]:
        continue
      tg = n2.targets[0]
      if d in (canon('numpy.linalg.eigh'), canon('scipy.linalg.eigh')) and \
              isinstance(tg, ast.Tuple) and tg.elts and \
              isinstance(tg.elts[0], ast.Name) and tg.elts[0].id == nm:
        return True
      if d in (canon('numpy.linalg.eigvalsh'), canon('scipy.linalg.eigvalsh'))\
              and isinstance(tg, ast.Name) and tg.id == nm:
        return True
    return False

  tries = [t_ for c in calls for (t_, ch) in astutil.enclosing(f.node, c,
                                                                ast.Try)]
  if not tries:
    rep.unknown(R, 'sdml._BaseSDML._fit:guard', site(f, guard), 'the solver '
                'call is not inside a try statement')
    return
  tr = tries[0]

  def det_of_M(nm):
    for n2 in ast.walk(f.node):
      if isinstance(n2, ast.Assign) and isinstance(n2.value, ast.Call) and \
              dn(n2.value.func) in (canon('numpy.linalg.slogdet'),
                                    canon('numpy.linalg.det'),
                                    canon('scipy.linalg.det')) and \
              [ast.unparse(a) for a in n2.value.args][:1] == [Mname]:
        if nm in [x.id for x in ast.walk(n2.targets[0])
                  if isinstance(x, ast.Name)]:
          return True
    return False

  def pred_of(e):
    """atomic predicate -> 'neg' | 'nonfinite' | 'bad:<text>' | None"""
    if isinstance(e, ast.Compare):
      for side in [e.left] + list(e.comparators):
        if isinstance(side, ast.Name) and det_of_M(side.id):
          return 'bad:%s (a determinant sign: positive whenever an even ' \
              'number of eigenvalues is negative)' % ast.unparse(e)
        if isinstance(side, ast.Call) and dn(side.func) in (
                canon('numpy.linalg.det'), canon('scipy.linalg.det')):
          return 'bad:%s (a determinant sign: positive whenever an even ' \
              'number of eigenvalues is negative)' % ast.unparse(e)
    qv = quant(e)
    if qv is None:
      return None
    q, el, ng = qv
    kind = elem(el, ng)
    txt = ast.unparse(e)
    if kind[0] == 'neg':
      if not spectrum_of_M(kind[1]):
        return None
      return 'neg' if q == 'any' else 'bad:' + txt
    if kind[0] == 'nonfinite' and kind[1] == Mname:
      return 'nonfinite' if q == 'any' else 'bad:' + txt
    if kind[0] == 'finite' and kind[1] == Mname:
      return 'bad:' + txt
    return None

  def bval(e, env):
    """-> ('const', bool) | ('or', frozenset of predicates) | None"""
    if isinstance(e, ast.Constant) and isinstance(e.value, bool):
      return ('const', e.value)
    if isinstance(e, ast.Name):
      return env.get(e.id)
    if isinstance(e, ast.BoolOp) and isinstance(e.op, ast.Or):
      acc = set()
      for x in e.values:
        v = bval(x, env)
        if v is None:
          return None
        if v == ('const', True):
          return v
        if v[0] == 'or':
          acc |= v[1]
      return ('or', frozenset(acc)) if acc else ('const', False)
    if isinstance(e, ast.Compare) and len(e.ops) == 1 and \
            isinstance(e.ops[0], (ast.Is, ast.IsNot)) and \
            isinstance(e.left, ast.Name) and \
            isinstance(e.comparators[0], ast.Constant) and \
            e.comparators[0].value is None:
      v = env.get(e.left.id)
      if v == ('none',):
        return ('const', isinstance(e.ops[0], ast.Is))
      if v == ('exc',):
        return ('const', isinstance(e.ops[0], ast.IsNot))
      return None
    if isinstance(e, ast.UnaryOp) and isinstance(e.op, ast.Not):
      v = bval(e.operand, env)
      if v is not None and v[0] == 'const':
        return ('const', not v[1])
    p_ = pred_of(e)
    if p_ is not None:
      return ('or', frozenset([p_]))
    return None

  def run(stmts, env):
    for s_ in stmts:
      if isinstance(s_, ast.Assign) and len(s_.targets) == 1 and \
              isinstance(s_.targets[0], ast.Name):
        v = s_.value
        if isinstance(v, ast.Constant) and v.value is None:
          env[s_.targets[0].id] = ('none',)
        elif isinstance(v, ast.Name) and env.get(v.id) == ('exc',):
          env[s_.targets[0].id] = ('exc',)
        else:
          env[s_.targets[0].id] = bval(v, env)
    return env
  pre = [s_ for s_ in body if s_.lineno < tr.lineno]
  between = [s_ for s_ in body if tr.end_lineno < s_.lineno < guard.lineno]
  paths = {}
  env = run(pre, {})
  paths['no exception'] = run(between, run(tr.body + tr.orelse, dict(env)))
  for h in tr.handlers:
    e2 = dict(env)
    if h.name:
      e2[h.name] = ('exc',)
    paths['solver raised'] = run(between, run(h.body, e2))
  gv = {k: bval(guard.test, v) for k, v in paths.items()}
  key = 'sdml._BaseSDML._fit:'
  # a solver failure always reaches the RuntimeError
  ge = gv.get('solver raised')
  if ge == ('const', True):
    rep.derived(R, key + 'guard', site(f, guard))
  elif ge is None:
    rep.unknown(R, key + 'guard', site(f, guard), 'value of the guard %s on '
                'the handler path not derivable' % ast.unparse(guard.test))
  else:
    rep.refuted(R, key + 'guard', site(f, guard), 'after a solver exception '
                'the guard %s is %s: the failure does not become the '
                'documented RuntimeError' % (ast.unparse(guard.test), ge))
  gn = gv.get('no exception')
  for what, txt_ in (('neg', 'a negative eigenvalue of the solver result'),
                     ('nonfinite', 'a non-finite entry of the solver result')):
    k_ = key + ('not_spd' if what == 'neg' else 'not_finite')
    if gn is None:
      rep.unknown(R, k_, site(f, guard), 'the guard %s is not a disjunction '
                  'of recognised predicates' % ast.unparse(guard.test))
    elif gn[0] == 'or' and any(p_.startswith('bad:') for p_ in gn[1]):
      b_ = [p_ for p_ in gn[1] if p_.startswith('bad:')][0]
      rep.refuted(R, k_, site(f, guard), 'the test %s does not mean "there '
                  'is %s"' % (b_[4:], txt_))
    elif gn == ('const', True) or (gn[0] == 'or' and what in gn[1]):
      rep.derived(R, k_, site(f, guard))
    else:
      rep.refuted(R, k_, site(f, guard), 'components_ is stored although '
                  'there may be %s: the guard is %s' % (
                      txt_, sorted(gn[1]) if gn[0] == 'or' else gn))


def rule_forms(repo, rep):
  R = 'R-FORM:sdml-empirical-matrix'
  rep.rule(R, 'the matrix handed to the graphical lasso is M0^-1 + '
           'balance_param * D^T Diag(y) D, D the pair differences (either '
           'orientation) and M0^-1 the second element of the prior pair - '
           'decided in the algebra of matrix words, for any spelling and any '
           'use of temporaries')
  from ..ncalg import NC, NCEval, _diag
  from ..ratfunc import Rat as _Rat
  f = repo.get_func('sdml._BaseSDML._fit')
  key = 'sdml._BaseSDML._fit:'

  def canon_of(e):
    d_ = repo.dotted(f.module, e)
    return canon(d_) if d_ else None
  Dm = NC.atom('D')
  P = NC.atom('M0inv', symmetric=True)
  yv = NC({(('m', 'y', False, False),): _Rat.const(1)}, 'row')
  bp = _Rat.sym('bp')
  params = f.params()
  pairs_n, y_n = params[1], params[2]

  def special(e):
    # pairs[:, a] - pairs[:, b] (with or without the trailing `, :`)
    if isinstance(e, ast.BinOp) and isinstance(e.op, ast.Sub):
      t = [ast.unparse(x).replace(' ', '') for x in (e.left, e.right)]
      forms = [('%s[:,0]' % pairs_n, '%s[:,1]' % pairs_n),
               ('%s[:,0,:]' % pairs_n, '%s[:,1,:]' % pairs_n)]
      for a, b in forms:
        if t in ([a, b], [b, a]):
          return Dm
    return None
  ev = NCEval({y_n: yv}, {'self.balance_param': bp}, canon_of,
              special=special)
  solver_arg = None
  seen_prior = False
  for s_ in f.node.body:
    calls = [c for c in ast.walk(s_) if isinstance(c, ast.Call) and
             canon(repo.dotted(f.module, c.func) or '') in GLASSO]
    if calls:
      solver_arg = calls[0].args[0] if calls[0].args else None
      break
    if isinstance(s_, ast.Assign) and len(s_.targets) == 1:
      t0 = s_.targets[0]
      if isinstance(t0, ast.Tuple) and isinstance(s_.value, ast.Call) and \
              (repo.dotted(f.module, s_.value.func) or '').endswith(
                  '_initialize_metric_mahalanobis') and len(t0.elts) == 2 and \
              isinstance(t0.elts[1], ast.Name):
        ev.mats[t0.elts[1].id] = P
        seen_prior = True
      elif isinstance(t0, ast.Name) and t0.id not in (pairs_n, y_n):
        v = ev.ev(s_.value)
        if isinstance(v, NC):
          ev.mats[t0.id] = v
        elif isinstance(v, _Rat):
          ev.scalars[t0.id] = v
        else:
          ev.mats.pop(t0.id, None)
    elif isinstance(s_, ast.AugAssign) and isinstance(s_.target, ast.Name) \
            and isinstance(s_.op, (ast.Mult, ast.Add, ast.Sub, ast.Div)):
      # x op= e is x = x op e for this evaluation
      nm = s_.target.id
      v = ev.ev(ast.BinOp(left=ast.Name(id=nm, ctx=ast.Load()), op=s_.op,
                          right=s_.value))
      ev.mats.pop(nm, None)
      ev.scalars.pop(nm, None)
      if isinstance(v, NC):
        ev.mats[nm] = v
      elif isinstance(v, _Rat):
        ev.scalars[nm] = v
    else:
      # any other statement that can change a tracked temporary (element
      # store, in-place call, nested block) makes its value unknown here
      for x in ast.walk(s_):
        tg_ = None
        if isinstance(x, (ast.AugAssign,)):
          tg_ = x.target
        elif isinstance(x, ast.Assign):
          for t_ in x.targets:
            for y_ in ast.walk(t_):
              if isinstance(y_, ast.Name) and y_.id not in (pairs_n, y_n):
                ev.mats.pop(y_.id, None)
                ev.scalars.pop(y_.id, None)
        if tg_ is not None:
          for y_ in ast.walk(tg_):
            if isinstance(y_, ast.Name):
              ev.mats.pop(y_.id, None)
              ev.scalars.pop(y_.id, None)
  if solver_arg is None or not seen_prior:
    rep.unknown(R, key + 'emp_cov', site(f), 'solver call / prior pair not '
                'found')
    return
  got = ev.ev(solver_arg)
  loss = Dm.T().mul(_diag(yv.T())).mul(Dm)
  want = P.add(loss.scale(bp))
  if not isinstance(got, NC):
    rep.unknown(R, key + 'emp_cov', site(f), 'solver input %s is outside the '
                'evaluated matrix forms' % ast.unparse(solver_arg))
  elif got == want:
    rep.derived(R, key + 'emp_cov', site(f),
                sample=dict(rule=R, normal_form=repr(got)))
  else:
    rep.refuted(R, key + 'emp_cov', site(f), 'the solver input is %r, '
                'documented %r' % (got, want))


def check(repo, rep, tier):
  # the prior whose inverse enters the objective is the documented one
  # (option forms of _initialize_metric_mahalanobis, strictly PD, computed
  # from the training pairs): rules shared with C20
  from . import c20
  c20.rule_metric_init(repo, rep)
  before = len(rep.obs)
  c20.rule_strict_sites(repo, rep)
  c20.rule_prior_inputs(repo, rep)
  rep.obs[before:] = [o for o in rep.obs[before:]
                      if o['construct'].startswith('SDML')]
  rule_problem(repo, rep)
  # the loss matrix is D^T Diag(y) D also for a single pair: no axis-less
  # squeeze of the pair differences
  from . import c03 as _c03
  _c03.rule_no_axisless_squeeze(repo, rep, modules=('sdml',))
  rule_forms(repo, rep)
  rule_vetting(repo, rep)
