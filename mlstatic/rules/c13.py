"""C13 - SDML: the solver is fed the documented problem; no non-SPD /
non-finite result is ever stored (optimality NOT decided)."""
import ast
from ..model import FuncInfo, canon
from ..engine import Engine, V, State, NOCONST
from ..tags import TagDomain, EMPTY
from .. import astutil, guards
from .common import site

GLASSO = set(canon(x) for x in (
    'sklearn.covariance._graph_lasso._graphical_lasso',
    'sklearn.covariance.graphical_lasso'))


class SdmlDomain(TagDomain):
  # path-sensitive: the error flag set in the handler is correlated with the
  # path that skipped the solver
  fork = True
  max_states = 32

  def __init__(self):
    super().__init__()
    self.solver_calls = []
    self.prior_calls = []
    self.stores = []

  def on_store_attr(self, objv, attr, val, node, st):
    super().on_store_attr(objv, attr, val, node, st)
    if attr == 'components_' and objv.obj is not None:
      self.stores.append((('solver',) in self.must(st), self.site(node)))

  def hyperparam(self, cls, name, node):
    return frozenset([('hyper', name)])

  def summary(self, target, args, kwargs, node, st):
    if target.name == '_prepare_inputs' and target.cls is not None:
      return V(EMPTY, elts=(V(frozenset([('in', 'pairs')])),
                            V(frozenset([('in', 'y')]))))
    if target.name == '_initialize_metric_mahalanobis':
      ri = kwargs.get('return_inverse')
      sp = kwargs.get('strict_pd')
      self.prior_calls.append((ri.const() if ri is not None else False,
                               sp.const() if sp is not None else False,
                               self._u(args[1]) if len(args) > 1 else EMPTY,
                               self.site(node)))
      if ri is not None and ri.const() is True:
        return V(EMPTY, elts=(V(frozenset([('prior', 0)])),
                              V(frozenset([('prior', 1)]))))
      return V(frozenset([('prior', 0)]))
    return None

  def ext_call(self, dotted, args, kwargs, node, st, eng):
    if dotted in GLASSO:
      a0 = args[0] if args else kwargs.get('emp_cov')
      alpha = kwargs.get('alpha') or (args[1] if len(args) > 1 else None)
      self.solver_calls.append((self._u(a0) if a0 is not None else EMPTY,
                                self._u(alpha) if alpha is not None
                                else None, self.site(node)))
      self.event(st, ('solver',))
    return super().ext_call(dotted, args, kwargs, node, st, eng)


def rule_problem(repo, rep):
  R = 'DEP:sdml-solver-input'
  rep.rule(R, 'the matrix given to the graphical lasso depends on the '
           'INVERSE prior (element 1 of _initialize_metric_mahalanobis(..., '
           'return_inverse=True, strict_pd=True)), on balance_param, on the '
           'pair differences and on the labels y; its alpha is '
           'self.sparsity_param; the prior option is self.prior')
  c = repo.get_class('SDML')
  f = repo.get_func('sdml._BaseSDML._fit')
  rep.analysed(f)
  dom = SdmlDomain()
  Engine(repo, dom, self_cls=c).run(f)
  if not dom.solver_calls:
    rep.unknown(R, 'sdml._BaseSDML._fit:solver', site(f), 'no graphical '
                'lasso call reached')
  for (tags, alpha, s) in dom.solver_calls:
    need = {('prior', 1): 'the inverse prior',
            ('hyper', 'balance_param'): 'balance_param',
            ('in', 'pairs'): 'the pair differences', ('in', 'y'): 'the labels'}
    missing = [v for k, v in need.items() if k not in tags]
    if ('prior', 0) in tags:
      rep.refuted(R, 'sdml._BaseSDML._fit:solver-input', s, 'the solver '
                  'input depends on the prior itself instead of its inverse')
    elif missing:
      rep.refuted(R, 'sdml._BaseSDML._fit:solver-input', s, 'the solver '
                  'input does not depend on %s' % ', '.join(missing))
    else:
      rep.derived(R, 'sdml._BaseSDML._fit:solver-input', s,
                  sample=dict(rule=R, depends_on=sorted(map(str, tags))))
    if alpha is None or set(alpha) != {('hyper', 'sparsity_param')}:
      rep.refuted(R, 'sdml._BaseSDML._fit:alpha', s, 'alpha derives from %s, '
                  'documented self.sparsity_param'
                  % (sorted(map(str, alpha)) if alpha is not None else None))
    else:
      rep.derived(R, 'sdml._BaseSDML._fit:alpha', s)
  Rs = 'R-DOM:sdml-result-comes-from-the-solver'
  rep.rule(Rs, 'the graphical-lasso call is on every path to the store of '
           'components_ (no shortcut returns a matrix the solver did not '
           'produce)')
  if not dom.stores:
    rep.unknown(Rs, 'sdml._BaseSDML._fit', site(f), 'no store observed')
  for (ok, s) in dom.stores:
    if ok:
      rep.derived(Rs, 'sdml._BaseSDML._fit', s)
    else:
      rep.refuted(Rs, 'sdml._BaseSDML._fit', s, 'a path stores components_ '
                  'without having run the graphical lasso solver')
  for (ri, sp, opt, s) in dom.prior_calls:
    ok = ri is True and sp is True and set(opt) == {('hyper', 'prior')}
    rep.add(R, 'sdml._BaseSDML._fit:prior-call', 'derived' if ok else
            'refuted', s, '' if ok else 'prior requested with '
            'return_inverse=%r strict_pd=%r option=%s' % (ri, sp,
                                                          sorted(map(str, opt))))


def rule_vetting(repo, rep):
  R = 'R-DOM:sdml-result-vetted'
  rep.rule(R, 'components_ is stored only after the test "raised_error is '
           'None and not not_spd and not not_finite" - not_spd from the '
           'eigenvalues of M, not_finite from np.isfinite(M) - whose other '
           'branch raises RuntimeError')
  f = repo.get_func('sdml._BaseSDML._fit')
  body = f.node.body
  store = [s for s in body if isinstance(s, ast.Assign) and
           ast.unparse(s.targets[0]) == 'self.components_']
  raises = [r for r in ast.walk(f.node) if isinstance(r, ast.Raise) and
            r.exc is not None and
            repo.exception_bases(f.module, r.exc)[0] == 'RuntimeError']
  if not store:
    rep.unknown(R, 'sdml._BaseSDML._fit', site(f), 'store of components_ is '
                'not a top-level statement of _fit')
    return
  st = store[-1]
  guard = None
  for s in body[:body.index(st)]:
    if isinstance(s, ast.If) and any(r in list(ast.walk(s)) for r in raises):
      # the raise must be unconditional inside the if body
      if any(isinstance(x, ast.Raise) for x in s.body):
        guard = s
  if guard is None:
    rep.refuted(R, 'sdml._BaseSDML._fit:guard', site(f, st), 'no RuntimeError '
                'guard precedes the store of components_')
    return
  # every failure of the solver is converted: the try around it catches
  # Exception
  Rh = 'R-TRY:sdml-solver-errors-converted'
  rep.rule(Rh, 'the solver call lies in a try whose handler catches '
           'Exception, so that any solver failure becomes the documented '
           'RuntimeError')
  calls = [c for c in astutil.calls_in(f.node)
           if (repo.dotted(f.module, c.func) or '') and
           canon(repo.dotted(f.module, c.func)) in GLASSO]
  for c in calls:
    tries = astutil.enclosing(f.node, c, ast.Try)
    ok = False
    caught = []
    for (t_, ch) in tries:
      for h in t_.handlers:
        if h.type is None:
          ok = True
        else:
          for tt in (h.type.elts if isinstance(h.type, ast.Tuple)
                     else [h.type]):
            nm = repo.exception_bases(f.module, tt)[0]
            caught.append(nm)
            if nm in ('Exception', 'BaseException'):
              ok = True
    if ok:
      rep.derived(Rh, 'sdml._BaseSDML._fit', site(f, c))
    else:
      rep.refuted(Rh, 'sdml._BaseSDML._fit', site(f, c), 'the handler '
                  'around the solver catches only %s: other solver failures '
                  '(e.g. FloatingPointError) escape instead of RuntimeError'
                  % caught)
  atoms_ = set()
  t = guard.test
  parts = t.values if isinstance(t, ast.BoolOp) and \
      isinstance(t.op, ast.Or) else [t]
  for p in parts:
    atoms_.add(astutil.norm_atom(p))
  err = [a for a in atoms_ if a.endswith('is not None')]
  flags = sorted(a for a in atoms_ if a not in err)
  ok = len(err) == 1 and len(flags) >= 2
  rep.add(R, 'sdml._BaseSDML._fit:guard', 'derived' if ok else 'refuted',
          site(f, guard), '' if ok else 'guard tests only %s'
          % sorted(atoms_))
  # what the flags mean
  defs = {}
  for n in ast.walk(f.node):
    if isinstance(n, ast.Assign) and isinstance(n.targets[0], ast.Name):
      defs.setdefault(n.targets[0].id, []).append(n.value)
  # the solver result: the argument of the conversion that is stored
  Mname = None
  if isinstance(st.value, ast.Call) and st.value.args:
    a0 = st.value.args[0]
    while isinstance(a0, ast.Call) and a0.args and canon(
            repo.dotted(f.module, a0.func) or '') in (
                canon('numpy.atleast_2d'), canon('numpy.asarray')):
      a0 = a0.args[0]
    if isinstance(a0, ast.Name):
      Mname = a0.id
  def dn(e):
    d = repo.dotted(f.module, e)
    return canon(d) if d else None

  def quant(e, neg=False):
    """-> (quantifier, element predicate node, negated?) or None"""
    if isinstance(e, ast.UnaryOp) and isinstance(e.op, ast.Not):
      return quant(e.operand, not neg)
    if isinstance(e, ast.Call) and isinstance(e.func, ast.Name) and \
            e.func.id == 'bool' and len(e.args) == 1:
      return quant(e.args[0], neg)
    q = el = None
    if isinstance(e, ast.Call) and len(e.args) == 1 and not e.keywords and (
            (isinstance(e.func, ast.Name) and e.func.id in ('any', 'all')) or
            dn(e.func) in (canon('numpy.any'), canon('numpy.all'))):
      q = 'any' if ast.unparse(e.func).endswith('any') else 'all'
      el = e.args[0]
    elif isinstance(e, ast.Call) and not e.args and not e.keywords and \
            isinstance(e.func, ast.Attribute) and e.func.attr in ('any', 'all'):
      q, el = e.func.attr, e.func.value
    elif isinstance(e, ast.Compare) and len(e.ops) == 1:
      # min(E) < 0  <=>  any(E < 0)
      l, r = e.left, e.comparators[0]
      op = e.ops[0]
      if isinstance(r, ast.Constant) and r.value == 0 and \
              isinstance(op, (ast.Lt, ast.LtE)):
        m = l
        inner = None
        if isinstance(m, ast.Call) and not m.keywords:
          if isinstance(m.func, ast.Attribute) and m.func.attr == 'min' and \
                  not m.args:
            inner = m.func.value
          elif len(m.args) == 1 and (
                  (isinstance(m.func, ast.Name) and m.func.id == 'min') or
                  dn(m.func) in (canon('numpy.min'), canon('numpy.amin'))):
            inner = m.args[0]
        if inner is not None:
          q = 'any'
          el = ast.Compare(left=inner, ops=[op], comparators=[r])
    if q is None:
      return None
    # not any(P) = all(not P); not all(P) = any(not P)
    if neg:
      return ('all' if q == 'any' else 'any', el, True)
    return (q, el, False)

  def elem(e, neg):
    """-> ('neg', vector name) | ('nonfinite', matrix name) | ('other',)"""
    if isinstance(e, ast.UnaryOp) and isinstance(e.op, ast.Invert):
      return elem(e.operand, not neg)
    if isinstance(e, ast.Compare) and len(e.ops) == 1 and not neg:
      l, r, op = e.left, e.comparators[0], e.ops[0]
      if isinstance(op, (ast.Gt, ast.GtE)):
        l, r = r, l
        op = ast.Lt() if isinstance(op, ast.Gt) else ast.LtE()
      if isinstance(op, (ast.Lt, ast.LtE)) and isinstance(r, ast.Constant) \
              and r.value == 0 and isinstance(l, ast.Name):
        return ('neg', l.id)
    if isinstance(e, ast.Call) and len(e.args) == 1 and not e.keywords and \
            isinstance(e.args[0], ast.Name):
      d = dn(e.func)
      if d == canon('numpy.isfinite') and neg:
        return ('nonfinite', e.args[0].id)
      if d == canon('numpy.isfinite') and not neg:
        return ('finite', e.args[0].id)
    return ('other',)

  def spectrum_of_M(nm):
    for n2 in ast.walk(f.node):
      if not isinstance(n2, ast.Assign) or not isinstance(n2.value, ast.Call):
        continue
      d = dn(n2.value.func)
      args_ = [ast.unparse(a) for a in n2.value.args]
      if args_[:1] != [Mname]:
        continue
      tg = n2.targets[0]
      if d in (canon('numpy.linalg.eigh'), canon('scipy.linalg.eigh')) and \
              isinstance(tg, ast.Tuple) and tg.elts and \
              isinstance(tg.elts[0], ast.Name) and tg.elts[0].id == nm:
        return True
      if d in (canon('numpy.linalg.eigvalsh'), canon('scipy.linalg.eigvalsh'))\
              and isinstance(tg, ast.Name) and tg.id == nm:
        return True
    return False

  res = {'not_spd': [], 'not_finite': []}
  for fl in flags:
    for v in defs.get(fl, []):
      if isinstance(v, ast.Constant):
        continue
      qv = quant(v)
      if qv is None:
        res['not_spd'].append(('unknown', fl, ast.unparse(v)))
        res['not_finite'].append(('unknown', fl, ast.unparse(v)))
        continue
      q, el, ng = qv
      kind = elem(el, ng)
      if kind[0] == 'neg':
        if not spectrum_of_M(kind[1]):
          res['not_spd'].append(('unknown', fl, ast.unparse(v)))
        else:
          res['not_spd'].append(('ok' if q == 'any' else 'bad', fl,
                                 ast.unparse(v)))
      elif kind[0] == 'nonfinite' and kind[1] == Mname:
        res['not_finite'].append(('ok' if q == 'any' else 'bad', fl,
                                  ast.unparse(v)))
      elif kind[0] == 'finite' and kind[1] == Mname:
        # any(finite) / all(finite) without negation is not a failure flag
        res['not_finite'].append(('bad', fl, ast.unparse(v)))
      else:
        res['not_spd'].append(('unknown', fl, ast.unparse(v)))
        res['not_finite'].append(('unknown', fl, ast.unparse(v)))
  for what, txt_ in (('not_spd', 'a negative eigenvalue of the solver '
                      'result'),
                     ('not_finite', 'a non-finite entry of the solver '
                      'result')):
    rs = res[what]
    key = 'sdml._BaseSDML._fit:' + what
    if any(r[0] == 'ok' for r in rs) and not any(r[0] == 'bad' for r in rs):
      rep.derived(R, key, site(f, guard))
    elif any(r[0] == 'bad' for r in rs):
      b = [r for r in rs if r[0] == 'bad'][0]
      rep.refuted(R, key, site(f, guard), 'flag %s = %s does not mean '
                  '"there is %s"' % (b[1], b[2], txt_))
    elif any(r[0] == 'unknown' for r in rs):
      u = [r for r in rs if r[0] == 'unknown'][0]
      rep.unknown(R, key, site(f, guard), 'flag %s = %s is not a recognised '
                  'predicate form' % (u[1], u[2]))
    else:
      rep.refuted(R, key, site(f, guard), 'no flag of the guard is derived '
                  'from %s' % txt_)


def rule_forms(repo, rep):
  R = 'R-FORM:sdml-empirical-matrix'
  rep.rule(R, 'loss_matrix is sum_i y_i v_i v_i^T = diff^T Diag(y) diff and '
           'the solver input is prior_inv + balance_param * loss_matrix '
           '(plus sign, linear in the loss matrix)')
  from ..ratfunc import Rat, LinM, eval_expr
  f0 = repo.get_func('sdml._BaseSDML._fit')
  # roles: emp_cov = the matrix handed to the solver; prior_inv = second
  # element of the (M, M^-1) pair; loss_matrix = the other matrix in the
  # solver input; diff = the matrix the loss matrix is built from
  roles = {}
  for n in ast.walk(f0.node):
    if isinstance(n, ast.Call) and \
            canon(repo.dotted(f0.module, n.func) or '') in GLASSO and \
            n.args and isinstance(n.args[0], ast.Name):
      roles[n.args[0].id] = 'emp_cov'
    if isinstance(n, ast.Assign) and isinstance(n.targets[0], ast.Tuple) and \
            isinstance(n.value, ast.Call) and \
            (repo.dotted(f0.module, n.value.func) or '').endswith(
                '_initialize_metric_mahalanobis') and \
            len(n.targets[0].elts) == 2 and \
            isinstance(n.targets[0].elts[1], ast.Name):
      roles[n.targets[0].elts[1].id] = 'prior_inv'
  ecn = next((k for k, v in roles.items() if v == 'emp_cov'), None)
  pin = next((k for k, v in roles.items() if v == 'prior_inv'), None)
  ecd = [v for (n, v) in guards.assignments(f0.node, ecn or '?')
         if v is not None]
  if ecd:
    oth = set(x.id for x in ast.walk(ecd[0]) if isinstance(x, ast.Name)) - \
        {pin, 'self', 'np'}
    if len(oth) == 1:
      roles[oth.pop()] = 'loss_matrix'
  lmn = next((k for k, v in roles.items() if v == 'loss_matrix'), None)
  lmd = [v for (n, v) in guards.assignments(f0.node, lmn or '?')
         if v is not None]
  if lmd:
    oth = set(x.id for x in ast.walk(lmd[0]) if isinstance(x, ast.Name)) - \
        {'y', 'np', 'self', 'pairs'}
    if len(oth) == 1:
      roles[oth.pop()] = 'diff'
  f = astutil.role_view(f0, roles)
  if f is None:
    rep.unknown(R, 'sdml._BaseSDML._fit', site(f0), 'roles %s cannot be given '
                'canonical names' % roles)
    return
  lm = [v for (n, v) in guards.assignments(f.node, 'loss_matrix')
        if v is not None]
  okl = lm and ast.unparse(lm[0]) in (
      '(diff.T * y).dot(diff)', 'np.dot(diff.T * y, diff)',
      'diff.T.dot(y[:, None] * diff)', '(diff * y[:, None]).T.dot(diff)',
      'np.einsum(\'ij,i,ik->jk\', diff, y, diff)')
  rep.add(R, 'sdml._BaseSDML._fit:loss_matrix', 'derived' if okl else
          'unknown', site(f), '' if okl else 'loss_matrix = %s is not in the '
          'table of forms of diff^T Diag(y) diff'
          % (ast.unparse(lm[0]) if lm else None))
  df = [v for (n, v) in guards.assignments(f.node, 'diff') if v is not None]
  okd = df and ast.unparse(df[0]) in ('pairs[:, 0] - pairs[:, 1]',
                                      'pairs[:, 1] - pairs[:, 0]',
                                      'pairs[:, 0, :] - pairs[:, 1, :]',
                                      'pairs[:, 1, :] - pairs[:, 0, :]')
  rep.add(R, 'sdml._BaseSDML._fit:diff', 'derived' if okd else 'unknown',
          site(f), '' if okd else 'diff = %s not recognised'
          % (ast.unparse(df[0]) if df else None))
  ec = [v for (n, v) in guards.assignments(f.node, 'emp_cov') if v is not None]
  v = eval_expr(ec[0], {'self.balance_param': 'bp'},
                {'prior_inv': 'P', 'loss_matrix': 'Lm'}) if ec else None
  want = LinM.atom('P') + LinM.atom('Lm').scale(Rat.sym('bp'))
  if v is None:
    rep.unknown(R, 'sdml._BaseSDML._fit:emp_cov', site(f), 'emp_cov not '
                'derivable')
  else:
    rep.add(R, 'sdml._BaseSDML._fit:emp_cov', 'derived' if v == want else
            'refuted', site(f), '' if v == want else 'solver input is %r, '
            'documented %r' % (v, want))


def check(repo, rep, tier):
  rule_problem(repo, rep)
  rule_forms(repo, rep)
  rule_vetting(repo, rep)
