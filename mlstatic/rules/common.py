"""Shared helpers for the per-property rule modules."""
import ast
from ..model import FuncInfo, ClassInfo, AnalysisError
from ..engine import Engine, V, State, NOCONST

QUERY_METHODS = ['transform', 'pair_distance', 'pair_score', 'score_pairs',
                 'predict', 'decision_function', 'score', 'get_metric',
                 'get_mahalanobis_matrix']
DATA_METHODS = ['fit', 'transform', 'pair_distance', 'pair_score',
                'score_pairs', 'predict', 'decision_function', 'score',
                'calibrate_threshold']
PUBLIC_METHODS = DATA_METHODS + ['get_metric', 'get_mahalanobis_matrix',
                                 'set_threshold', '__init__']


def site(func, node=None):
  n = node if node is not None else func.node
  return '%s:%d %s' % (func.module.relpath, getattr(n, 'lineno', 0),
                       func.qualname)


def methods_of(repo, cls, names):
  out = []
  for n in names:
    f = repo.resolve_method(cls, n)
    if isinstance(f, FuncInfo) and not f.is_abstract:
      out.append((n, f))
  return out


def nested_functions(func):
  out = []
  for n in ast.walk(func.node):
    if isinstance(n, ast.FunctionDef) and n is not func.node:
      out.append(FuncInfo(func.module, n.name, n, parent=func))
  return out


def norm_src(node):
  """Normalised source text of a node (for symbolic, line-free keys)."""
  return ast.unparse(node)
