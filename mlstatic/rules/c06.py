"""C06 - malformed input is always rejected with ValueError (totality of
validation; what scikit-learn's validator accepts is not decided here)."""
import ast
from ..model import FuncInfo, AnalysisError
from ..engine import Engine, V, NOCONST
from ..tags import TagDomain
from ..taint import TaintDomain, is_raw
from .. import api, astutil, guards
from .common import site, methods_of, DATA_METHODS

LABEL_NAMES = ('y', 'chunks', 'y_valid')
PAIR_METHODS = ('pair_distance', 'pair_score', 'score_pairs')
VALIDATORS = ['_util.check_input', '_util.check_input_tuples',
              '_util.check_input_classic', '_util.check_tuple_size',
              '_util.check_y_valid_values_for_pairs',
              '_util._check_n_components', '_util.validate_vector',
              '_util.make_error_input',
              'base_metric._PairsClassifierMixin._validate_calibration_params',
              'base_metric._PairsClassifierMixin.set_threshold']


def data_args(f, labels=True):
  ps = f.params()[1:]
  out = {}
  for i, p in enumerate(ps):
    if i == 0 or (labels and p in LABEL_NAMES):
      out[p] = V(frozenset([('raw', p)]), origin=('param', p))
  return out


def rule_taint(repo, rep, labels=True):
  R = 'TAINT:validation-dominates-use'
  rep.rule(R, 'in every public data-taking method the raw data / label '
           'argument flows only into the validators (check_input via '
           '_prepare_inputs, check_array / check_X_y) or unchanged into the '
           'data parameter of a repo method obeying the same rule; any other '
           'use of the unvalidated argument is a refutation')
  Rb = 'TAINT:validator-returns-validated'
  rep.rule(Rb, 'every value returned by check_input has passed the strict '
           'check_array call (finiteness True, numeric dtype, min samples / '
           'features >= 1) on every path')
  Rt = 'R-FLOW:tuple-size'
  rep.rule(Rt, 'the tuple_size reaching check_tuple_size from a tuple-taking '
           "method is the estimator's _tuple_size (2 for pair_* methods), "
           'never None')
  n = 0
  for c in repo.estimators():
    _, ts_expr = repo.class_attr(c, '_tuple_size')
    ts = ast.literal_eval(ts_expr) if ts_expr is not None else None
    for name, f in methods_of(repo, c, DATA_METHODS):
      args = data_args(f, labels)
      if not args:
        continue
      n += 1
      dom = TaintDomain()
      eng = Engine(repo, dom, self_cls=c)
      eng.run(f, args=args)
      rep.analysed(f)
      key = '%s.%s' % (c.name, name)
      if dom.raw_uses:
        seen = set()
        for (p, what, s, fn) in dom.raw_uses:
          k = (p, what, fn.key if fn else '')
          if k in seen:
            continue
          seen.add(k)
          rep.refuted(R, '%s:%s:%s@%s' % (key, p, what, fn.key if fn else ''),
                      s, 'unvalidated argument %r of %s is used (%s) before '
                      '/ without validation' % (p, key, what))
      else:
        rep.derived(R, key, site(f),
                    sample=dict(rule=R, method=key, raw_params=sorted(args),
                                validator_calls=len(dom.strict_calls))
                    if n in (1, 30) else None)
      bad = [(t, s) for (t, s) in dom.check_input_returns
             if 'valid' not in t or 'conv' in t or is_raw(t)]
      if bad and getattr(eng, 'depth_cuts', 0) and not bad[0][0]:
        # nothing is known about the value: a callee on this chain was not
        # analysed (call depth cap), so nothing is concluded
        rep.unknown(Rb, key, bad[0][1], 'the validators are beyond the call '
                    'depth analysed from this entry point')
      elif bad:
        rep.refuted(Rb, key, bad[0][1],
                    'check_input can return data that did not pass the strict '
                    'validation (tags %s)' % sorted(map(str, bad[0][0])))
      elif dom.check_input_returns:
        rep.derived(Rb, key, site(f))
      # tuple sizes
      if name in PAIR_METHODS:
        expect = {2}
      elif ts is not None:
        expect = {ts, 2}
      else:
        expect = None
      if dom.tuple_sizes:
        wrong = []
        for (cset, s) in dom.tuple_sizes:
          if cset is NOCONST:
            wrong.append(('unknown', s))
          elif expect is not None and not (set(cset) <= expect):
            wrong.append((sorted(map(repr, cset)), s))
        mainsize = dom.tuple_sizes[0][0]
        if name not in PAIR_METHODS and ts is not None and name in (
                'predict', 'decision_function', 'score', 'fit',
                'calibrate_threshold') and mainsize != frozenset([ts]):
          wrong.append((sorted(map(repr, mainsize))
                        if mainsize is not NOCONST else 'unknown',
                        dom.tuple_sizes[0][1]))
        if wrong:
          rep.refuted(Rt, key, wrong[0][1],
                      'tuple_size reaching check_tuple_size is %s, expected %s'
                      % (wrong[0][0], ts if name not in PAIR_METHODS else 2))
        else:
          rep.derived(Rt, key, site(f))
  rep.floor('data-taking (estimator, method) pairs', n, 95)


def rule_validators(repo, rep):
  R = 'R-RAISE:valueerror'
  rep.rule(R, 'every raise reachable inside the input validators resolves to '
           'ValueError or a subclass')
  n = 0
  for key in VALIDATORS:
    f = repo.get_func(key)
    dom = TagDomain()
    eng = Engine(repo, dom, self_cls=f.cls)
    flow = eng.run(f)
    rep.analysed(f)
    bad = [(names, node) for (names, st, node) in flow.raises
           if 'ValueError' not in names and 'PreprocessorError' not in names]
    n += len(flow.raises)
    if bad:
      rep.refuted(R, key, site(f, bad[0][1]),
                  'validator raises %s, not a ValueError' % bad[0][0][0])
    else:
      rep.derived(R, key, site(f))
  # always-raising helper
  f = repo.get_func('_util.make_error_input')
  flow = Engine(repo, TagDomain()).run(f)
  if flow.returns:
    rep.refuted('R-DOM:make_error_input-always-raises', '_util.make_error_input',
                site(f), 'make_error_input can return normally')
  else:
    rep.derived('R-DOM:make_error_input-always-raises',
                '_util.make_error_input', site(f))
  rep.floor('raise sites in validators', n, 10)


def rule_tuples_shape(repo, rep):
  R = 'R-DOM:tuples-checked'
  rep.rule(R, 'every normal return of check_input_tuples has passed '
           'check_tuple_size and the test that the array is 3-D; of '
           'check_input_classic the test that it is 2-D')
  for key, nd in (('_util.check_input_tuples', 3),
                  ('_util.check_input_classic', 2)):
    f = repo.get_func(key)
    dom = TagDomain()
    flow = Engine(repo, dom).run(f)
    for (v, st, node) in flow.returns:
      ok = True
      if nd == 3 and ('call', '_util.check_tuple_size') not in dom.must(st):
        rep.refuted(R, key + ':check_tuple_size', site(f, node),
                    'a path returns without calling check_tuple_size')
        ok = False
      fact = st.vars.get(('@attr', 'input_data', 'ndim'))
      if fact is None or fact.c != frozenset([nd]):
        rep.refuted(R, key + ':ndim', site(f, node),
                    'a path returns without having established ndim == %d'
                    % nd)
        ok = False
      if ok:
        rep.derived(R, key, site(f, node))
  # label alphabet check: guard must not be stronger than documented
  f = repo.get_func('_util.check_input')
  calls = [c for c in astutil.calls_in(f.node)
           if isinstance(c.func, ast.Name) and
           c.func.id == 'check_y_valid_values_for_pairs']
  Rl = 'R-GUARD:pair-labels-checked'
  rep.rule(Rl, 'check_y_valid_values_for_pairs(y) is called in check_input '
           "under no condition stronger than: tuples input, y given, tuple "
           'size 2')
  if not calls:
    # the call may sit in a helper / a dispatch table: that invalid pair
    # labels are rejected (and valid ones accepted) for every input layout is
    # decided by R-INTERP:input-validation-table
    rep.unknown(Rl, '_util.check_input', site(f), 'check_input does not call '
                'check_y_valid_values_for_pairs directly') if not \
        _table_ok(repo, rep) else None
  for c in calls:
    conds = set(astutil.path_condition(f.node, c))
    allowed = {"type_of_inputs == 'tuples'", "type_of_inputs != 'classic'",
               'y is not None', 'input_data.shape[1] == 2',
               'tuple_size == 2'}
    extra = conds - allowed
    # a condition held in a boolean temporary counts as its definition
    for x in list(extra):
      if x.isidentifier():
        dfn = [v for (n_, v) in guards.assignments(f.node, x)
               if v is not None]
        if len(dfn) == 1 and astutil.norm_atom(dfn[0]) in allowed:
          extra.discard(x)
    if extra:
      rep.refuted(Rl, '_util.check_input', site(f, c),
                  'label check only performed under extra condition(s) %s'
                  % sorted(extra))
    else:
      rep.derived(Rl, '_util.check_input', site(f, c))


def _table_ok(repo, rep):
  from ..report import Report
  from . import c06b
  tmp = Report(rep.pid)
  try:
    c06b.rule_validation_table(repo, tmp)
  except Exception:
    return False
  return bool(tmp.obs) and all(o['status'] == 'derived' for o in tmp.obs)


def rule_label_alphabet(repo, rep):
  R = 'R-INTERP:pair-label-alphabet'
  rep.rule(R, 'check_y_valid_values_for_pairs, interpreted on concrete label '
           'vectors (all +-1; containing 0, 2, 3, -2, 1/2, 3/2, -3/2 at any '
           'position; length 1..4), raises ValueError exactly when some '
           '|y_i| != 1 (a cast that maps 3/2 onto 1 is visible as an accepted '
           'invalid vector)')
  from ..minterp import Interp, World, Arr, Undecided
  from fractions import Fraction as F
  f = repo.get_func('_util.check_y_valid_values_for_pairs')
  if f is None or not f.params():
    rep.unknown(R, '_util.check_y_valid_values_for_pairs', '',
                'function vanished')
    return
  rep.analysed(f)
  y = f.params()[0]
  good = [[1], [-1], [1, -1], [-1, -1, 1], [1, 1, 1, 1], [-1, 1, -1, 1]]
  bad = []
  for v in (0, 2, 3, -2, F(1, 2), F(3, 2), F(-3, 2), F(-1, 2)):
    bad += [[v], [1, v], [v, -1], [1, -1, v], [-1, v, 1, 1]]
  n = 0
  for ys, want_raise in [(g, False) for g in good] + [(b_, True) for b_ in bad]:
    try:
      out = Interp(repo, f, World()).run({y: Arr(ys)})
    except Undecided as u:
      rep.unknown(R, '_util.check_y_valid_values_for_pairs:test', site(f),
                  '%s (labels %s)' % (u, ys))
      return
    n += 1
    if want_raise and out[0] != 'raise':
      rep.refuted(R, '_util.check_y_valid_values_for_pairs:accepts-invalid',
                  site(f), 'the labels %s are accepted' % (
                      [str(x) for x in ys],))
      return
    if want_raise and 'ValueError' not in out[1]:
      rep.refuted(R, '_util.check_y_valid_values_for_pairs:exception',
                  site(f, out[2]), 'raises %s, not ValueError, for the '
                  'labels %s' % (out[1][0], [str(x) for x in ys]))
      return
    if not want_raise and out[0] == 'raise':
      rep.refuted(R, '_util.check_y_valid_values_for_pairs:rejects-valid',
                  site(f, out[2]), 'the valid labels %s are rejected' % ys)
      return
  rep.derived(R, '_util.check_y_valid_values_for_pairs', site(f),
              sample=dict(rule=R, vectors=n))
  rep.floor('label vectors interpreted', n, 40)


def rule_n_components(repo, rep):
  R = 'R-DOM:n-components-checked'
  rep.rule(R, '_check_n_components is called on every path of fit of the '
           'learners with an n_components option')
  Rb = 'R-GUARD:n-components-range'
  rep.rule(Rb, '_check_n_components returns n_components only under '
           '1 <= n_components <= n_features and n_features only when it is '
           'None; otherwise raises ValueError')
  for cname in ('LMNN', 'NCA', 'MLKR', 'LFDA', 'RCA', 'RCA_Supervised'):
    c = repo.get_class(cname)
    f = repo.resolve_method(c, 'fit')
    dom = TagDomain()
    flow = Engine(repo, dom, self_cls=c).run(f)
    for (v, st, node) in flow.returns:
      if ('call', '_util._check_n_components') in dom.must(st):
        rep.derived(R, cname + '.fit', site(f, node))
      else:
        rep.refuted(R, cname + '.fit', site(f, node),
                    'a path through fit never range-checks n_components')
  # the range check itself, interpreted over the order partition of
  # n_components relative to 1 and n_features (exact: every comparison of the
  # function relates n_components, n_features, 0 and 1 only)
  f = repo.get_func('_util._check_n_components')
  rep.analysed(f)
  params = f.params()
  if len(params) != 2:
    rep.unknown(Rb, '_util._check_n_components', site(f), 'unexpected params')
    return
  nf, nc = params
  from ..guardeval import run_function, Undecided, only_compares
  if not only_compares(f.node, {nf, nc}, {0, 1}):
    rep.unknown(Rb, '_util._check_n_components', site(f), 'the function '
                'compares other quantities than n_components, n_features, 0 '
                'and 1: the order partition is not exact for it')
    return
  D = 5
  for val, want in ((None, ('return', D)), (-1, 'ValueError'),
                    (0, 'ValueError'), (1, ('return', 1)), (3, ('return', 3)),
                    (D, ('return', D)), (D + 1, 'ValueError')):
    key = '_util._check_n_components:n_components=%s' % (
        'None' if val is None else '<1' if val < 1 else 'n_features+1'
        if val > D else 'n_features' if val == D else '1' if val == 1
        else 'inside')
    if val == -1:
      key += '(negative)'
    try:
      got = run_function(repo, f, {nf: D, nc: val})
    except Undecided as u:
      rep.unknown(Rb, key, site(f), 'outside the interpreted forms: %s' % u)
      continue
    rep.add(Rb, key, 'derived' if got == want else 'refuted', site(f),
            '' if got == want else 'with n_features = %d the function gives '
            '%s, documented %s' % (D, got, want))


def rule_calibration_first(repo, rep):
  R = 'R-DOM:calibration-params-validated-first'
  rep.rule(R, '_validate_calibration_params precedes _fit in ITML/MMC/SDML '
           'fit and precedes _prepare_inputs in calibrate_threshold')
  VAL = ('call',
         'base_metric._PairsClassifierMixin._validate_calibration_params')
  for cname in ('ITML', 'MMC', 'SDML'):
    c = repo.get_class(cname)
    for mname, target in (('fit', '_fit'),
                          ('calibrate_threshold', '_prepare_inputs')):
      f = repo.resolve_method(c, mname)
      dom = TagDomain()
      seen = []

      def cb(kind, tgt, args, kwargs, node, st, dom=dom, seen=seen):
        if len(dom.eng.stack) == 1:
          seen.append(VAL in dom.must(st))
      dom.probes.append((lambda kind, tgt, node, target=target:
                         kind == 'repo' and tgt.name == target, cb))
      Engine(repo, dom, self_cls=c).run(f)
      key = '%s.%s' % (cname, mname)
      if not seen:
        rep.unknown(R, key, site(f), 'no call to %s found' % target)
      elif all(seen):
        rep.derived(R, key, site(f))
      else:
        rep.refuted(R, key, site(f), '%s is reached before the calibration '
                    'parameters were validated' % target)


# ------------------------------------------------- integer-dtype safety
from ..tags import EMPTY as _E
from ..model import canon as _canon

_FLOAT_FUNCS = set(_canon(x) for x in (
    'numpy.sqrt', 'numpy.exp', 'numpy.log', 'numpy.mean', 'numpy.cov',
    'numpy.std', 'numpy.var', 'numpy.linalg.norm', 'numpy.linalg.inv',
    'numpy.linalg.eigh', 'numpy.linalg.eig', 'numpy.linalg.cholesky',
    'numpy.linalg.pinv', 'numpy.linalg.lstsq', 'numpy.linalg.slogdet',
    'scipy.linalg.eigh', 'scipy.linalg.pinvh', 'scipy.linalg.eig',
    'scipy.linalg.norm', 'numpy.zeros', 'numpy.ones', 'numpy.eye',
    'numpy.empty', 'numpy.logspace', 'numpy.linspace', 'numpy.percentile',
    'sklearn.metrics.pairwise_distances', 'sklearn.metrics.euclidean_distances',
    'scipy.special.logsumexp', 'numpy.divide', 'numpy.true_divide',
    'numpy.random.randn', 'builtins.float', 'numpy.float64', 'numpy.inf',
    'sklearn.datasets.make_spd_matrix', 'numpy.finfo'))
_KEEP_FUNCS = set(_canon(x) for x in (
    'numpy.sum', 'numpy.abs', 'numpy.absolute', 'numpy.square', 'numpy.dot',
    'numpy.matmul', 'numpy.einsum', 'numpy.outer', 'numpy.vstack',
    'numpy.hstack', 'numpy.column_stack', 'numpy.concatenate', 'numpy.unique',
    'numpy.sort', 'numpy.take', 'numpy.maximum', 'numpy.minimum',
    'numpy.asarray', 'numpy.asanyarray', 'numpy.array', 'numpy.atleast_2d',
    'numpy.atleast_1d', 'numpy.zeros_like', 'numpy.ones_like',
    'numpy.full_like', 'numpy.empty_like', 'numpy.cumsum', 'numpy.diag',
    'numpy.tile', 'numpy.repeat', 'numpy.ravel', 'numpy.transpose',
    'numpy.multiply', 'numpy.add', 'numpy.subtract', 'numpy.negative',
    'numpy.max', 'numpy.min', 'numpy.amax', 'numpy.amin', 'numpy.copy',
    'numpy.squeeze', 'numpy.reshape', 'numpy.triu', 'numpy.tril'))
_ARITH_FUNCS = set(_canon(x) for x in (
    'numpy.square', 'numpy.dot', 'numpy.matmul', 'numpy.einsum', 'numpy.outer',
    'numpy.multiply', 'numpy.add', 'numpy.subtract', 'numpy.negative',
    'numpy.cumsum'))
_KEEP_METHODS = {'dot', 'sum', 'max', 'min', 'copy', 'ravel', 'reshape',
                 'flatten', 'squeeze', 'transpose', 'cumsum', 'take', 'repeat',
                 'swapaxes', 'prod', 'round', 'clip'}
_FLOAT_METHODS = {'mean', 'std', 'var'}


class IntDomain(TagDomain):
  """'mayint': array whose dtype follows the (possibly integer) user data;
  'float': certainly floating point."""

  def __init__(self, hyper_float, data_float=False):
    super().__init__()
    self.hyper_float = hyper_float
    # does the central validator hand out floating-point data for integer
    # input (decided by c06b.validated_dtype on the validator itself)?
    self.data_float = data_float
    self.problems = []
    self.arith = []       # arithmetic carried out in the data's integer dtype

  def _is_lab(self, v):
    return 'lab' in (v.d or _E)

  def _int_arith(self, what, operands, node):
    """all array operands have the (possibly unsigned / narrow) integer dtype
    of the user's data and none is a label vector: the result is computed in
    that dtype"""
    ks = [self._cls(v) for v in operands]
    if 'mayint' in ks and all(k in ('mayint', 'int') for k in ks) and \
            not any(self._is_lab(v) for v in operands):
      self.arith.append((what, self.site(node), self.cur()))

  def flow(self, tags):
    return _E

  def _cls(self, v):
    d = v.d or _E
    # both tags = float on one path, user dtype on another (a join)
    if 'mayint' in d:
      return 'mayint'
    if 'float' in d:
      return 'float'
    c = v.const()
    if c is not NOCONST:
      if isinstance(c, bool) or isinstance(c, int):
        return 'int'
      if isinstance(c, float):
        return 'float'
    return None

  def _combine(self, *vals):
    ks = [self._cls(v) for v in vals]
    if 'float' in ks:
      return frozenset(['float'])
    if ks and all(k in ('mayint', 'int') for k in ks) and 'mayint' in ks:
      return frozenset(['mayint', 'lab']) if any(
          self._is_lab(v) for v in vals) else frozenset(['mayint'])
    return _E

  def param(self, func, name, index):
    # arguments of the entry point are user objects like hyper-parameters
    return frozenset(['hp'])

  def hyperparam(self, cls, name, node):
    # 'hp': a hyper-parameter that may be an array-like of any dtype
    return frozenset(['float']) if name in self.hyper_float \
        else frozenset(['hp'])

  def summary(self, target, args, kwargs, node, st):
    is_prep = target.name == '_prepare_inputs' and target.cls is not None
    if is_prep or target.key == '_util.check_input':
      dt = kwargs.get('dtype')
      flt = dt is not None and ((dt.fn and dt.fn[0] == 'ext' and
                                 dt.fn[1] in ('builtins.float',
                                              'numpy.float64')) or
                                dt.const() in ('float', 'float64'))
      if dt is None and self.data_float:
        flt = True          # the validator's default: see validated_dtype
      tag = frozenset(['float' if flt else 'mayint'])
      y = (args[2] if len(args) > 2 else kwargs.get('y')) if is_prep else \
          (args[1] if len(args) > 1 else kwargs.get('y'))
      x = V(tag, ty='ndarray')
      if y is None or (y.c is not NOCONST and y.const() is None):
        return x
      return V(_E, elts=(x, V(frozenset(['mayint', 'lab']), ty='ndarray')))
    return None

  def binop(self, op, l, r, node, st):
    if isinstance(op, ast.Div):
      return frozenset(['float'])
    if isinstance(op, ast.Pow):
      k = self._cls(r)
      if k == 'float':
        return frozenset(['float'])
      if k == 'int':
        self._int_arith('power', [l], node)
      return self._combine(l) if k == 'int' else _E
    if isinstance(op, (ast.Add, ast.Sub, ast.Mult, ast.MatMult, ast.FloorDiv,
                       ast.Mod)):
      if isinstance(op, (ast.Add, ast.Sub, ast.Mult, ast.MatMult)):
        self._int_arith({ast.Add: 'sum', ast.Sub: 'difference',
                         ast.Mult: 'product', ast.MatMult: 'matrix product'}
                        [type(op)], [l, r], node)
      return self._combine(l, r)
    return _E

  def unop(self, op, v, node, st):
    if isinstance(op, ast.USub):
      self._int_arith('negation', [v], node)
    return self._combine(v) if isinstance(op, (ast.USub, ast.UAdd)) else _E

  def compare(self, ops, vals, node, st):
    return _E

  def attr(self, v, name, node, st):
    if name in ('T', 'real'):
      return self._combine(v)
    if name == 'dtype' and self._cls(v) == 'mayint':
      return V(_E, origin=('dtype-of', 'mayint'))
    return _E

  def subscript(self, v, idx, node, st):
    return self._combine(v)

  def iter_elem(self, v, node, st):
    return V(self._combine(v))

  def unpack(self, v, n, node, st):
    return [V(self._combine(v)) for _ in range(n)]

  def tuple(self, elts, node, st):
    return _E

  def ext_call(self, dotted, args, kwargs, node, st, eng):
    if 'dtype' in kwargs:
      dt = kwargs['dtype']
      if (dt.fn and dt.fn[0] == 'ext' and dt.fn[1] in (
              'builtins.float', 'numpy.float64')) or \
              dt.const() in ('float', 'float64'):
        return frozenset(['float'])
      if not (dt.c is not NOCONST and dt.const() is None):
        return _E
    out = kwargs.get('out')
    if out is not None and self._cls(out) == 'mayint' and dotted in (
            _canon('numpy.divide'), _canon('numpy.true_divide'),
            _canon('numpy.sqrt'), _canon('numpy.exp'), _canon('numpy.log')):
      self.problems.append(('out= of %s' % dotted, self.site(node),
                            self.cur()))
    if dotted in (_canon('sklearn.utils.check_array'),
                  _canon('numpy.asarray'), _canon('numpy.array'),
                  _canon('numpy.asanyarray')) and args and \
            'hp' in (args[0].d or _E):
      # an array-like hyper-parameter converted without a float dtype keeps
      # the user's (possibly integer) dtype
      return frozenset(['mayint'])
    if dotted == _canon('numpy.full') and len(args) >= 2:
      return self._combine(args[1])
    if dotted in _FLOAT_FUNCS:
      return frozenset(['float'])
    if dotted in _KEEP_FUNCS:
      arrs = [a for a in args if a.d or a.const() is not NOCONST]
      # einsum: first argument is the subscript string
      arrs = [a for a in args if not isinstance(a.const(), str)]
      if dotted in _ARITH_FUNCS and arrs:
        self._int_arith(dotted.rsplit('.', 1)[-1], arrs, node)
      return self._combine(*arrs) if arrs else _E
    return _E

  def method_call(self, recv, name, args, kwargs, node, st, eng):
    if name == 'astype':
      a = args[0] if args else kwargs.get('dtype')
      if a is not None and a.origin == ('dtype-of', 'mayint') and \
              not isinstance(getattr(node.func, 'value', None),
                             (ast.Compare, ast.BoolOp)):
        self.problems.append(('cast to the dtype of the user\'s data '
                              '(.astype(<data>.dtype))', self.site(node),
                              self.cur()))
        return frozenset(['mayint'])
      if a is not None and ((a.fn and a.fn[0] == 'ext' and a.fn[1] in (
              'builtins.float', 'numpy.float64')) or
              a.const() in ('float', 'float64')):
        return frozenset(['float'])
      return _E
    if name in _FLOAT_METHODS:
      return frozenset(['float'])
    if name in _KEEP_METHODS:
      if name == 'dot' and args:
        self._int_arith('dot', [recv, args[0]], node)
      elif name in ('prod', 'cumsum'):
        self._int_arith(name, [recv], node)
      return self._combine(recv, *args) if name == 'dot' else \
          self._combine(recv)
    return _E

  def on_store_subscript(self, target, idx, val, node, st):
    if self._cls(target) == 'mayint' and self._cls(val) == 'float' and \
            isinstance(node, ast.Assign):
      self.problems.append(('store of a floating-point value into an '
                            'element', self.site(node), self.cur()))
    return target.d or _E

  def on_augassign(self, kind, target, op, val, node, st):
    tk = self._cls(target)
    vk = self._cls(val)
    if tk == 'mayint':
      if isinstance(op, (ast.Div, ast.Pow)) and not (
              isinstance(op, ast.Pow) and vk == 'int'):
        self.problems.append(('in-place %s' % type(op).__name__,
                              self.site(node), self.cur()))
      elif vk == 'float' and isinstance(op, (ast.Add, ast.Sub, ast.Mult,
                                             ast.MatMult)):
        self.problems.append(('in-place %s with a floating-point operand'
                              % type(op).__name__, self.site(node),
                              self.cur()))
      elif isinstance(op, (ast.Add, ast.Sub, ast.Mult, ast.MatMult)):
        self._int_arith('in-place %s' % type(op).__name__, [target, val],
                        node)
      return target.d
    if kind in ('name', 'attr'):
      return self.binop(op, target, val, node, st)
    return _E


_DATA_FACT = {}


def rule_int_safe(repo, rep, only=None):
  R = 'DTYPE:integer-data-safe-inplace'
  rep.rule(R, 'no in-place arithmetic (x /= e, x **= e, x op= <float>, '
           'ufunc(..., out=x)) and no store of a floating-point value '
           'targets an array whose dtype follows the user\'s data or an '
           'array-like argument / hyper-parameter (validated without float '
           'conversion): numpy raises a casting TypeError or truncates for '
           'integer input, so integer arrays / lists of ints would not give '
           'the same result as float64 data')
  n = 0
  for c in repo.estimators():
    if only is not None and c.name not in only:
      continue
    f = repo.resolve_method(c, 'fit')
    init = repo.resolve_method(c, '__init__')
    hf = set()
    if isinstance(init, FuncInfo):
      for p, d in init.defaults().items():
        if isinstance(d, ast.Constant) and isinstance(d.value, float):
          hf.add(p)
    # what the validators hand out for integer input is decided on the
    # validator itself (c06b.validated_dtype); only an int-preserving
    # validator makes the data arrays 'mayint'
    global _DATA_FACT
    if _DATA_FACT.get(id(repo)) is None:
      from . import c06b
      _DATA_FACT[id(repo)] = c06b.validated_dtype(repo)[0]
    dom = IntDomain(hf, data_float=(_DATA_FACT[id(repo)] == 'float'))
    Engine(repo, dom, self_cls=c).run(f)
    n += 1
    key = c.name + '.fit'
    seen = set()
    for (what, s, fn) in dom.problems:
      k = (what, fn.key if fn else '')
      if k in seen:
        continue
      seen.add(k)
      rep.refuted(R, '%s:%s@%s' % (key, what, fn.key if fn else ''), s,
                  '%s on an array that has the dtype of the user\'s data: '
                  'raises a casting error (or truncates) for integer input'
                  % what)
    if not seen:
      rep.derived(R, key, site(f))
  rep.floor('fit entry points analysed for integer-dtype safety', n,
            17 if only is None else len(only))


def rule_int_arith(repo, rep, methods=None, closure=True):
  """Use-site half of "integer arrays holding the same numbers give the same
  results": no difference / product / power is computed in the integer dtype
  of the user's data.  The source half - which dtype the central validator
  hands out for integer input - is decided by interpretation
  (c06b.validated_dtype) and feeds the summaries of check_input /
  _prepare_inputs."""
  from . import c06b
  from .common import DATA_METHODS
  R = 'DTYPE:no-arithmetic-in-the-integer-dtype-of-the-data'
  rep.rule(R, 'for every data-taking method (and the function returned by '
           'get_metric) no sum, difference, product, power or matrix product '
           'has only operands whose dtype follows the user\'s integer data: '
           'numpy computes it in that dtype, so unsigned data wraps around in '
           'differences (3 - 5 = 254 in uint8) and narrow dtypes overflow in '
           'products; the dtype returned by check_input for integer input '
           'with default options is decided by interpreting the validator')
  fact, why = c06b.validated_dtype(repo)
  fchk = repo.get_func('_util.check_input')
  key0 = '_util.check_input:dtype-of-validated-integer-data'
  if fact == 'unknown':
    rep.unknown(R, key0, site(fchk) if fchk else '', why)
  else:
    rep.derived(R, key0, site(fchk), sample=dict(rule=R, fact=fact, why=why))
  methods = list(methods) if methods is not None else list(DATA_METHODS)
  found = {}
  n = 0
  for c in repo.estimators():
    init = repo.resolve_method(c, '__init__')
    hf = set()
    if isinstance(init, FuncInfo):
      for p, d in init.defaults().items():
        if isinstance(d, ast.Constant) and isinstance(d.value, float):
          hf.add(p)
    for m in methods + (['get_metric'] if closure else []):
      f = repo.resolve_method(c, m)
      if not isinstance(f, FuncInfo):
        continue
      # an undecided validator gives an inconclusive verdict above, never a
      # refutation of the use sites
      dom = IntDomain(hf, data_float=(fact != 'int'))
      eng = Engine(repo, dom, self_cls=c)
      flow = eng.run(f)
      if m == 'get_metric':
        for (v, st, nd) in flow.returns:
          if v.fn is None:
            continue
          eng._pending_raises = []
          eng._dead = False
          u = V(frozenset(['hp']))
          w = V(frozenset(['hp']))
          eng.call_value(v, [u, w], {}, f.node, st.copy(), f, want_flow=True)
      n += 1
      for (what, s_, fn) in dom.arith:
        k = (fn.key if fn else f.key, what, s_)
        found.setdefault(k, []).append('%s.%s' % (c.name, m))
      # a cast to the dtype of integer-typed data truncates (the precise form
      # of "no cast to another values array's dtype": a float source is fine)
      for (what, s_, fn) in dom.problems:
        if what.startswith('cast to the dtype'):
          k = (fn.key if fn else f.key, 'cast to the integer dtype of the '
               'data', s_)
          found.setdefault(k, []).append('%s.%s' % (c.name, m))
  rep.floor('(estimator, method) entry points analysed for arithmetic in '
            'the data dtype', n, 100 if methods == list(DATA_METHODS) else 1)
  by_func = {}
  for (fk, what, s_), users in found.items():
    by_func.setdefault(fk, []).append((what, s_, users))
  for fk, items in sorted(by_func.items()):
    items.sort(key=lambda x: x[1])
    what, s_, users = items[0]
    rep.refuted(R, '%s:integer-arithmetic' % fk, s_,
                '%s computed in the integer dtype of the user\'s data '
                '(%d such operation(s) in this function; reached from %s): '
                'unsigned data wraps around, narrow dtypes overflow - %s'
                % (what, len(items), ', '.join(sorted(set(
                    u for it in items for u in it[2]))[:4]), why))
  if not by_func:
    rep.derived(R, 'all-data-methods', '', sample=dict(rule=R, entry_points=n))


def rule_feature_count_strict(repo, rep):
  R = 'R-API:embedding-is-shape-strict'
  rep.rule(R, 'a query whose feature count differs from the fitted one is '
           'rejected by numpy itself when the data meets components_ in a '
           'dot / matmul / @ product (the contracted axes must agree '
           'exactly); an einsum or an element-wise product BROADCASTS an '
           'axis of length one, so a single-feature query would be accepted '
           'by a model fitted on more features: in transform, pair_distance '
           'and the get_metric closure the learned transformation is '
           'combined with data only through shape-strict products')
  c = repo.get_class('MahalanobisMixin')
  n = 0
  for nm in ('transform', 'pair_distance', 'get_metric'):
    f = repo.resolve_method(c, nm) if c is not None else None
    if f is None:
      continue
    rep.analysed(f)
    tainted = set()
    changed = True
    while changed:
      changed = False
      for a in ast.walk(f.node):
        if isinstance(a, ast.Assign):
          src = ast.unparse(a.value)
          if 'self.components_' in src or any(
                  isinstance(x, ast.Name) and x.id in tainted
                  for x in ast.walk(a.value)):
            # results of strict products are data again, not the transform
            if isinstance(a.value, ast.Call) and ast.unparse(
                    a.value.func).endswith(('.dot', 'np.dot', 'np.matmul',
                                            'self.transform')):
              continue
            if isinstance(a.value, ast.BinOp) and isinstance(a.value.op,
                                                             ast.MatMult):
              continue
            for t in a.targets:
              if isinstance(t, ast.Name) and t.id not in tainted:
                tainted.add(t.id)
                changed = True

    def is_L(e):
      return 'self.components_' in ast.unparse(e) or any(
          isinstance(x, ast.Name) and x.id in tainted for x in ast.walk(e))
    bad = None
    for x in ast.walk(f.node):
      if isinstance(x, ast.Call) and (repo.dotted(f.module, x.func) or
                                      '').endswith(('einsum', 'multiply')) \
              and any(is_L(a) for a in x.args[1 if ast.unparse(
                  x.func).endswith('einsum') else 0:]):
        bad = bad or (x, ast.unparse(x)[:60])
      if isinstance(x, ast.BinOp) and isinstance(x.op, ast.Mult) and \
              (is_L(x.left) != is_L(x.right)) and not any(
                  isinstance(y, ast.Constant) for y in (x.left, x.right)):
        bad = bad or (x, ast.unparse(x)[:60])
    n += 1
    key = 'MahalanobisMixin.%s' % nm
    if bad:
      rep.refuted(R, key, site(f, bad[0]), '%s combines the learned '
                  'transformation with data by a broadcasting operation: a '
                  'query with one feature is accepted by a model fitted on '
                  'more (and the reverse)' % bad[1])
    else:
      rep.derived(R, key, site(f))
  rep.floor('embedding sites examined', n, 3)


def check(repo, rep, tier):
  rule_taint(repo, rep)
  rule_validators(repo, rep)
  rule_tuples_shape(repo, rep)
  rule_label_alphabet(repo, rep)
  rule_n_components(repo, rep)
  rule_calibration_first(repo, rep)
  from . import c05
  api.run_rule(repo, rep)
  rule_int_safe(repo, rep)
  rule_int_arith(repo, rep)
  rule_feature_count_strict(repo, rep)
  from . import c06b
  c06b.rule_validation_table(repo, rep)
  c06b.rule_validate_vector(repo, rep)
  # (the text rule on `.astype(<other>.dtype)` was removed: it fired on casts
  # to the dtype of data that are known to be floating point; the cast check
  # of the dtype flow above is the precise form)
  # the indices are interpreted by the preprocessor of THIS fit: the wrapper
  # is rebuilt on every fit (typestate rule of C17, preprocessor_ only)
  from . import c17
  before = len(rep.obs)
  c17.rule_history(repo, rep)
  rep.obs[before:] = [o for o in rep.obs[before:]
                      if 'preprocessor_' in o['construct'] or
                      o['status'] == 'derived']


