"""C12, interpretive part: LSML's loss, regulariser and gradient as values.

`_comparison_loss`, `_total_loss` and `_gradient` are interpreted (minterp,
helpers followed interprocedurally) on four quadruplets whose squared
distances under the current metric are d_ab = (4, 1, 9, 36), d_cd = (1, 4, 9,
4) - two violated constraints, one satisfied, one tie - with weights (2, 3,
5, 7).  The row-wise quadratic forms, the trace and the log-determinant are
tokens; everything else (masks, square roots of perfect squares, ratios,
loops or vectorised sums of outer products) is evaluated exactly.  Expected:

  loss      = sum over d_ab > d_cd of w (sqrt d_ab - sqrt d_cd)^2         = 114
  total     = tr(M M0^-1) - logdet M + loss
  gradient  = M0^-1 - M^-1 + sum over violated of
              w [(1 - sqrt(d_cd/d_ab)) v_ab v_ab^T + (1 - sqrt(d_ab/d_cd)) v_cd v_cd^T]

whatever temporaries, helpers, loop or einsum spelling the code uses."""
import ast
from fractions import Fraction as F
from ..minterp import Interp, World, Undecided, Raised, Arr, Lib
from .common import site
from .c07b import S, tg

DAB = [F(4), F(1), F(9), F(36)]
DCD = [F(1), F(4), F(9), F(4)]
W = [F(2), F(3), F(5), F(7)]
N = 4


def _sqrt(x):
  x = F(x)
  if x < 0:
    raise Undecided('square root of a negative number')
  for part in (x.numerator, x.denominator):
    r = int(round(part ** 0.5))
    if r * r != part:
      raise Undecided('square root of %s is not rational' % x)
  return F(int(round(x.numerator ** 0.5)), int(round(x.denominator ** 0.5)))


class Lin:
  """formal linear combination of matrix atoms with rational coefficients
  (plus a scalar constant under the atom 1)"""

  def __init__(self, t=None):
    self.t = dict((k, F(v)) for k, v in (t or {}).items() if v != 0)

  @staticmethod
  def atom(a):
    return Lin({a: 1})

  def add(self, o, sg=1):
    t = dict(self.t)
    for k, v in o.t.items():
      t[k] = t.get(k, 0) + sg * v
    return Lin(t)

  def scale(self, c):
    return Lin(dict((k, v * c) for k, v in self.t.items()))

  def __eq__(self, o):
    return isinstance(o, Lin) and self.t == o.t

  def __hash__(self):
    return hash(tuple(sorted(self.t.items(), key=repr)))

  def __repr__(self):
    return ' + '.join('%s*%s' % (v, k) for k, v in sorted(
        self.t.items(), key=lambda kv: repr(kv[0]))) or '0'


def _num(x):
  return isinstance(x, (int, F)) and not isinstance(x, bool)


class _LsmlWorld(World):
  def __init__(self):
    self.notes = []

  def _d(self, which):
    return Arr(DAB if which == 'vab' else DCD)

  def attr(self, it, v, attr, node):
    if v == S('self'):
      if attr == 'w_':
        return Arr(W)
      return S('selfattr', attr)
    if tg(v) == 'rows' and attr == 'T':
      return S('rowsT', v[1], v[2])
    if tg(v) == 'tbl' and attr == 'T':
      return [Arr(r[k] for r in v[1]) for k in range(len(v[1][0]))]
    if tg(v) == 'mat' and attr == 'T':
      return v
    if tg(v) in ('mat',) and attr == 'shape':
      return (N, S('d')) if v[1] in ('vab', 'vcd') else (S('d'), S('d'))
    return NotImplemented

  def subscript(self, it, base, idx, node):
    if tg(base) == 'mat' and base[1] in ('vab', 'vcd'):
      if isinstance(idx, Arr) and idx.is_mask and len(idx) == N:
        return S('rows', base[1], tuple(i for i, m in enumerate(idx.xs)
                                        if m))
      if isinstance(idx, Arr) and not idx.is_mask:
        return S('rows', base[1], tuple(idx.xs))
      if isinstance(idx, int) and 0 <= idx < N:
        return S('row', base[1], idx)
    if tg(base) == 'rows' and isinstance(idx, int) and \
            0 <= idx < len(base[2]):
      return S('row', base[1], base[2][idx])
    return NotImplemented

  def iterate(self, it, v, node):
    if tg(v) == 'rows':
      return [S('row', v[1], i) for i in v[2]]
    if tg(v) == 'mat' and v[1] in ('vab', 'vcd'):
      return [S('row', v[1], i) for i in range(N)]
    return NotImplemented

  def _as_lin(self, v):
    if isinstance(v, Lin):
      return v
    if _num(v):
      return Lin({1: v})
    if tg(v) == 'mat' and v[1] in ('prior_inv',):
      return Lin.atom('M0inv')
    if tg(v) == 'inv_metric':
      return Lin.atom('Minv')
    return None

  def binop(self, it, op, a, b, node):
    # quadratic forms
    if isinstance(op, (ast.MatMult,)):
      r = self._dot(a, b)
      if r is not NotImplemented:
        return r
    if isinstance(op, ast.Mult):
      for x, y in ((a, b), (b, a)):
        if tg(x) == 'vM' and tg(y) == 'mat' and y[1] == x[1]:
          return S('vMv', x[1])
        if tg(x) == 'rvM' and tg(y) == 'rows' and y[1:] == x[1:]:
          return S('rvMv', x[1], x[2])
        # rows^T scaled column-wise by one coefficient per row
        if tg(x) == 'rowsT' and isinstance(y, Arr) and \
                len(y) == len(x[2]):
          return S('rowsTw', x[1], x[2], tuple(y.xs))
        if tg(x) == 'mat' and x[1] in ('metric',) and tg(y) == 'mat' and \
                y[1] == 'prior_inv':
          return S('MxM0')
    la, lb = self._as_lin(a), self._as_lin(b)
    if isinstance(op, (ast.Add, ast.Sub)) and la is not None and \
            lb is not None and (isinstance(a, Lin) or isinstance(b, Lin) or
                                not (_num(a) and _num(b))):
      r = la.add(lb, 1 if isinstance(op, ast.Add) else -1)
      if isinstance(node, ast.AugAssign) and isinstance(a, Lin):
        a.t = r.t            # ndarray `+=` is in place: aliases see it
        return a
      return r
    if isinstance(op, ast.Mult):
      for x, y in ((a, b), (b, a)):
        lx = self._as_lin(x)
        if _num(y) and lx is not None and not _num(x):
          return lx.scale(y)
    if isinstance(op, ast.Div) and _num(b) and b != 0 and \
            self._as_lin(a) is not None and not _num(a):
      return self._as_lin(a).scale(1 / F(b))
    if isinstance(op, ast.Pow) and b == F(1, 2):
      if _num(a):
        return _sqrt(a)
      if isinstance(a, Arr):
        return Arr(_sqrt(x) for x in a.xs)
    return NotImplemented

  def unary(self, it, op, v, node):
    if isinstance(op, ast.USub) and self._as_lin(v) is not None and \
            not _num(v):
      return self._as_lin(v).scale(-1)
    return NotImplemented

  def _dot(self, a, b):
    if tg(a) == 'mat' and a[1] in ('vab', 'vcd') and b == S('mat', 'metric'):
      return S('vM', a[1])
    if tg(a) == 'rows' and b == S('mat', 'metric'):
      return S('rvM', a[1], a[2])
    if tg(a) == 'row' and b == S('mat', 'metric'):
      return S('rowM', a[1], a[2])
    if tg(a) == 'rowM' and tg(b) == 'row' and a[1:] == b[1:]:
      return (DAB if a[1] == 'vab' else DCD)[a[2]]
    if tg(a) == 'rowsTw' and tg(b) == 'rows' and a[1:3] == b[1:3]:
      return Lin(dict((('outer', a[1], i), c)
                      for i, c in zip(a[2], a[3])))
    if tg(a) == 'rowsT' and tg(b) == 'rows' and a[1:] == b[1:]:
      return Lin(dict((('outer', a[1], i), 1) for i in a[2]))
    if a == S('mat', 'metric') and b == S('mat', 'prior_inv') or \
            b == S('mat', 'metric') and a == S('mat', 'prior_inv'):
      return S('MM0')
    # weights . per-constraint values
    if isinstance(a, Arr) and isinstance(b, Arr) and len(a) == len(b):
      return sum((x * y for x, y in zip(a.xs, b.xs)), F(0))
    return NotImplemented

  def call(self, it, d, recv, args, kwargs, node):
    short = d.rsplit('.', 1)[-1]
    if d.startswith('.'):
      if d == '.reshape' and tg(recv) == 'tbl' and (
              list(args) == [-1, len(recv[1][0])] or
              list(args) == [(-1, len(recv[1][0]))]):
        return recv
      if d == '.dot' and len(args) == 1:
        return self._dot(recv, args[0])
      if d == '.sum' and tg(recv) in ('vMv', 'rvMv'):
        ax = kwargs.get('axis', args[0] if args else None)
        return self._rowsum(recv, ax)
      if d == '.sum' and recv == S('MxM0') and not args and not kwargs:
        return Lin.atom('tr(M M0inv)')
      if d == '.trace' and recv == S('MM0'):
        return Lin.atom('tr(M M0inv)')
      if d == '.copy' and (isinstance(recv, Lin) or tg(recv) == 'mat'):
        return recv
      return NotImplemented
    if d.startswith('numpy.') or d.startswith('scipy.'):
      if short in ('dot', 'matmul') and len(args) == 2:
        return self._dot(args[0], args[1])
      if short == 'sum' and args and tg(args[0]) in ('vMv', 'rvMv'):
        return self._rowsum(args[0], kwargs.get(
            'axis', args[1] if len(args) > 1 else None))
      if short == 'sum' and args and args[0] == S('MxM0') and \
              len(args) == 1 and not kwargs:
        return Lin.atom('tr(M M0inv)')
      if short == 'sum' and len(args) == 1 and isinstance(args[0], Arr) and \
              not kwargs:
        return sum(args[0].xs, F(0))
      if short == 'trace' and args and args[0] == S('MM0'):
        return Lin.atom('tr(M M0inv)')
      if short == 'einsum' and args and isinstance(args[0], str):
        sub = args[0].replace(' ', '')
        ops = args[1:]
        if sub in ('ij,jk,ik->i', 'ij,ik,jk->i') and len(ops) == 3:
          v = ops[0]
          m, v2 = (ops[1], ops[2]) if sub == 'ij,jk,ik->i' else (ops[2],
                                                               ops[1])
          if m == S('mat', 'metric') and v == v2:
            if tg(v) == 'mat' and v[1] in ('vab', 'vcd'):
              return self._d(v[1])
            if tg(v) == 'rows':
              return Arr(self._d(v[1]).xs[i] for i in v[2])
        if sub in ('ij,ij->i',) and len(ops) == 2:
          for x, y in ((ops[0], ops[1]), (ops[1], ops[0])):
            if tg(x) == 'vM' and tg(y) == 'mat' and y[1] == x[1]:
              return self._d(x[1])
            if tg(x) == 'rvM' and tg(y) == 'rows' and y[1:] == x[1:]:
              return Arr(self._d(x[1]).xs[i] for i in x[2])
        if sub in ('ij,ij->', 'ij,ij', 'ij,ji->', 'ij,ji') and \
                len(ops) == 2 and {ops[0], ops[1]} == {
                    S('mat', 'metric'), S('mat', 'prior_inv')}:
          return Lin.atom('tr(M M0inv)')
        if sub in ('i,ij,ik->jk', 'n,ni,nj->ij') and len(ops) == 3 and \
                isinstance(ops[0], Arr) and tg(ops[1]) == 'rows' and \
                ops[1] == ops[2] and len(ops[0]) == len(ops[1][2]):
          return Lin(dict((('outer', ops[1][1], i), c)
                          for i, c in zip(ops[1][2], ops[0].xs)))
        raise Undecided('einsum %r' % (args[0],))
      if short in ('array', 'asarray') and len(args) == 1 and \
              isinstance(args[0], list) and args[0] and \
              all(isinstance(r, tuple) and len(r) == len(args[0][0]) and
                  all(_num(x) for x in r) for r in args[0]):
        return S('tbl', tuple(args[0]))
      if short == 'sqrt' and len(args) == 1:
        if _num(args[0]):
          return _sqrt(args[0])
        if isinstance(args[0], Arr):
          return Arr(_sqrt(x) for x in args[0].xs)
      if short == 'outer' and len(args) == 2 and tg(args[0]) == 'row' and \
              args[0] == args[1]:
        return Lin.atom(('outer', args[0][1], args[0][2]))
      if short == 'inv' and args and args[0] == S('mat', 'metric'):
        return S('inv_metric')
      if short == 'pinv' or short == 'pinvh':
        raise Undecided('pseudo-inverse of the metric')
      if short == 'slogdet' and args and args[0] == S('mat', 'metric'):
        return (1, Lin.atom('logdet M'))
      if short == 'det' and args and args[0] == S('mat', 'metric'):
        self.notes.append('det')
        return S('det')
      if short == 'log' and args and args[0] == S('det'):
        return Lin.atom('log(det M)')
      if short in ('zeros_like', 'zeros') and args:
        return Lin()
      if short in ('square',) and len(args) == 1 and isinstance(args[0],
                                                                 Arr):
        return Arr(x * x for x in args[0].xs)
    return NotImplemented

  def _rowsum(self, v, ax):
    if ax in (1, -1):
      if tg(v) == 'vMv':
        return self._d(v[1])
      return Arr(self._d(v[1]).xs[i] for i in v[2])
    raise Undecided('sum of v M * v over axis %r (one value per constraint '
                    'is the sum over the feature axis)' % (ax,))


def rule_lsml_values(repo, rep):
  R = 'R-INTERP:lsml-loss-regulariser-gradient'
  rep.rule(R, '_comparison_loss, _total_loss and _gradient of LSML '
           'interpreted on four quadruplets (two violated, one satisfied, one '
           'tie; weights 2, 3, 5, 7; squared distances perfect squares so '
           'that every square root is exact): the loss is sum over d_ab > '
           'd_cd of w (sqrt d_ab - sqrt d_cd)^2, the total adds tr(M M0^-1) '
           '- logdet M (slogdet, not log(det)), the gradient is M0^-1 - M^-1 '
           '+ sum over violated of w [(1 - sqrt(d_cd / d_ab)) v_ab v_ab^T + '
           '(1 - sqrt(d_ab / d_cd)) v_cd v_cd^T] as a formal combination of '
           'the outer products')
  c = repo.get_class('_BaseLSML')
  fs = dict((nm, repo.resolve_method(c, nm) if c is not None else None)
            for nm in ('_comparison_loss', '_total_loss', '_gradient'))
  want_loss = sum((w * (_sqrt(a) - _sqrt(b)) ** 2
                   for a, b, w in zip(DAB, DCD, W) if a > b), F(0))
  want_total = Lin({'tr(M M0inv)': 1, 'logdet M': -1, 1: want_loss})
  tg_ = {}
  for i, (a, b, w) in enumerate(zip(DAB, DCD, W)):
    if a > b:
      tg_[('outer', 'vab', i)] = w * (1 - _sqrt(b / a))
      tg_[('outer', 'vcd', i)] = w * (1 - _sqrt(a / b))
  tg_['M0inv'] = 1
  tg_['Minv'] = -1
  want_grad = Lin(tg_)
  n = 0
  for nm, want in (('_comparison_loss', want_loss), ('_total_loss',
                                                      want_total),
                   ('_gradient', want_grad)):
    f = fs[nm]
    key = 'lsml._BaseLSML.%s' % nm
    if f is None:
      rep.unknown(R, key, '', 'method vanished')
      continue
    rep.analysed(f)
    env = {}
    for p in f.params():
      if p == 'self':
        env[p] = S('self')
      elif p in ('metric', 'vab', 'vcd', 'prior_inv'):
        env[p] = S('mat', p)
      else:
        env[p] = S('param', p)
    if not {'metric', 'vab', 'vcd'} <= set(env):
      rep.unknown(R, key, site(f), 'parameters %s' % f.params())
      continue
    w = _LsmlWorld()
    try:
      out = Interp(repo, f, w).run(env)
    except Undecided as u:
      rep.unknown(R, key, site(f), str(u))
      continue
    n += 1
    if out[0] == 'raise':
      rep.refuted(R, key, site(f, out[2]), 'raises %s' % out[1][0])
      continue
    got = out[1]
    if isinstance(got, int) and not isinstance(got, bool):
      got = F(got)
    if isinstance(want, Lin) and _num(got):
      got = Lin({1: got})
    if got == want:
      rep.derived(R, key, site(f), sample=dict(rule=R, value=repr(got)))
    elif isinstance(got, (F, Lin)):
      extra = ''
      if isinstance(got, Lin) and 'log(det M)' in got.t:
        extra = ' (the log-determinant is computed as log(det(M)): the ' \
            'determinant over- / underflows for moderately large matrices; ' \
            'slogdet is required)'
      rep.refuted(R, key, site(f), 'evaluates to %r on the test quadruplets, '
                  'documented %r%s' % (got, want, extra))
    else:
      rep.unknown(R, key, site(f), 'returns %r' % (got,))
  rep.floor('LSML value functions interpreted', n, 0)
