"""C11 - ITML: dual non-negativity invariant, rank-one-only updates of the
metric, strictly PD prior (optimality / KKT are NOT decided)."""
import ast
from ..model import FuncInfo, canon
from .. import astutil, guards
from .common import site
from . import c20, c17


def _norm_index(e):
  """commutative normal form of an index expression (i + n == n + i)."""
  l = guards.lin_of(e)
  return l.key() if l is not None else ast.unparse(e)


def rule_dual_nonneg(repo, rep):
  R = 'SIGN:itml-duals-stay-nonnegative'
  rep.rule(R, '_lambda starts as zeros and its only writers are '
           '_lambda[e] -= alpha with alpha = min(_lambda[e], .) for the same '
           'index e (modulo commutativity): lambda - min(lambda, x) >= 0 is '
           'an inductive invariant of both projection loops')
  f = astutil.inline_helpers(repo, repo.get_func('itml._BaseITML._fit'))
  rep.analysed(f)
  # the dual vector: the array updated with -= inside the loops
  writes = []
  for n in ast.walk(f.node):
    if isinstance(n, ast.AugAssign) and isinstance(n.target, ast.Subscript) \
            and isinstance(n.target.value, ast.Name):
      writes.append(n)
    elif isinstance(n, ast.Assign):
      for t in n.targets:
        if isinstance(t, ast.Subscript) and isinstance(t.value, ast.Name):
          writes.append(n)
  dual_names = set()
  for n in ast.walk(f.node):
    if isinstance(n, ast.Call) and isinstance(n.func, ast.Name) and \
            n.func.id == 'min' and n.args and \
            isinstance(n.args[0], ast.Subscript) and \
            isinstance(n.args[0].value, ast.Name):
      dual_names.add(n.args[0].value.id)
  if len(dual_names) != 1:
    rep.unknown(R, 'itml._BaseITML._fit', site(f), 'dual vector not '
                'identified (%s)' % sorted(dual_names))
    return
  lam = dual_names.pop()
  inits = [v for (n, v) in guards.assignments(f.node, lam) if v is not None]
  ok_init = inits and all(
      isinstance(v, ast.Call) and
      canon(repo.dotted(f.module, v.func) or '') in (canon('numpy.zeros'),
                                                      canon('numpy.zeros_like'))
      for v in inits)
  rep.add(R, 'itml._BaseITML._fit:init', 'derived' if ok_init else 'refuted',
          site(f), '' if ok_init else '%s is not initialised with zeros' % lam)
  lam_writes = [w for w in writes
                if (isinstance(w, ast.AugAssign) and
                    w.target.value.id == lam) or
                (isinstance(w, ast.Assign) and any(
                    isinstance(t, ast.Subscript) and
                    isinstance(t.value, ast.Name) and t.value.id == lam
                    for t in w.targets))]
  if len(lam_writes) < 2:
    rep.unknown(R, 'itml._BaseITML._fit:writers', site(f),
                '%d writers of %s' % (len(lam_writes), lam))
  pm = astutil.parents(f.node)
  for w in lam_writes:
    key = 'itml._BaseITML._fit:%s[%s]' % (lam, ast.unparse(
        w.target.slice if isinstance(w, ast.AugAssign) else
        w.targets[0].slice))
    if not (isinstance(w, ast.AugAssign) and isinstance(w.op, ast.Sub) and
            isinstance(w.value, ast.Name)):
      rep.refuted(R, key, site(f, w), 'dual updated by %s' % ast.unparse(w))
      continue
    # alpha's definition in the same loop body
    body = pm.get(w)
    blk = getattr(body, 'body', [])
    idx = _norm_index(w.target.slice)
    adef = None
    for s in blk:
      if s is w:
        break
      if isinstance(s, ast.Assign) and isinstance(s.targets[0], ast.Name) \
              and s.targets[0].id == w.value.id:
        adef = s.value
    if not (isinstance(adef, ast.Call) and isinstance(adef.func, ast.Name)
            and adef.func.id == 'min' and adef.args):
      rep.refuted(R, key, site(f, w), 'the subtracted step %s is not '
                  'clipped by min(%s[...], .)' % (w.value.id, lam))
      continue
    clip = [a for a in adef.args if isinstance(a, ast.Subscript) and
            isinstance(a.value, ast.Name) and a.value.id == lam]
    if clip and _norm_index(clip[0].slice) == idx:
      rep.derived(R, key, site(f, w),
                  sample=dict(rule=R, update=ast.unparse(w),
                              step=ast.unparse(adef)))
    else:
      rep.refuted(R, key, site(f, w), 'step is clipped by %s but subtracted '
                  'from %s' % (ast.unparse(clip[0]) if clip else 'nothing',
                               ast.unparse(w.target)))


def _itml_roles(repo, f, loop=None):
  """{actual name: canonical role} for _BaseITML._fit, discovered from
  definitions and uses (never from the names themselves): A = the matrix
  handed to components_from_metric; gamma = the local holding self.gamma;
  gamma_proj = the conditional expression over gamma; inside a projection
  loop: (i, v) = the loop targets, Av = A v, alpha = the min(...) step,
  _lambda = the clipped dual, wtw = v^T A v, beta = the factor of the outer
  update, <side>_bhat = the slack vector written at [i]."""
  roles = {}
  stores = [n for n in ast.walk(f.node) if isinstance(n, ast.Assign) and
            ast.unparse(n.targets[0]) == 'self.components_']
  if stores and isinstance(stores[-1].value, ast.Call) and \
          stores[-1].value.args and \
          isinstance(stores[-1].value.args[0], ast.Name):
    roles[stores[-1].value.args[0].id] = 'A'
  A = next((k for k, v in roles.items() if v == 'A'), None)
  for n in ast.walk(f.node):
    if isinstance(n, ast.Assign) and isinstance(n.targets[0], ast.Name):
      if ast.unparse(n.value) == 'self.gamma':
        roles[n.targets[0].id] = 'gamma'
  g = next((k for k, v in roles.items() if v == 'gamma'), None)
  for n in ast.walk(f.node):
    if isinstance(n, ast.Assign) and isinstance(n.targets[0], ast.Name) and \
            isinstance(n.value, ast.IfExp) and g and \
            g in [x.id for x in ast.walk(n.value) if isinstance(x, ast.Name)]:
      roles[n.targets[0].id] = 'gamma_proj'
  if loop is None or A is None:
    return roles
  tg = loop.target
  if isinstance(tg, ast.Tuple) and len(tg.elts) == 2 and \
          all(isinstance(e, ast.Name) for e in tg.elts):
    roles[tg.elts[0].id] = 'i'
    roles[tg.elts[1].id] = 'v'
  elif isinstance(tg, ast.Name):
    roles[tg.id] = 'v'
  v = next((k for k, r in roles.items() if r == 'v'), None)
  i = next((k for k, r in roles.items() if r == 'i'), None)
  for s_ in loop.body:
    if not isinstance(s_, ast.Assign):
      continue
    t0 = s_.targets[0]
    if isinstance(t0, ast.Name):
      txt = ast.unparse(s_.value)
      if v and txt in ('%s.dot(%s)' % (A, v), 'np.dot(%s, %s)' % (A, v),
                       '%s @ %s' % (A, v)):
        roles[t0.id] = 'Av'
      elif isinstance(s_.value, ast.Call) and \
              isinstance(s_.value.func, ast.Name) and \
              s_.value.func.id == 'min' and len(s_.value.args) == 2:
        roles[t0.id] = 'alpha'
        a0 = s_.value.args[0]
        if isinstance(a0, ast.Subscript) and isinstance(a0.value, ast.Name):
          roles[a0.value.id] = '_lambda'
      else:
        nm = [x.id for x in ast.walk(s_.value) if isinstance(x, ast.Name)]
        if v and nm.count(v) == 2 and A in nm:
          roles[t0.id] = 'wtw'
    elif isinstance(t0, ast.Subscript) and isinstance(t0.value, ast.Name) \
            and i and ast.unparse(t0.slice) == i:
      roles[t0.value.id] = 'xi_bhat'
  for s_ in loop.body:
    if isinstance(s_, ast.AugAssign) and ast.unparse(s_.target) == A and \
            isinstance(s_.value, ast.Call):
      av = next((k for k, r in roles.items() if r == 'Av'), None)
      others = set(x.id for x in ast.walk(s_.value)
                   if isinstance(x, ast.Name)) - {av, 'np', A}
      if len(others) == 1:
        roles[others.pop()] = 'beta'
  return roles


def rule_rank_one(repo, rep):
  R = 'R-EFFECT:itml-rank-one-updates-only'
  rep.rule(R, 'between the prior and components_from_metric the matrix is '
           'written only by A += outer(A v, (A v) * beta) with v a row of '
           'the constraint differences (Sherman-Morrison: the inverse changes '
           'by a multiple of v v^T)')
  f = astutil.inline_helpers(repo, repo.get_func('itml._BaseITML._fit'))
  stores = [n for n in ast.walk(f.node) if isinstance(n, ast.Assign) and
            ast.unparse(n.targets[0]) == 'self.components_']
  if not stores or not (isinstance(stores[-1].value, ast.Call) and
                        stores[-1].value.args and
                        isinstance(stores[-1].value.args[0], ast.Name)):
    rep.unknown(R, 'itml._BaseITML._fit', site(f), 'final store not found')
    return
  A = stores[-1].value.args[0].id
  n_upd = 0
  for n in ast.walk(f.node):
    tgt = None
    if isinstance(n, ast.AugAssign):
      tgt = n.target
    elif isinstance(n, ast.Assign):
      tgt = n.targets[0]
    if tgt is None:
      continue
    base = tgt.value if isinstance(tgt, ast.Subscript) else tgt
    if not (isinstance(base, ast.Name) and base.id == A):
      continue
    if isinstance(n, ast.Assign) and isinstance(tgt, ast.Name):
      # the prior
      ok = isinstance(n.value, ast.Call) and (repo.dotted(
          f.module, n.value.func) or '').endswith(
              '_initialize_metric_mahalanobis')
      # another rebinding of the matrix: effect on the inverse not derivable
      rep.add(R, 'itml._BaseITML._fit:prior' if ok else
              'itml._BaseITML._fit:rebinding', 'derived' if ok else 'unknown',
              site(f, n), '' if ok else 'the metric is rebound by %s = %s: '
              'not a rank-one update (effect on M^-1 - M0^-1 not derivable)'
              % (A, ast.unparse(n.value)))
      continue
    n_upd += 1
    key = 'itml._BaseITML._fit:update@%s' % ('pos' if n_upd == 1 else 'neg'
                                             if n_upd == 2 else str(n_upd))
    good = False
    outer_form = False
    if isinstance(n, ast.AugAssign) and isinstance(n.op, ast.Add) and \
            isinstance(n.target, ast.Name) and isinstance(n.value, ast.Call) \
            and canon(repo.dotted(f.module, n.value.func) or '') == \
            canon('numpy.outer') and len(n.value.args) == 2:
      a, b = n.value.args
      outer_form = True

      def base_of(e):
        if isinstance(e, ast.BinOp) and isinstance(e.op, ast.Mult):
          for side in (e.left, e.right):
            if isinstance(side, ast.Name):
              other = e.right if side is e.left else e.left
              if isinstance(other, ast.Name):
                return side.id, other.id
        if isinstance(e, ast.Name):
          return e.id, None
        return None, None
      (na, sa), (nb, sb) = base_of(a), base_of(b)
      cand = [x for x in (na, sa, nb, sb) if x]
      # find Av = A.dot(v)
      pm = astutil.parents(f.node)
      blk = getattr(pm.get(n), 'body', [])
      avs = set()
      lp = pm.get(n)
      vn = None
      loopvars = set()
      if isinstance(lp, ast.For):
        loopvars = set(x.id for x in ast.walk(lp.target)
                       if isinstance(x, ast.Name))
      other_defs = set()
      for s in blk:
        if isinstance(s, ast.Assign) and isinstance(s.targets[0], ast.Name):
          txt_ = ast.unparse(s.value)
          if any(txt_ in ('%s.dot(%s)' % (A, v_), 'np.dot(%s, %s)' % (A, v_),
                          '%s @ %s' % (A, v_)) for v_ in loopvars):
            avs.add(s.targets[0].id)
          elif s.targets[0].id in cand:
            other_defs.add(s.targets[0].id)
      if avs and sum(1 for x in cand if x in avs) == 2:
        good = True
      elif not loopvars or not (set(cand) & other_defs):
        # the vector of the update could not be traced to <A>.dot(<row>)
        outer_form = False
    if good:
      rep.derived(R, key, site(f, n),
                  sample=dict(rule=R, update=ast.unparse(n)))
    elif outer_form:
      rep.refuted(R, key, site(f, n), 'the metric is written by %s, which '
                  'is not the rank-one update outer(Av, Av * beta) with '
                  'Av = A v' % ast.unparse(n))
    else:
      rep.unknown(R, key, site(f, n), 'the metric is also written by %s: '
                  'effect on M^-1 - M0^-1 not derivable' % ast.unparse(n))
  rep.floor('rank-one update sites in ITML', n_upd, 1)


# --------------------------------------------------- Bregman update formulas
from ..ratfunc import Rat, LinM, eval_expr


def rule_update_formulas(repo, rep):
  R = 'R-FORM:itml-bregman-step'
  rep.rule(R, 'the step, rank-one coefficient and slack update of both '
           'projection loops equal the documented cyclic Bregman projection '
           '(delta = +1 similar, -1 dissimilar): alpha = min(lambda_i, delta '
           'gamma/(gamma+1) (1/p - 1/xi_i)), beta = delta alpha / (1 - delta '
           'alpha p), xi_i <- gamma xi_i / (gamma + delta alpha xi_i), as '
           'rational functions of (p, xi_i, alpha, gamma)')
  f0 = astutil.inline_helpers(repo, repo.get_func('itml._BaseITML._fit'))
  base_roles = _itml_roles(repo, f0)
  An = next((k for k, v in base_roles.items() if v == 'A'), None)
  loops0 = [n for n in ast.walk(f0.node) if isinstance(n, ast.For) and
            any(isinstance(s, ast.AugAssign) and
                ast.unparse(s.target) == An for s in n.body)]
  if len(loops0) != 2:
    rep.unknown(R, 'itml._BaseITML._fit', site(f0), '%d projection loops'
                % len(loops0))
    return
  f = astutil.role_view(f0, base_roles)
  if f is None:
    rep.unknown(R, 'itml._BaseITML._fit', site(f0), 'roles %s cannot be given '
                'canonical names' % base_roles)
    return
  loops = [n for n in ast.walk(f.node) if isinstance(n, ast.For) and
           any(isinstance(s, ast.AugAssign) and
               ast.unparse(s.target) == 'A' for s in n.body)]
  # gamma_proj
  gp = [v for (n, v) in guards.assignments(f.node, 'gamma_proj')
        if v is not None]
  gp_status, gp_why = 'unknown', 'definition of gamma_proj not recognised'
  g = Rat.sym('g')
  POS = ('gamma is np.inf', 'gamma == np.inf', 'np.isinf(gamma)',
         'np.inf == gamma', 'np.inf is gamma')
  NEG = ('gamma is not np.inf', 'gamma != np.inf', 'not np.isinf(gamma)',
         'np.isfinite(gamma)', 'np.inf != gamma', 'np.inf is not gamma')
  if len(gp) == 1 and isinstance(gp[0], ast.IfExp):
    cond = ast.unparse(gp[0].test)
    if cond in POS or cond in NEG:
      at_inf, finite = (gp[0].body, gp[0].orelse) if cond in POS else \
          (gp[0].orelse, gp[0].body)
      v = eval_expr(finite, {'gamma': 'g'}, {})
      one = eval_expr(at_inf, {'gamma': 'g'}, {})
      if isinstance(v, Rat) and isinstance(one, Rat):
        if v == g / (g + Rat.const(1)) and one == Rat.const(1):
          gp_status = 'derived'
        else:
          gp_status = 'refuted'
          gp_why = 'gamma_proj is %s for finite gamma and %s at gamma = inf, ' \
              'documented gamma / (gamma + 1) and 1' % (
                  ast.unparse(finite), ast.unparse(at_inf))
  elif len(gp) == 1:
    v = eval_expr(gp[0], {'gamma': 'g'}, {})
    if isinstance(v, Rat) and v == g / (g + Rat.const(1)):
      gp_status = 'refuted'
      gp_why = 'gamma_proj is %s on every path: inf / inf = NaN for ' \
          'gamma = inf (documented: 1)' % ast.unparse(gp[0])
    elif isinstance(v, Rat):
      gp_status = 'refuted'
      gp_why = 'gamma_proj is %s, documented gamma / (gamma + 1)' \
          % ast.unparse(gp[0])
  rep.add(R, 'itml._BaseITML._fit:gamma_proj', gp_status, site(f),
          '' if gp_status == 'derived' else gp_why)
  for li, loop0 in enumerate(sorted(loops0, key=lambda n: n.lineno)):
    delta = Rat.const(1 if li == 0 else -1)
    tag = 'similar' if li == 0 else 'dissimilar'
    fv = astutil.role_view(f0, _itml_roles(repo, f0, loop0))
    if fv is None:
      rep.unknown(R, 'itml._BaseITML._fit:%s' % tag, site(f0, loop0),
                  'roles of the projection step cannot be given canonical '
                  'names')
      continue
    loop = [n for n in ast.walk(fv.node) if isinstance(n, ast.For) and
            n.lineno == loop0.lineno and n.col_offset == loop0.col_offset][0]
    stm = {}
    for s in loop.body:
      if isinstance(s, ast.Assign):
        stm[ast.unparse(s.targets[0])] = s
    bname = [k for k in stm if k.endswith('_bhat[i]')]
    if 'alpha' not in stm or 'beta' not in stm or 'wtw' not in stm or \
            not bname:
      rep.unknown(R, 'itml._BaseITML._fit:%s' % tag, site(f, loop),
                  'statements of the projection step not recognised')
      continue
    bh = bname[0]
    scal = {'wtw': 'p', bh: 'xi', 'gamma_proj': 'gp', 'gamma': 'g',
            'alpha': 'a'}
    p_, xi, gp_, g_, a_ = (Rat.sym(x) for x in ('p', 'xi', 'gp', 'g', 'a'))
    one = Rat.const(1)
    # alpha = min(lambda, step)
    av = stm['alpha'].value
    step = None
    if isinstance(av, ast.Call) and ast.unparse(av.func) == 'min' and \
            len(av.args) == 2:
      step = eval_expr(av.args[1], scal, {})
    want = delta * gp_ * (one / p_ - one / xi)
    if step is None:
      rep.unknown(R, 'itml._BaseITML._fit:%s:alpha' % tag,
                  site(f, stm['alpha']), 'step not derivable')
    else:
      rep.add(R, 'itml._BaseITML._fit:%s:alpha' % tag,
              'derived' if step == want else 'refuted', site(f, stm['alpha']),
              '' if step == want else 'projection step is %r, documented %r'
              % (step, want),
              sample=dict(rule=R, loop=tag, step=repr(step)))
    bv = eval_expr(stm['beta'].value, scal, {})
    wantb = delta * a_ / (one - delta * a_ * p_)
    if not isinstance(bv, Rat):
      rep.unknown(R, 'itml._BaseITML._fit:%s:beta' % tag,
                  site(f, stm['beta']), 'beta not derivable')
    else:
      rep.add(R, 'itml._BaseITML._fit:%s:beta' % tag,
              'derived' if bv == wantb else 'refuted', site(f, stm['beta']),
              '' if bv == wantb else 'beta is %r, documented %r' % (bv, wantb))
    xv = eval_expr(stm[bh].value, scal, {})
    wantx = g_ * xi / (g_ + delta * a_ * xi)
    if not isinstance(xv, Rat):
      rep.unknown(R, 'itml._BaseITML._fit:%s:slack' % tag, site(f, stm[bh]),
                  'slack update not derivable')
    else:
      rep.add(R, 'itml._BaseITML._fit:%s:slack' % tag,
              'derived' if xv == wantx else 'refuted', site(f, stm[bh]),
              '' if xv == wantx else 'slack update is %r, documented %r'
              % (xv, wantx))
    wt = ast.unparse(stm['wtw'].value)
    ok = wt in ('v.dot(A).dot(v)', 'np.dot(v, A).dot(v)', 'v @ A @ v',
                'np.dot(np.dot(v, A), v)', 'A.dot(v).dot(v)')
    rep.add(R, 'itml._BaseITML._fit:%s:p' % tag, 'derived' if ok else
            'unknown', site(f, stm['wtw']), '' if ok else 'p = %s not '
            'recognised as v^T A v' % wt)


def rule_bounds(repo, rep):
  R = 'R-FLOW:itml-bounds-as-given'
  rep.rule(R, 'explicit bounds reach bounds_ through value-preserving '
           'conversions only (check_array, ravel / reshape(-1) / flatten, '
           'asarray, astype(float), copy): same two numbers in the same '
           'order; default bounds are the 5th and 95th percentile of the '
           'pairwise distances among the distinct points of the pairs')
  f = astutil.inline_helpers(repo, repo.get_func('itml._BaseITML._fit'))
  rep.analysed(f)
  # the statements executed when bounds are given / when they are not: tests
  # on `bounds` are decided, the walk stops at the prior initialisation
  def path(env):
    out = []

    def go(stmts):
      for s_ in stmts:
        if isinstance(s_, ast.If):
          v = astutil.partial_truth(s_.test, env)
          if v is True:
            go(s_.body)
          elif v is False:
            go(s_.orelse)
          else:
            out.append(s_)
        else:
          out.append(s_)
    go(f.node.body)
    return out
  given_body = path({'bounds': 1})
  none_body = path({'bounds': None})
  br = [n for n in ast.walk(f.node) if isinstance(n, ast.If) and
        any(isinstance(x, ast.Name) and x.id == 'bounds'
            for x in ast.walk(n.test))]
  if not br or given_body == none_body:
    rep.unknown(R, 'ITML._fit:bounds', site(f), 'bounds dispatch not found')
    return

  def dn(e):
    d = repo.dotted(f.module, e)
    return canon(d) if d else None

  KEEP_F = set(canon(x) for x in ('sklearn.utils.check_array', 'numpy.asarray',
                                  'numpy.array', 'numpy.ravel',
                                  'numpy.asanyarray', 'numpy.atleast_1d',
                                  'numpy.squeeze'))
  KEEP_M = {'ravel', 'flatten', 'copy', 'squeeze'}
  ORDER = set(canon(x) for x in ('numpy.sort', 'numpy.flip', 'numpy.abs',
                                 'numpy.maximum', 'numpy.minimum',
                                 'numpy.clip', 'numpy.unique'))

  def chain(e, env):
    """'same' | ('changed', what) | ('unknown', what)"""
    if isinstance(e, ast.Name):
      if e.id in env:
        return env[e.id]
      return ('unknown', e.id)
    if isinstance(e, ast.Call):
      d = dn(e.func)
      if d in KEEP_F and e.args:
        return chain(e.args[0], env)
      if d in ORDER or (isinstance(e.func, ast.Name) and
                        e.func.id in ('sorted', 'reversed', 'abs')):
        return ('changed', ast.unparse(e.func))
      if isinstance(e.func, ast.Attribute) and d is None:
        if e.func.attr in KEEP_M:
          return chain(e.func.value, env)
        if e.func.attr == 'reshape' and len(e.args) == 1 and \
                ast.unparse(e.args[0]) in ('-1', '(-1,)', '2', '(2,)'):
          return chain(e.func.value, env)
        if e.func.attr == 'astype' and e.args and \
                ast.unparse(e.args[0]) in ('float', 'np.float64',
                                           'np.float_'):
          return chain(e.func.value, env)
        if e.func.attr in ('sort',):
          return ('changed', '.sort()')
      return ('unknown', ast.unparse(e.func))
    if isinstance(e, ast.Subscript) and isinstance(e.slice, ast.Slice) and \
            e.slice.step is not None and ast.unparse(e.slice.step) == '-1':
      return ('changed', '[::-1]')
    return ('unknown', type(e).__name__)

  env = {'bounds': 'same'}
  verdict = None
  for s_ in given_body:
    if isinstance(s_, ast.Assign) and len(s_.targets) == 1:
      t = ast.unparse(s_.targets[0])
      v = chain(s_.value, env)
      if t == 'self.bounds_':
        verdict = (s_, v)
      elif isinstance(s_.targets[0], ast.Name):
        env[t] = v
    elif isinstance(s_, ast.Expr) and isinstance(s_.value, ast.Call) and \
            isinstance(s_.value.func, ast.Attribute) and \
            s_.value.func.attr == 'sort' and \
            ast.unparse(s_.value.func.value) in env:
      env[ast.unparse(s_.value.func.value)] = ('changed', '.sort()')
  key = 'ITML._fit:explicit-bounds'
  if verdict is None:
    rep.unknown(R, key, site(f, br[0]), 'no store of bounds_ for explicit '
                'bounds')
  elif verdict[1] == 'same':
    rep.derived(R, key, site(f, verdict[0]))
  elif verdict[1][0] == 'changed':
    rep.refuted(R, key, site(f, verdict[0]), 'the given bounds pass through '
                '%s before they are stored: (upper, lower) given by the '
                'caller are not used as given' % verdict[1][1])
  else:
    rep.unknown(R, key, site(f, verdict[0]), 'conversion %s not in the table '
                'of value-preserving operations' % verdict[1][1])
  # default bounds
  key = 'ITML._fit:default-bounds'
  st_ = [s_ for s_ in none_body if isinstance(s_, ast.Assign) and
         ast.unparse(s_.targets[0]) == 'self.bounds_']
  if len(st_) == 1 and isinstance(st_[0].value, ast.Name):
    # stored through a local: take the local's definition on this path
    import copy as _copy
    un = astutil.unfold(st_[0].value, none_body, st_[0])
    st0 = _copy.copy(st_[0])
    st0.value = un
    st_ = [st0]
  if len(st_) != 1 or not isinstance(st_[0].value, ast.Call) or \
          dn(st_[0].value.func) != canon('numpy.percentile') or \
          len(st_[0].value.args) != 2:
    rep.unknown(R, key, site(f, br[0]), 'default bounds are not one '
                'np.percentile call')
    return
  call = st_[0].value
  q = call.args[1]
  qs = [e.value for e in q.elts] if isinstance(q, (ast.Tuple, ast.List)) and \
      all(isinstance(e, ast.Constant) for e in q.elts) else None
  src = call.args[0]
  ok_src = isinstance(src, ast.Call) and dn(src.func) == \
      canon('sklearn.metrics.pairwise_distances') and len(src.args) == 1 \
      and not src.keywords
  xdef = None
  if ok_src and isinstance(src.args[0], ast.Subscript) and \
          isinstance(src.args[0].slice, ast.Slice):
    rep.refuted(R, key, site(f, st_[0]), 'the percentiles are taken over %s, '
                'a part of the points only (documented: among all points '
                'present in the pairs)' % ast.unparse(src.args[0]))
    return
  if ok_src and isinstance(src.args[0], ast.Name):
    xd = [s_ for s_ in none_body if isinstance(s_, ast.Assign) and
          ast.unparse(s_.targets[0]) == src.args[0].id]
    xdef = ast.unparse(xd[0].value) if xd else None
  elif ok_src:
    xdef = ast.unparse(src.args[0])
  if qs is None or not ok_src or xdef is None:
    rep.unknown(R, key, site(f, st_[0]), 'form %s' % ast.unparse(call))
  elif list(qs) == [5, 95] and xdef in (
          'np.unique(np.vstack(pairs), axis=0)',
          'np.unique(pairs.reshape(-1, pairs.shape[2]), axis=0)',
          'np.unique(np.concatenate(pairs), axis=0)'):
    rep.derived(R, key, site(f, st_[0]))
  elif list(qs) != [5, 95]:
    rep.refuted(R, key, site(f, st_[0]), 'default bounds are the %s '
                'percentiles, documented (5, 95)' % (qs,))
  elif 'unique' not in xdef:
    rep.refuted(R, key, site(f, st_[0]), 'percentiles taken over %s: points '
                'shared by several pairs are counted several times '
                '(documented: among all points present in the pairs)' % xdef)
  else:
    rep.unknown(R, key, site(f, st_[0]), 'points %s' % xdef)


def rule_setup(repo, rep):
  R = 'R-FORM:itml-constraint-setup'
  rep.rule(R, 'the first projection loop runs over the differences of the '
           'two points of the pairs labelled +1 with slack-adjusted bounds '
           'started at bounds_[0], the second over those labelled -1 with '
           'bounds started at bounds_[1]; its dual index is shifted by the '
           'number of similar pairs')
  f = astutil.inline_helpers(repo, repo.get_func('itml._BaseITML._fit'))
  key = 'itml._BaseITML._fit:'
  An = None
  stores = [n for n in ast.walk(f.node) if isinstance(n, ast.Assign) and
            ast.unparse(n.targets[0]) == 'self.components_']
  if stores and isinstance(stores[-1].value, ast.Call) and \
          stores[-1].value.args and \
          isinstance(stores[-1].value.args[0], ast.Name):
    An = stores[-1].value.args[0].id
  loops = sorted([n for n in ast.walk(f.node) if isinstance(n, ast.For) and
                  any(isinstance(s_, ast.AugAssign) and
                      ast.unparse(s_.target) == An for s_ in n.body)],
                 key=lambda n: n.lineno)
  if len(loops) != 2:
    rep.unknown(R, key + 'loops', site(f), '%d projection loops'
                % len(loops))
    return
  body = f.node.body
  pn = f.params()[1]

  def label_of(e):
    """pairs[<y> == c] -> c"""
    if isinstance(e, ast.Subscript) and ast.unparse(e.value) == pn and \
            isinstance(e.slice, ast.Compare) and len(e.slice.ops) == 1 and \
            isinstance(e.slice.ops[0], ast.Eq):
      c = e.slice.comparators[0]
      if isinstance(c, ast.Constant):
        return c.value
      if isinstance(c, ast.UnaryOp) and isinstance(c.op, ast.USub) and \
              isinstance(c.operand, ast.Constant):
        return -c.operand.value
    return None

  def slot(x):
    if not isinstance(x, ast.Subscript):
      return None, None
    sl = x.slice.elts if isinstance(x.slice, ast.Tuple) else [x.slice]
    if len(sl) in (2, 3) and isinstance(sl[1], ast.Constant) and all(
            isinstance(p_, ast.Slice) and p_.lower is None and
            p_.upper is None and p_.step is None
            for i_, p_ in enumerate(sl) if i_ != 1):
      return x.value, sl[1].value
    return None, None
  for li, (lp, lab, bidx, tag) in enumerate(
          ((loops[0], 1, 0, 'similar'), (loops[1], -1, 1, 'dissimilar'))):
    it = lp.iter
    seq = it.args[0] if isinstance(it, ast.Call) and \
        isinstance(it.func, ast.Name) and it.func.id == 'enumerate' and \
        it.args else it
    un = astutil.unfold(seq, body, lp, stop=(pn, 'y'))
    ok = None
    # (pairs[:, 0] - pairs[:, 1])[y == c]: selection after the difference
    late = None
    if isinstance(un, ast.Subscript) and isinstance(un.value, ast.BinOp):
      probe = ast.Subscript(value=ast.Name(id=pn, ctx=ast.Load()),
                            slice=un.slice, ctx=ast.Load())
      if label_of(probe) is not None:
        late = label_of(probe)
        un = un.value
    if isinstance(un, ast.BinOp) and isinstance(un.op, ast.Sub):
      (b1, s1), (b2, s2) = slot(un.left), slot(un.right)
      if b1 is not None and b2 is not None and \
              ast.dump(b1) == ast.dump(b2) and sorted([s1, s2]) == [0, 1]:
        lv = label_of(b1)
        if late is not None:
          lv = late if ast.unparse(b1) == pn else None
        ok = lv == lab if lv is not None else None
        if lv is not None and lv != lab:
          rep.refuted(R, key + tag + ':pairs', site(f, lp), 'the %s '
                      'projection loop runs over the pairs labelled %r'
                      % (tag, lv))
          continue
    elif isinstance(un, ast.BinOp) and isinstance(un.op, ast.Add):
      rep.refuted(R, key + tag + ':pairs', site(f, lp), 'the loop runs over '
                  '%s: a sum, not the difference of the two points'
                  % ast.unparse(un))
      continue
    if ok:
      rep.derived(R, key + tag + ':pairs', site(f, lp))
    else:
      rep.unknown(R, key + tag + ':pairs', site(f, lp), 'sequence %s not '
                  'recognised as the differences of the pairs labelled %d'
                  % (ast.unparse(un), lab))
    # slack-adjusted bounds: the vector written at [i] in this loop
    bh = [s_.targets[0].value.id for s_ in lp.body
          if isinstance(s_, ast.Assign) and
          isinstance(s_.targets[0], ast.Subscript) and
          isinstance(s_.targets[0].value, ast.Name)]
    bh = [b for b in bh if b != An]
    if not bh:
      rep.unknown(R, key + tag + ':bounds', site(f, lp), 'slack-adjusted '
                  'bound vector not found')
      continue
    bd = [v for (n_, v) in guards.assignments(f.node, bh[0])
          if v is not None]
    txt = ast.unparse(bd[0]).replace(' ', '') if bd else ''
    import re as _re
    m = _re.match(r'^(?:np\.zeros\((\w+)\)\+self\.bounds_\[(\d)\]|'
                  r'self\.bounds_\[(\d)\]\+np\.zeros\((\w+)\)|'
                  r'np\.full\((\w+),self\.bounds_\[(\d)\](?:,dtype=float)?\))$',
                  txt)
    if m:
      idx = next(int(g) for g in (m.group(2), m.group(3), m.group(6))
                 if g is not None)
      rep.add(R, key + tag + ':bounds', 'derived' if idx == bidx else
              'refuted', site(f, lp), '' if idx == bidx else 'the %s '
              'constraints start from bounds_[%d], documented bounds_[%d]'
              % (tag, idx, bidx))
    elif '-self.bounds_' in txt:
      rep.refuted(R, key + tag + ':bounds', site(f, lp), 'slack-adjusted '
                  'bounds start from %s' % txt)
    else:
      rep.unknown(R, key + tag + ':bounds', site(f, lp), 'initial slack-'
                  'adjusted bounds %s not recognised' % txt)


def rule_every_constraint_projected(repo, rep):
  R = 'R-FLOW:itml-every-constraint-projected'
  rep.rule(R, 'each cycle of ITML projects onto every pair constraint: the '
           'two projection loops (those that update the matrix in place) '
           'contain no continue / break / early return, so no constraint is '
           'skipped on a data-dependent condition (a skipped violated '
           'constraint keeps a zero multiplier and the fixed point is not '
           'the optimum)')
  f = astutil.inline_helpers(repo, repo.get_func('itml._BaseITML._fit'))
  An = None
  stores = [n for n in ast.walk(f.node) if isinstance(n, ast.Assign) and
            ast.unparse(n.targets[0]) == 'self.components_']
  if stores and isinstance(stores[-1].value, ast.Call) and \
          stores[-1].value.args and \
          isinstance(stores[-1].value.args[0], ast.Name):
    An = stores[-1].value.args[0].id
  loops = [n for n in ast.walk(f.node) if isinstance(n, ast.For) and
           any(isinstance(s_, ast.AugAssign) and
               ast.unparse(s_.target) == An for s_ in ast.walk(n)) and
           not any(isinstance(x, ast.For) and x is not n and
                   any(isinstance(s_, ast.AugAssign) and
                       ast.unparse(s_.target) == An for s_ in ast.walk(x))
                   for x in ast.walk(n))]
  if len(loops) < 2:
    rep.unknown(R, 'itml._BaseITML._fit', site(f), '%d projection loops'
                % len(loops))
    return
  for k, lp in enumerate(sorted(loops, key=lambda n: n.lineno)):
    key = 'itml._BaseITML._fit:%s' % ('similar' if k == 0 else 'dissimilar')
    skips = [x for x in ast.walk(lp)
             if isinstance(x, (ast.Continue, ast.Break, ast.Return))]
    if skips:
      rep.refuted(R, key, site(f, skips[0]), 'the loop leaves a constraint '
                  'unprojected under %s' % (
                      astutil.path_condition(lp, skips[0]) or 'a condition'))
    else:
      rep.derived(R, key, site(f, lp))


def rule_stopping(repo, rep):
  R = 'R-GUARD:itml-stopping-criterion'
  rep.rule(R, 'the cycle loop of ITML is left early only under the '
           'documented criterion: sum |lambda_old - lambda| / (||lambda|| + '
           '||lambda_old||) < tol, or both norms zero (no constraint active) '
           '- the tests of every break, with temporaries unfolded, are '
           'compared with these two forms')
  f = astutil.inline_helpers(repo, repo.get_func('itml._BaseITML._fit'))
  # the dual vector and its previous copy
  lam = old = None
  for n in ast.walk(f.node):
    if isinstance(n, ast.Assign) and isinstance(n.targets[0], ast.Name) and \
            isinstance(n.value, ast.Call) and \
            isinstance(n.value.func, ast.Attribute) and \
            n.value.func.attr == 'copy' and \
            isinstance(n.value.func.value, ast.Name):
      lam, old = n.value.func.value.id, n.targets[0].id
  loops = [n for n in ast.walk(f.node) if isinstance(n, ast.For) and
           'max_iter' in ast.unparse(n.iter)]
  key = 'itml._BaseITML._fit:'
  if lam is None or len(loops) != 1:
    rep.unknown(R, key + 'break', site(f), 'dual vector / cycle loop not '
                'identified')
    return
  lp = loops[0]
  inner = [x for x in ast.walk(lp) if isinstance(x, (ast.For, ast.While))
           and x is not lp]
  brks = [b for b in ast.walk(lp) if isinstance(b, ast.Break) and
          not any(b in list(ast.walk(i)) for i in inner)]
  if not brks:
    rep.unknown(R, key + 'break', site(f, lp), 'no early exit')
    return
  def is_diff(e):
    """lambda_old - lambda (either order)"""
    return isinstance(e, ast.BinOp) and isinstance(e.op, ast.Sub) and \
        {ast.unparse(e.left), ast.unparse(e.right)} == {lam, old}

  def is_abs_diff(e):
    return isinstance(e, ast.Call) and ast.unparse(e.func) in (
        'np.abs', 'np.absolute', 'np.fabs', 'abs') and len(e.args) == 1 and \
        is_diff(e.args[0])

  def is_l1(e):
    if not isinstance(e, ast.Call):
      return False
    fn = ast.unparse(e.func)
    if isinstance(e.func, ast.Attribute) and e.func.attr == 'sum' and \
            not e.args and is_abs_diff(e.func.value):
      return True
    if fn in ('np.sum', 'sum') and len(e.args) == 1 and is_abs_diff(e.args[0]):
      return True
    if fn.endswith('linalg.norm') and e.args and is_diff(e.args[0]):
      o = e.args[1] if len(e.args) > 1 else next(
          (k.value for k in e.keywords if k.arg == 'ord'), None)
      return isinstance(o, ast.Constant) and o.value == 1
    return False

  def is_norm_of(e, nm):
    return isinstance(e, ast.Call) and ast.unparse(e.func).endswith(
        'linalg.norm') and len(e.args) == 1 and not e.keywords and \
        ast.unparse(e.args[0]) == nm

  def is_normsum(e):
    return isinstance(e, ast.BinOp) and isinstance(e.op, ast.Add) and (
        (is_norm_of(e.left, lam) and is_norm_of(e.right, old)) or
        (is_norm_of(e.left, old) and is_norm_of(e.right, lam)))

  def kind_of(test):
    """'conv' | 'zero' | 'other-conv' | 'other-zero' | None"""
    t = test
    if isinstance(t, ast.Compare) and len(t.ops) == 1:
      l, r, op = t.left, t.comparators[0], t.ops[0]
      if ast.unparse(r) == 'self.tol' and isinstance(op, ast.Lt) and \
              isinstance(l, ast.BinOp) and isinstance(l.op, ast.Div) and \
              is_l1(l.left) and is_normsum(l.right):
        return 'conv'
      if ast.unparse(l) == 'self.tol' and isinstance(op, ast.Gt) and \
              isinstance(r, ast.BinOp) and isinstance(r.op, ast.Div) and \
              is_l1(r.left) and is_normsum(r.right):
        return 'conv'
      if isinstance(op, ast.Eq) and (
              (is_normsum(l) and ast.unparse(r) in ('0', '0.0')) or
              (is_normsum(r) and ast.unparse(l) in ('0', '0.0'))):
        return 'zero'
    txt = ast.unparse(test)
    if lam in txt and old in txt:
      return 'other-conv' if 'self.tol' in txt else 'other-zero'
    return None
  seen = set()
  for b in brks:
    ifs = astutil.enclosing(lp, b, ast.If)
    if not ifs:
      rep.refuted(R, key + 'break', site(f, b), 'unconditional break in the '
                  'cycle loop')
      continue
    ifn, ch = ifs[0]
    test = ifn.test if ch in ifn.body else ast.UnaryOp(op=ast.Not(),
                                                        operand=ifn.test)
    un = astutil.unfold(test, lp.body, ifn if ifn in lp.body else lp.body[-1],
                        stop=(lam, old))
    # canonical orientation of the comparison
    from ..model import canon_compare
    try:
      un = canon_compare(un)
    except Exception:
      pass
    txt = ast.unparse(un)
    k_ = kind_of(un)
    if k_ == 'conv':
      seen.add('conv')
      rep.derived(R, key + 'break:converged', site(f, b))
    elif k_ == 'zero':
      seen.add('zero')
      rep.derived(R, key + 'break:no-active-constraint', site(f, b))
    elif k_ == 'other-conv':
      rep.refuted(R, key + 'break:converged', site(f, b), 'the loop is left '
                  'under %s, documented sum|lambda_old - lambda| / '
                  '(||lambda|| + ||lambda_old||) < tol' % txt)
    elif k_ == 'other-zero':
      rep.refuted(R, key + 'break:no-active-constraint', site(f, b), 'the '
                  'loop is left under %s, documented ||lambda|| + '
                  '||lambda_old|| == 0' % txt)
    else:
      rep.unknown(R, key + 'break', site(f, b), 'exit test %s' % txt)


def check(repo, rep, tier):
  # two sweeps of the projections, decided as values by interpretation
  from . import c11b
  b0 = len(rep.obs)
  c11b.rule_itml_sweeps(repo, rep)
  interp_ok = all(o['status'] == 'derived' for o in rep.obs[b0:])
  b1 = len(rep.obs)
  rule_dual_nonneg(repo, rep)
  rule_rank_one(repo, rep)
  rule_update_formulas(repo, rep)
  rule_bounds(repo, rep)
  rule_setup(repo, rep)
  rule_every_constraint_projected(repo, rep)
  rule_stopping(repo, rep)
  if interp_ok:
    # the structural rules on the shape of the two projection loops cannot
    # read every spelling (one fused loop, helper functions, a table of
    # constraint kinds): where they are merely undecided, the interpreted
    # sweeps - which exercise step formulas, dual / slack bookkeeping, the
    # visiting order and the rank-one updates - stand for them
    sub = ('SIGN:itml-duals-stay-nonnegative', 'R-FORM:itml-bregman-step',
           'R-FLOW:itml-every-constraint-projected',
           'R-EFFECT:itml-rank-one-updates-only',
           'R-FORM:itml-constraint-setup')
    rep.obs[b1:] = [o for o in rep.obs[b1:]
                    if not (o['rule'] in sub and o['status'] == 'unknown')]
  # bounds / prior given as integer arrays hold the same numbers
  from . import c06
  fl = len(rep.floors)
  c06.rule_int_safe(repo, rep, only=('ITML', 'ITML_Supervised'))
  # strictly PD prior required at the call site (shared with C20)
  R = 'R-TABLE:strict-pd-call-sites'
  before = len(rep.obs)
  c20.rule_strict_sites(repo, rep)
  # ... and computed from the training pairs themselves (documented priors)
  c20.rule_prior_inputs(repo, rep)
  rep.obs[before:] = [o for o in rep.obs[before:]
                      if o['construct'].startswith('ITML')]
  # the caller's prior / bounds are not written to: the program solved is
  # the one for the prior the caller still holds (FRESH rule of C17)
  before = len(rep.obs)
  c17.rule_writes(repo, rep)
  rep.obs[before:] = [o for o in rep.obs[before:]
                      if o['construct'].startswith(('ITML.fit',
                                                    'ITML_Supervised.fit'))]
  rep.floors = [fl for fl in rep.floors if 'in-place' not in fl[0]]


