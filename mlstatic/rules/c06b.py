"""C06, second part: the central validator as a decision table.

`_util.check_input` (with check_input_tuples / check_input_classic /
check_tuple_size / make_error_input / preprocess_* / check_y_valid_values_
for_pairs, interpreted interprocedurally) is run by minterp on a grammar of
inputs: kind of input x number of dimensions x preprocessor or not x tuple
size x feature count x labels.  The library validators it calls
(check_array, check_X_y) are modelled by their contract: the permissive call
converts and must not reject on shape; the strict call receives the caller's
options and rejects what the scenario says it rejects.  Expected outcome per
scenario: ValueError for every malformed input, the validated (and, with
indices, the preprocessed) array otherwise."""
import ast
from ..minterp import Interp, World, Undecided, Raised, Arr, Lib
from .common import site
from .c07b import S, tg

N, D = 11, 3        # samples, features of the representative arrays


def _floatish(t):
  """does this dtype argument denote (a conversion to) a floating dtype?"""
  if isinstance(t, (list, tuple)) and t:
    return _floatish(t[0])
  return t in (Lib('float'), Lib('numpy.float64'), Lib('numpy.float32'),
               Lib('numpy.float_'), Lib('numpy.double'), Lib('numpy.floating'),
               'float', 'float64', 'float32', 'f8', 'd')


def _intish(t):
  return t in (Lib('int'), Lib('numpy.integer'), Lib('numpy.signedinteger'),
               Lib('numpy.unsignedinteger'), Lib('numpy.int64'))


def _base(stage):
  return stage.split('+')[0]


def _is_f(stage):
  return stage.endswith('+f')


def _to_f(v):
  return v if _is_f(v[2]) else S('arr', v[1], v[2] + '+f')


class _ValWorld(World):
  def __init__(self, sc):
    self.sc = sc
    self.strict_calls = []
    self.perm_calls = []
    self.label_checks = 0
    # the validated labels are a concrete vector, so that whatever test of
    # the label alphabet the code uses is simply evaluated
    ys = ([1, -1] * N)[:N]
    if sc.get('y') == 'invalid':
      ys[3] = 2
    self.yarr = Arr(ys)
    self.pre_calls = 0

  # ---- arrays: S('arr', kind, stage) with kind in
  #   ('raw', ndim) | 'tuples' (n, t, d) | 'points' (n, d)
  def shape_of(self, v):
    kind = v[1]
    t = self.sc['t']
    if kind == 'tuples':
      return (N, t, self.sc['d'])
    if kind == 'points':
      return (N, self.sc['d'])
    if kind == 'badtuples':
      return (N, t)
    nd = kind[1]
    if self.sc['kind'] == 'tuples':
      return {0: (), 1: (N,), 2: (N, t), 3: (N, t, self.sc['d']),
              4: (N, t, self.sc['d'], 2)}[nd]
    return {0: (), 1: (N,), 2: (N, self.sc['d']), 3: (N, self.sc['d'], 2),
            4: (N, self.sc['d'], 2, 2)}[nd]

  def attr(self, it, v, attr, node):
    if tg(v) == 'arr' and attr == 'dtype' and self.sc.get('dt'):
      # points / tuples formed by the preprocessor have the dtype of the
      # preprocessor's data, not of the indicators
      own = self.sc.get('pdt', self.sc['dt']) if v[1] in (
          'points', 'tuples', 'badtuples') else self.sc['dt']
      return S('dtype', 'f' if _is_f(v[2]) else own)
    if tg(v) == 'dtype' and attr in ('kind', 'char'):
      return v[1] if attr == 'kind' else {'f': 'd', 'i': 'l', 'u': 'L'}[v[1]]
    if tg(v) == 'dtype' and attr == 'type':
      return v
    if tg(v) == 'arr':
      if attr == 'shape':
        return self.shape_of(v)
      if attr == 'ndim':
        return len(self.shape_of(v))
      if attr == 'size':
        n = 1
        for x in self.shape_of(v):
          n *= x
        return n
    if v == S('estimator') and attr == '__class__':
      return S('cls')
    if v == S('cls') and attr == '__name__':
      return 'Estimator'
    return NotImplemented

  def name(self, it, ident):
    if ident == '_ALL_FINITE':
      return 'ensure_all_finite'
    return NotImplemented

  def subscript(self, it, base, idx, node):
    if tg(base) == 'arr' and base[1] == ('raw', 2) and \
            isinstance(idx, tuple) and len(idx) == 2 and \
            idx[0] == slice(None, None, None) and isinstance(idx[1], int):
      return S('col', idx[1], base[2])
    if tg(base) == 'ptsof' and isinstance(idx, tuple) and len(idx) == 2 and \
            idx[0] == slice(None, None, None) and idx[1] is None:
      return S('pts3', base[1], base[2])
    if tg(base) == 'scalof' and isinstance(idx, tuple) and len(idx) == 2 and \
            idx[0] == slice(None, None, None) and idx[1] is None:
      return S('pts2', base[1], base[2])
    return NotImplemented

  def compare(self, it, op, a, b, node):
    for x, y in ((a, b), (b, a)):
      if tg(x) == 'dtype' and isinstance(op, (ast.Eq, ast.NotEq)):
        if _floatish(y) and not isinstance(y, (list, tuple)):
          r = x[1] == 'f' and y not in (Lib('numpy.float32'), 'float32')
        elif _intish(y) or y in ('int', 'int64'):
          raise Undecided('comparison of the data dtype with one integer '
                          'type')
        else:
          return NotImplemented
        return r if isinstance(op, ast.Eq) else not r
    # an option the caller passes is an opaque object of its own: it equals
    # no literal (the default values are covered by the default-option
    # scenarios of validated_dtype)
    for x, y in ((a, b), (b, a)):
      if tg(x) == 'o' and isinstance(y, (str, int, float, type(None))) and \
              isinstance(op, (ast.Eq, ast.NotEq)):
        return isinstance(op, ast.NotEq)
    # |y| != 1 / |y| == 1 element-wise
    for x, y in ((a, b), (b, a)):
      if tg(x) == 'absy' and (y == 1 or tg(y) == 'ones') and \
              isinstance(op, (ast.Eq, ast.NotEq)):
        return S('ymask', isinstance(op, ast.NotEq))
    return NotImplemented

  def binop(self, it, op, a, b, node):
    if self.sc.get('dt'):
      for x, y in ((a, b), (b, a)):
        if tg(x) == 'arr' and isinstance(y, float) and \
                isinstance(op, (ast.Mult, ast.Add, ast.Sub, ast.Div)) and \
                (y == 1.0 and isinstance(op, (ast.Mult, ast.Div)) and x is a
                 or y == 1.0 and isinstance(op, ast.Mult)
                 or y == 0.0 and isinstance(op, (ast.Add, ast.Sub)) and
                 (x is a or isinstance(op, ast.Add))):
          return _to_f(x)
    return NotImplemented

  def unary(self, it, op, v, node):
    if isinstance(op, ast.Invert) and tg(v) == 'ymask':
      return S('ymask', not v[1])
    return NotImplemented

  def call(self, it, d, recv, args, kwargs, node):
    sc = self.sc
    if d in ('numpy.any', 'numpy.all') and len(args) == 1 and \
            tg(args[0]) == 'ymask':
      self.label_checks += 1
      bad_mask = args[0][1]         # True: mask of the invalid entries
      invalid = sc['y'] == 'invalid'
      if d == 'numpy.any':
        return invalid if bad_mask else True
      return (not invalid) if not bad_mask else False
    if d in ('.any', '.all') and tg(recv) == 'ymask':
      return self.call(it, 'numpy' + d, None, [recv], {}, node)
    if d == 'isinstance' and len(args) == 2:
      if args[0] == S('estimator'):
        return False
      if isinstance(args[0], str):
        return args[1] is str or args[1] == Lib('str')
      raise Undecided('isinstance')
    if d == '()' and recv == S('pre') and len(args) == 1:
      self.pre_calls += 1
      a = args[0]
      if tg(a) == 'col':
        if sc.get('prebad'):
          # a preprocessor that yields ONE NUMBER per indicator (1-D data):
          # the formed "tuples" are 2-D
          return S('scalof', a[1], a[2])
        return S('ptsof', a[1], a[2])
      if tg(a) == 'arr' and a[1] == ('raw', 1):
        return S('arr', 'points', 'formed')
      raise Undecided('preprocessor applied to %r' % (a,))
    if self.sc.get('dt'):
      if d == '.astype' and tg(recv) == 'arr':
        t = args[0] if args else kwargs.get('dtype')
        if _floatish(t):
          return _to_f(recv)
        raise Undecided('astype(%r)' % (t,))
      if d in ('numpy.asarray', 'numpy.array', 'numpy.asanyarray',
               'numpy.ascontiguousarray', 'numpy.asfarray',
               'numpy.require') and args and tg(args[0]) == 'arr':
        t = kwargs.get('dtype', args[1] if len(args) > 1 else None)
        if d == 'numpy.asfarray' or _floatish(t):
          return _to_f(args[0])
        if t is None:
          return args[0]
        raise Undecided('%s(dtype=%r)' % (d, t))
      if d in ('numpy.float64', 'numpy.double') and len(args) == 1 and \
              tg(args[0]) == 'arr':
        return _to_f(args[0])
      if d == 'numpy.issubdtype' and len(args) == 2 and \
              tg(args[0]) == 'dtype':
        k = args[0][1]
        if args[1] in (Lib('numpy.integer'), Lib('int')):
          return k in ('i', 'u')
        if args[1] == Lib('numpy.signedinteger'):
          return k == 'i'
        if args[1] == Lib('numpy.unsignedinteger'):
          return k == 'u'
        if args[1] in (Lib('numpy.floating'), Lib('float'),
                       Lib('numpy.inexact')):
          return k == 'f'
        if args[1] == Lib('numpy.number'):
          return True
        raise Undecided('issubdtype(%r)' % (args[1],))
      if d == 'numpy.result_type' or d == 'numpy.promote_types' or \
              d == 'numpy.can_cast':
        raise Undecided(d)
    if d.startswith('.'):
      if d == '.format':
        return '<message>'
      if d in ('.ravel', '.flatten', '.squeeze') and tg(recv) == 'arr' and \
              recv[1] == ('raw', 2) and self.shape_of(recv)[1] == 1:
        return S('arr', ('raw', 1), recv[2])
      if d == '.reshape' and tg(recv) == 'arr' and args in ([-1], [(-1,)]) \
              and recv[1] == ('raw', 2) and self.shape_of(recv)[1] == 1:
        return S('arr', ('raw', 1), recv[2])
      return NotImplemented
    short = d.rsplit('.', 1)[-1]
    if short in ('check_array', 'check_X_y') and 'sklearn' in d:
      x = args[0] if args else kwargs.get('array', kwargs.get('X'))
      if tg(x) not in ('in', 'arr'):
        raise Undecided('validator applied to %r' % (x,))
      kw = dict(kwargs)
      if x == S('in'):
        # the permissive conversion
        self.perm_calls.append((short, kw))
        nd = sc['ndim']
        if kw.get('ensure_2d', True) and nd != 2:
          raise Raised(['ValueError'], node)
        if not kw.get('allow_nd', False) and nd >= 3:
          raise Raised(['ValueError'], node)
        if kw.get('ensure_min_features', 1) > 0 and nd == 2 and \
                self.shape_of(S('arr', ('raw', nd), 'c'))[1] < \
                kw.get('ensure_min_features', 1):
          raise Raised(['ValueError'], node)
        if kw.get('ensure_all_finite', True) is not False and \
                sc['strict'] == 'nonfinite':
          raise Raised(['ValueError'], node)
        if kw.get('dtype', 'numeric') is not None and \
                sc['strict'] == 'nonnumeric':
          raise Raised(['ValueError'], node)
        out = S('arr', ('raw', nd), 'converted')
        if _floatish(kw.get('dtype', 'numeric')):
          out = _to_f(out)
        if short == 'check_X_y':
          y = args[1] if len(args) > 1 else kwargs.get('y')
          if y != S('y'):
            raise Undecided('labels %r' % (y,))
          if sc['y'] == 'mismatch':
            raise Raised(['ValueError'], node)
          return (out, self.yarr)
        return out
      # the strict check
      if short != 'check_array':
        raise Undecided('strict check through %s' % short)
      self.strict_calls.append((x, kw))
      shp = self.shape_of(x)
      if kw.get('ensure_2d', True) and len(shp) != 2:
        raise Raised(['ValueError'], node)
      if not kw.get('allow_nd', False) and len(shp) >= 3:
        raise Raised(['ValueError'], node)
      if sc['strict'] != 'ok':
        # what the caller's options reject (NaN, too few samples, dtype)
        raise Raised(['ValueError'], node)
      mf = kw.get('ensure_min_features', 1)
      if isinstance(mf, int) and mf > 0 and len(shp) == 2 and shp[1] < mf:
        raise Raised(['ValueError'], node)
      out = S('arr', x[1], 'checked' + ('+f' if _is_f(x[2]) else ''))
      return _to_f(out) if _floatish(kw.get('dtype', 'numeric')) else out
    if d.startswith('numpy.'):
      if short == 'concatenate' and len(args) == 1 and \
              isinstance(args[0], list) and kwargs.get('axis') == 1 and \
              all(tg(c) == 'pts3' for c in args[0]):
        short = 'column_stack'      # (n, 1, d) blocks joined along axis 1
      if short == 'column_stack' and len(args) == 1 and \
              isinstance(args[0], list):
        cols = args[0]
        if all(tg(c) == 'pts3' for c in cols) and \
                [c[1] for c in cols] == list(range(sc['t'])) and \
                len(set(c[2] for c in cols)) == 1:
          return S('arr', 'tuples', 'formed')
        if all(tg(c) == 'pts2' for c in cols):
          return S('arr', 'badtuples', 'formed')
        return S('arr', 'badtuples', 'formed')
      if short in ('abs', 'absolute') and args and args[0] in (
              S('ychecked'), S('y')):
        return S('absy', args[0])
      if short == 'ones_like' and args and args[0] in (S('ychecked'),
                                                       S('y')):
        return S('ones', args[0])
      if short == 'array_equal' and len(args) == 2 and \
              {tg(args[0]), tg(args[1])} == {'absy', 'ones'}:
        self.label_checks += 1
        if args[0][1] == S('y') or args[1][1] == S('y'):
          pass
        return sc['y'] != 'invalid'
    return NotImplemented


def _scenarios():
  out = []
  for kind in ('tuples', 'classic', 'bogus'):
    for ndim in (0, 1, 2, 3, 4):
      for pre in (False, True):
        for y in (None, 'valid', 'invalid', 'mismatch'):
          base = dict(kind=kind, ndim=ndim, pre=pre, y=y, t=2, d=D,
                      tuple_size=None, minf=1, strict='ok')
          out.append(base)
          if kind == 'tuples' and y in (None, 'invalid'):
            for t, ts in ((2, 2), (3, 2), (2, 3), (4, 4), (3, None),
                          (4, 2)):
              out.append(dict(base, t=t, tuple_size=ts))
          if y is None and kind in ('tuples', 'classic'):
            # a single feature: formed data that looks like a column
            out.append(dict(base, d=1))
          if y is None and kind == 'tuples' and ndim == 2 and pre:
            # 1-D data behind the indicators: one number per indicator
            for mf in (1, 0, 3):
              out.append(dict(base, prebad=True, minf=mf))
          if y is None:
            out.append(dict(base, strict='nonfinite'))
            out.append(dict(base, minf=5))
            out.append(dict(base, minf=0))
            out.append(dict(base, minf=3))
  return out


def _int_scenarios():
  """well-formed inputs of a signed / unsigned integer dtype, validated with
  the default options"""
  out = []
  for kind, ndim, pre in (('tuples', 3, False), ('tuples', 3, True),
                          ('tuples', 2, True), ('classic', 2, False),
                          ('classic', 2, True), ('classic', 1, True)):
    for y in (None, 'valid'):
      for dt in ('i', 'u'):
        out.append(dict(kind=kind, ndim=ndim, pre=pre, y=y, t=2, d=D,
                        tuple_size=None, minf=1, strict='ok', dt=dt))
  return out


def validated_dtype(repo):
  """('float' | 'int' | 'unknown', detail): the dtype of the data array that
  `_util.check_input`, called with its default options, returns for
  well-formed input of an integer dtype - decided by interpreting it."""
  f = repo.get_func('_util.check_input')
  if f is None:
    return 'unknown', 'function vanished'
  ps = f.params()
  res = []
  for sc in _int_scenarios():
    w = _ValWorld(sc)
    env = dict(input_data=S('in'), y=None if sc['y'] is None else S('y'),
               preprocessor=S('pre') if sc['pre'] else None,
               type_of_inputs=sc['kind'], estimator=S('estimator'))
    env = dict((k, v) for k, v in env.items() if k in ps)
    try:
      it = Interp(repo, f, w)
      for k, dnode in f.defaults().items():
        if k not in env:
          env[k] = it.ev(dnode)       # the documented default options
      out = it.run(env)
    except Undecided as u:
      return 'unknown', '%s (kind=%s ndim=%s pre=%s)' % (
          u, sc['kind'], sc['ndim'], sc['pre'])
    if out[0] != 'return':
      return 'unknown', 'raises %s for well-formed integer input' % (out[1],)
    data = out[1][0] if isinstance(out[1], tuple) and len(out[1]) == 2 \
        else out[1]
    if tg(data) != 'arr':
      return 'unknown', 'returns %r' % (data,)
    res.append(_is_f(data[2]))
  if all(res):
    return 'float', 'converted to floating point on all %d routes' % len(res)
  return 'int', 'the integer dtype of the input is preserved on %d of %d ' \
      'routes' % (res.count(False), len(res))


def float_data_recast(repo):
  """(True | False | None, detail): does `check_input` with default options
  put floating-point data (formed, or formed by the preprocessor from integer
  indicators) through a conversion to float64?  It must not: float32 data
  given as indicators + preprocessor would then be processed in another
  precision than the same data given formed."""
  f = repo.get_func('_util.check_input')
  if f is None:
    return None, 'function vanished'
  ps = f.params()
  for sc in (dict(kind='tuples', ndim=3, pre=False, dt='f'),
             dict(kind='classic', ndim=2, pre=False, dt='f'),
             dict(kind='tuples', ndim=2, pre=True, dt='i', pdt='f'),
             dict(kind='classic', ndim=1, pre=True, dt='i', pdt='f'),
             dict(kind='tuples', ndim=2, pre=True, dt='u', pdt='f')):
    sc = dict(sc, y=None, t=2, d=D, tuple_size=None, minf=1, strict='ok')
    w = _ValWorld(sc)
    env = dict(input_data=S('in'), y=None,
               preprocessor=S('pre') if sc['pre'] else None,
               type_of_inputs=sc['kind'], estimator=S('estimator'))
    env = dict((k, v) for k, v in env.items() if k in ps)
    try:
      it = Interp(repo, f, w)
      for k, dnode in f.defaults().items():
        if k not in env:
          env[k] = it.ev(dnode)
      out = it.run(env)
    except Undecided as u:
      return None, '%s (kind=%s ndim=%s pre=%s)' % (u, sc['kind'],
                                                     sc['ndim'], sc['pre'])
    if out[0] != 'return' or tg(out[1]) != 'arr':
      return None, 'unexpected outcome %r' % (out[:2],)
    if _is_f(out[1][2]):
      return True, 'floating-point %s (%s) are converted once more' % (
          'data formed by the preprocessor from integer indicators'
          if sc['pre'] else 'formed data', sc['kind'])
  return False, 'floating-point data are returned in their own precision'


def _expected(sc):
  """('raise', 'ValueError') or ('return', data kind, with labels?)"""
  bad = ('raise', 'ValueError')
  if sc['kind'] == 'bogus':
    return bad
  if sc['y'] == 'mismatch':
    return bad
  if sc.get('prebad'):
    return bad          # formed tuples are not 3-D: documented ValueError
  if sc['kind'] == 'tuples':
    if sc['ndim'] == 3:
      data = ('raw', 3)
    elif sc['ndim'] == 2 and sc['pre']:
      data = 'tuples'
    else:
      return bad
    if sc['strict'] != 'ok':
      return bad
    if sc['minf'] > 0 and sc['d'] < sc['minf']:
      return bad
    if sc['tuple_size'] is not None and sc['t'] != sc['tuple_size']:
      return bad
    if sc['y'] == 'invalid' and sc['t'] == 2:
      return bad
  else:
    if sc['ndim'] == 2:
      data = ('raw', 2)
    elif sc['ndim'] == 1 and sc['pre']:
      data = 'points'
    else:
      return bad
    if sc['strict'] != 'ok':
      return bad
    if sc['minf'] > 0 and sc['d'] < sc['minf']:
      return bad
  return ('return', data, sc['y'] is not None)


def rule_validation_table(repo, rep):
  R = 'R-INTERP:input-validation-table'
  rep.rule(R, '_util.check_input interpreted (with its helpers) on a grammar '
           'of inputs - {tuples, classic, unknown kind} x ndim 0..4 x '
           'with / without preprocessor x tuple sizes x feature counts x '
           'labels {none, valid, outside {-1, +1}, wrong length} x what the '
           'caller\'s options reject: every malformed input raises '
           'ValueError (no other exception type, no result), every '
           'well-formed one returns the strictly validated array (the '
           'preprocessed one when indices were given) with the validated '
           'labels, and the strict validation receives the caller\'s '
           'options')
  f = repo.get_func('_util.check_input')
  if f is None:
    rep.unknown(R, '_util.check_input', '', 'function vanished')
    return
  rep.analysed(f)
  for nm in ('check_input_tuples', 'check_input_classic', 'check_tuple_size',
             'make_error_input', 'check_y_valid_values_for_pairs'):
    g = repo.get_func('_util.' + nm)
    if g is not None:
      rep.analysed(g)
  ps = f.params()
  opts = dict(accept_sparse=S('o', 'accept_sparse'), dtype=S('o', 'dtype'),
              order=S('o', 'order'), copy=S('o', 'copy'),
              force_all_finite=S('o', 'finite'),
              multi_output=S('o', 'multi_output'),
              ensure_min_samples=S('o', 'min_samples'),
              y_numeric=S('o', 'y_numeric'), estimator=S('estimator'))
  known = set(opts) | {'input_data', 'y', 'preprocessor', 'type_of_inputs',
                       'tuple_size', 'ensure_min_features'}
  if set(ps) - known:
    rep.unknown(R, '_util.check_input', site(f), 'parameters %s'
                % sorted(set(ps) - known))
    return
  clauses = {}

  def fail(clause, kind, detail, node=None):
    cur = clauses.get(clause)
    if cur is None or (cur[0] == 'unknown' and kind == 'refuted'):
      clauses[clause] = (kind, detail, node)
  scen = _scenarios()
  for sc in scen:
    w = _ValWorld(sc)
    env = dict(opts)
    env.update(input_data=S('in'), y=None if sc['y'] is None else S('y'),
               preprocessor=S('pre') if sc['pre'] else None,
               type_of_inputs={'tuples': 'tuples', 'classic': 'classic',
                               'bogus': 'pairs'}[sc['kind']],
               tuple_size=sc['tuple_size'], ensure_min_features=sc['minf'])
    env = dict((k, v) for k, v in env.items() if k in ps)
    want = _expected(sc)
    tag = ', '.join('%s=%s' % (k, sc[k]) for k in (
        'kind', 'ndim', 'pre', 'y', 't', 'd', 'tuple_size', 'minf', 'strict'))
    if sc.get('prebad'):
      tag += ', preprocessor yields one number per indicator'
    clause = 'malformed-rejected' if want[0] == 'raise' else 'well-formed-' \
        'accepted'
    it = Interp(repo, f, w)
    try:
      out = it.run(env)
    except Undecided as u:
      fail(clause, 'unknown', '%s (%s)' % (u, tag))
      continue
    if want[0] == 'raise':
      if out[0] == 'raise':
        if 'ValueError' not in out[1]:
          fail(clause, 'refuted', 'raises %s, not ValueError, for %s'
               % (out[1][0], tag), out[2])
      else:
        fail(clause, 'refuted', 'returns a result for the malformed input '
             '%s' % tag)
      continue
    if out[0] == 'raise':
      fail(clause, 'refuted', 'raises %s for the well-formed input %s'
           % (out[1][0], tag), out[2])
      continue
    res = out[1]
    data, ylab = (res if isinstance(res, tuple) and len(res) == 2
                  else (res, None))
    if want[2] != (ylab is not None) or (ylab is not None and not (
            isinstance(ylab, Arr) and list(ylab.xs) == list(w.yarr.xs))):
      fail('labels-returned', 'refuted', 'returns %r for %s (the validated '
           'labels are %s)' % (res, tag, 'expected' if want[2]
                               else 'not expected'))
    if tg(data) != 'arr' or _base(data[2]) != 'checked':
      fail(clause, 'refuted', 'returns %r, not the strictly validated array '
           '(%s)' % (data, tag))
    elif data[1] != want[1]:
      fail(clause, 'refuted', 'returns %r where %r is expected (%s)'
           % (data[1], want[1], tag))
    # the strict validation received the caller's options
    for (x, kw) in w.strict_calls:
      exp = dict(accept_sparse=opts['accept_sparse'], dtype=opts['dtype'],
                 order=opts['order'], copy=opts['copy'],
                 ensure_min_samples=opts['ensure_min_samples'],
                 ensure_min_features=sc['minf'],
                 estimator=opts['estimator'],
                 ensure_all_finite=opts['force_all_finite'])
      for k, v in exp.items():
        if k not in ps and k != 'ensure_all_finite':
          continue
        if kw.get(k, '<absent>') != v:
          fail('options-forwarded', 'refuted', 'the strict validation '
               'receives %s=%r instead of the caller\'s %r (%s)'
               % (k, kw.get(k, '<absent>'), v, tag))
    formed = (sc['kind'] == 'tuples' and sc['ndim'] == 3) or \
        (sc['kind'] == 'classic' and sc['ndim'] == 2)
    if formed and w.pre_calls:
      fail('preprocessor-not-consulted', 'refuted', 'the preprocessor is '
           'called although formed data was given (%s)' % tag)
  for clause in ('malformed-rejected', 'well-formed-accepted',
                 'labels-returned', 'options-forwarded',
                 'preprocessor-not-consulted'):
    key = '_util.check_input:%s' % clause
    v = clauses.get(clause)
    if v is None:
      rep.derived(R, key, site(f), sample=dict(rule=R, clause=clause,
                                               scenarios=len(scen)))
    elif v[0] == 'refuted':
      rep.refuted(R, key, site(f, v[2]) if v[2] is not None else site(f),
                  v[1])
    else:
      rep.unknown(R, key, site(f), v[1])
  rep.floor('validation scenarios interpreted', len(scen), 300)


def rule_validate_vector(repo, rep):
  R = 'R-INTERP:validate-vector-table'
  rep.rule(R, '_util.validate_vector interpreted on eleven input shapes '
           '((), (1,), (4,), (1,4), (4,1), (1,1), (1,1,4), (3,4), (2,3,4), '
           '(1,3,4), (3,1,4)) with arrays modelled by their shapes: an input '
           'with at most one non-unit axis comes back as the 1-D array of its '
           'entries, anything else is a ValueError')
  f = repo.get_func('_util.validate_vector')
  if f is None:
    rep.unknown(R, '_util.validate_vector', '', 'function vanished')
    return
  rep.analysed(f)
  ps = f.params()

  def size(shp):
    n = 1
    for x in shp:
      n *= x
    return n

  def reshaped(shp, new):
    new = list(new)
    if new.count(-1) > 1 or any(not isinstance(x, int) for x in new):
      raise Undecided('reshape%r' % (tuple(new),))
    if -1 in new:
      k = size([x for x in new if x != -1])
      if k == 0 or size(shp) % k:
        raise Raised(['ValueError'], None)
      new[new.index(-1)] = size(shp) // k
    if size(new) != size(shp):
      raise Raised(['ValueError'], None)
    return tuple(new)

  class W(World):
    """arrays are their shapes: S('vec', shape)"""
    def __init__(self, shape):
      self.shape = shape

    def attr(self, it, v, attr, node):
      if tg(v) == 'vec':
        if attr == 'ndim':
          return len(v[1])
        if attr == 'shape':
          return v[1]
        if attr == 'size':
          return size(v[1])
        if attr == 'T':
          return S('vec', tuple(reversed(v[1])))
      return NotImplemented

    def subscript(self, it, base, idx, node):
      if tg(base) == 'vec':
        parts = idx if isinstance(idx, tuple) else (idx,)
        if all(p is None or p == slice(None, None, None) or p is Ellipsis
               for p in parts) and sum(1 for p in parts
                                       if p == slice(None, None, None)) <= \
                len(base[1]):
          shp, rest = [], list(base[1])
          for p in parts:
            if p is None:
              shp.append(1)
            elif p is Ellipsis:
              shp.extend(rest)
              rest = []
            else:
              shp.append(rest.pop(0))
          return S('vec', tuple(shp + rest))
      return NotImplemented

    def _fn(self, name, v, args, kwargs):
      shp = v[1]
      if name == 'squeeze' and not args and not kwargs:
        return S('vec', tuple(x for x in shp if x != 1))
      if name in ('ravel', 'flatten') and not args:
        return S('vec', (size(shp),))
      if name == 'reshape':
        new = args[0] if len(args) == 1 and isinstance(
            args[0], (tuple, list)) else args
        return S('vec', reshaped(shp, new))
      if name in ('astype', 'copy'):
        return v
      if name == 'atleast_1d' and not args:
        return S('vec', shp if shp else (1,))
      if name == 'atleast_2d' and not args:
        return S('vec', shp if len(shp) >= 2 else (1,) + (shp or (1,)))
      return NotImplemented

    def call(self, it, d, recv, args, kwargs, node):
      if d.startswith('.'):
        if tg(recv) == 'vec':
          return self._fn(d[1:], recv, list(args), kwargs)
        return NotImplemented
      short = d.rsplit('.', 1)[-1]
      if d.startswith('numpy.'):
        if short in ('asarray', 'array', 'ascontiguousarray',
                     'asanyarray') and args and args[0] == S('u'):
          return S('vec', self.shape)
        if short in ('asarray', 'array', 'ascontiguousarray',
                     'asanyarray') and args and tg(args[0]) == 'vec':
          return args[0]
        if args and tg(args[0]) == 'vec':
          if short == 'ndim':
            return len(args[0][1])
          if short == 'shape':
            return args[0][1]
          if short == 'size':
            return size(args[0][1])
          return self._fn(short, args[0], list(args[1:]), kwargs)
      if d == 'len' and args and tg(args[0]) == 'vec':
        if not args[0][1]:
          raise Raised(['TypeError'], node)
        return args[0][1][0]
      return NotImplemented
  bad = unk = None
  for shape in ((), (1,), (4,), (1, 4), (4, 1), (1, 1), (1, 1, 4), (3, 4),
                (2, 3, 4), (1, 3, 4), (3, 1, 4)):
    w = W(shape)
    nd = len([x for x in shape if x != 1])
    env = {ps[0]: S('u')}
    for p_ in ps[1:]:
      env[p_] = None
    try:
      out = Interp(repo, f, w).run(env)
    except Undecided as u:
      unk = unk or '%s (input of shape %r)' % (u, shape)
      continue
    if nd <= 1:
      if out[0] == 'raise':
        bad = bad or 'raises %s for an input of shape %r' % (out[1][0],
                                                              shape)
      elif out[1] != S('vec', (size(shape),)):
        bad = bad or 'returns %r for an input of shape %r, expected a 1-D ' \
            'array of its %d entries' % (out[1], shape, size(shape))
    else:
      if out[0] != 'raise':
        bad = bad or 'returns %r for an input of shape %r, which stays ' \
            '%d-dimensional after squeezing (documented: ValueError)' % (
                out[1], shape, nd)
      elif 'ValueError' not in out[1]:
        bad = bad or 'raises %s, not ValueError, for an input of shape %r' \
            % (out[1][0], shape)
  key = '_util.validate_vector'
  if bad:
    rep.refuted(R, key, site(f), bad)
  elif unk:
    rep.unknown(R, key, site(f), unk)
  else:
    rep.derived(R, key, site(f))


def rule_no_cross_dtype_cast(repo, rep):
  R = 'DTYPE:no-cast-to-another-values-dtype'
  rep.rule(R, 'no conversion in the metric views and validators '
           '(base_metric.py, _util.py) takes its target dtype '
           'from a different value (dtype=<other>.dtype, '
           '.astype(<other>.dtype)): when <other> is an integer array the '
           'converted floating-point values are truncated, so an int list / '
           'array and its float64 copy no longer give the same result')
  n = 0
  bad = 0
  for f in repo.all_functions():
    # the functions that handle the user's points / tuples: the metric views
    # and the validators (index bookkeeping elsewhere casts integers to
    # integer dtypes, which truncates nothing)
    if f.module.short not in ('base_metric', '_util'):
      continue
    for c in ast.walk(f.node):
      if not isinstance(c, ast.Call):
        continue
      cands = [k.value for k in c.keywords if k.arg == 'dtype']
      if isinstance(c.func, ast.Attribute) and c.func.attr == 'astype' and \
              c.args:
        cands.append(c.args[0])
      for v in cands:
        if not (isinstance(v, ast.Attribute) and v.attr == 'dtype'):
          continue
        n += 1
        src = ast.unparse(v.value)
        # the array being converted / the prototype of the result
        own = []
        if isinstance(c.func, ast.Attribute):
          own.append(ast.unparse(c.func.value))
        own += [ast.unparse(a) for a in c.args[:1]]
        fname = ast.unparse(c.func)
        # the converted value is a boolean mask (a comparison): nothing can
        # be truncated
        recv = c.func.value if isinstance(c.func, ast.Attribute) else (
            c.args[0] if c.args else None)
        while isinstance(recv, ast.Call) and isinstance(
                recv.func, ast.Attribute) and recv.func.attr in (
                    'ravel', 'squeeze', 'reshape', 'flatten'):
          recv = recv.func.value
        is_mask = isinstance(recv, (ast.Compare, ast.BoolOp)) or (
            isinstance(recv, ast.UnaryOp) and
            isinstance(recv.op, (ast.Not, ast.Invert)))
        if src in own or fname.endswith(('finfo', 'iinfo')) or is_mask:
          rep.derived(R, '%s:%s' % (f.key, ast.unparse(c)[:50]), site(f, c))
          continue
        # allocation of a result buffer in the dtype of its future content
        if fname.rsplit('.', 1)[-1] in ('zeros', 'empty', 'ones', 'full',
                                        'zeros_like', 'empty_like',
                                        'full_like', 'eye', 'arange'):
          rep.derived(R, '%s:%s' % (f.key, ast.unparse(c)[:50]), site(f, c))
          continue
        bad += 1
        rep.refuted(R, '%s:%s' % (f.key, ast.unparse(c)[:50]), site(f, c),
                    '%s converts to the dtype of %s: floating-point values '
                    'are truncated when %s is an integer array'
                    % (ast.unparse(c)[:70], src, src))
  if n == 0:
    rep.derived(R, 'package', '')


def rule_pair_distance_covers(repo, rep):
  """every pair handed to pair_distance gets the distance of that pair"""
  R = 'R-INTERP:pair-distance-covers-all-pairs'
  rep.rule(R, 'MahalanobisMixin.pair_distance interpreted for n_pairs in '
           '{1, 5, 17, 129, 1000, 4097, 10007, 65536, 65537, 70006, 131072, '
           '200001}: the returned '
           'vector has one entry per pair and entry i is computed from the '
           'two points of pair i (whether the pairs are scored at once or '
           'in batches, every index interval is written with the distances '
           'of the same interval)')
  c = repo.get_class('MahalanobisMixin')
  f = repo.resolve_method(c, 'pair_distance') if c is not None else None
  if f is None:
    rep.unknown(R, 'MahalanobisMixin.pair_distance', '', 'method vanished')
    return
  rep.analysed(f)
  full = slice(None, None, None)

  class Buf:
    def __init__(self, n, fill):
      self.n, self.fill, self.writes = n, fill, []

  # Only the provenance matters here: which interval of pairs a value is
  # computed from, row by row.  ('pairs', lo, hi) the tuples; ('slot', k, lo,
  # hi) one point of each; ('val', lo, hi) anything computed row-wise from
  # them (the arithmetic itself is the subject of the ALG rules of C01/C02).
  ROWS = ('slot', 'val')

  def ivl(v):
    return (v[-2], v[-1])

  class W(World):
    def __init__(self, n):
      self.n = n

    def _iv(self, sl, lo, hi):
      """interval selected by a slice inside [lo, hi)"""
      if sl == full:
        return (lo, hi)
      if isinstance(sl, slice) and sl.step in (None, 1) and \
              (sl.start is None or isinstance(sl.start, int)) and \
              (sl.stop is None or isinstance(sl.stop, int)):
        a = lo + (sl.start or 0)
        b = hi if sl.stop is None else min(hi, lo + sl.stop)
        return (min(a, hi), max(min(a, hi), b))
      return None

    def _rows(self, vals):
      """the common interval of the row-wise values among vals (None when
      there is none or they disagree)"""
      ivs = set(ivl(v) for v in vals if tg(v) in ROWS)
      return ivs.pop() if len(ivs) == 1 else None

    def attr(self, it, v, attr, node):
      if v == S('self') and attr in ('preprocessor_', 'components_'):
        return S('opaque', attr)
      if v == S('self'):
        # a class-level constant (a chunk size, ...)
        k_, expr = repo.class_attr(c, attr)
        if expr is not None:
          return it.ev(expr)
      if tg(v) == 'opaque' and attr in ('T', 'real'):
        return v
      if tg(v) == 'pairs' and attr == 'shape':
        return (v[2] - v[1], 2, 3)
      if tg(v) in ROWS and attr == 'shape':
        return (v[-1] - v[-2], S('cols'))
      if tg(v) in ROWS and attr == 'real':
        return v
      if isinstance(v, Buf) and attr == 'shape':
        return (v.n,)
      return NotImplemented

    def subscript(self, it, base, idx, node):
      if tg(base) == 'pairs':
        parts = idx if isinstance(idx, tuple) else (idx,)
        iv = self._iv(parts[0], base[1], base[2])
        if iv is None:
          return NotImplemented
        rest = parts[1:]
        if not rest or all(p == full for p in rest):
          return S('pairs', iv[0], iv[1])
        if isinstance(rest[0], int) and rest[0] in (0, 1) and \
                all(p == full for p in rest[1:]):
          return S('slot', rest[0], iv[0], iv[1])
      if tg(base) in ROWS:
        parts = idx if isinstance(idx, tuple) else (idx,)
        iv = self._iv(parts[0], base[-2], base[-1])
        if iv is not None and all(p == full for p in parts[1:]):
          return S(*(base.t[:-2] + iv))
      return NotImplemented

    def binop(self, it, op, a, b, node):
      # element-wise / row-wise arithmetic keeps the rows; operands from
      # different intervals of pairs do not combine
      if tg(a) in ROWS and tg(b) in ROWS:
        if ivl(a) != ivl(b) or isinstance(op, ast.MatMult):
          return NotImplemented
        return S('val', *ivl(a))
      for x, y in ((a, b), (b, a)):
        if tg(x) in ROWS and (tg(y) == 'opaque' or isinstance(
                y, (int, float)) or hasattr(y, 'numerator')):
          if isinstance(op, ast.MatMult) and x is b:
            return NotImplemented       # M @ rows contracts the pair axis
          return S('val', *ivl(x))
      return NotImplemented

    def unary(self, it, op, v, node):
      if tg(v) in ROWS and isinstance(op, (ast.USub, ast.UAdd)):
        return S('val', *ivl(v))
      return NotImplemented

    def store(self, it, base, idx, value, node):
      if isinstance(base, Buf) and tg(value) == 'val':
        iv = self._iv(idx, 0, base.n)
        if iv is not None:
          base.writes.append((iv, ivl(value), node))
          return None
      return NotImplemented

    def call(self, it, d, recv, args, kwargs, node):
      allv = list(args) + list(kwargs.values())
      if d.startswith('.'):
        if recv == S('self') and d == '.transform' and args and \
                tg(args[0]) in ROWS:
          return S('val', *ivl(args[0]))
        if tg(recv) in ROWS:
          ax = kwargs.get('axis', args[0] if args else None)
          if d in ('.sum', '.mean', '.max', '.min', '.prod'):
            return S('val', *ivl(recv)) if ax in (-1, 1) else NotImplemented
          if d == '.dot' and len(args) == 1 and tg(args[0]) == 'opaque':
            return S('val', *ivl(recv))
          if d in ('.copy', '.astype', '.ravel', '.squeeze', '.clip'):
            return S('val', *ivl(recv))
        return NotImplemented
      short = d.rsplit('.', 1)[-1]
      if short == 'check_is_fitted':
        return None
      if short == 'check_input' and args and args[0] == S('arg'):
        return S('pairs', 0, self.n)
      if d == 'len' and args and tg(args[0]) in ('pairs',) + ROWS:
        return args[0][-1] - args[0][-2]
      if d.startswith('numpy.'):
        rows = [v for v in allv if tg(v) in ROWS]
        iv = self._rows(allv)
        if short in ('sqrt', 'square', 'abs', 'absolute', 'negative',
                     'asarray', 'ascontiguousarray', 'real', 'maximum',
                     'minimum', 'power', 'multiply', 'subtract', 'add',
                     'divide', 'float_power', 'nan_to_num', 'clip') and \
                rows and iv is not None:
          return S('val', *iv)
        if short in ('sum', 'mean', 'norm', 'amax', 'max', 'prod') and \
                len(rows) == 1 and tg(args[0]) in ROWS:
          ax = kwargs.get('axis', args[1] if len(args) > 1 and
                          short != 'norm' else (args[2] if len(args) > 2
                                                else None))
          if ax in (-1, 1):
            return S('val', *iv)
          return NotImplemented
        if short == 'einsum' and args and isinstance(args[0], str) and \
                '->' in args[0] and rows and iv is not None:
          ins, out = args[0].replace(' ', '').replace('...', 'Z').split('->')
          ins = ins.split(',')
          ops = args[1:]
          if len(ins) == len(ops) and out[:1] and all(
                  (sub[:1] == out[0]) == (tg(o) in ROWS)
                  for sub, o in zip(ins, ops)) and \
                  all(out[0] not in sub[1:] for sub in ins):
            return S('val', *iv)
          return NotImplemented
        if short in ('dot', 'matmul') and len(args) == 2 and \
                tg(args[0]) in ROWS and tg(args[1]) == 'opaque':
          return S('val', *ivl(args[0]))
        if short in ('zeros', 'empty', 'ones') and args and \
                (isinstance(args[0], int) or (
                    isinstance(args[0], tuple) and len(args[0]) == 1)):
          n = args[0] if isinstance(args[0], int) else args[0][0]
          return Buf(n, short)
        if short in ('concatenate', 'hstack') and args and \
                isinstance(args[0], (list, tuple)) and \
                all(tg(x) == 'val' for x in args[0]):
          parts = list(args[0])
          ok = all(parts[i][2] == parts[i + 1][1]
                   for i in range(len(parts) - 1))
          if ok and parts:
            return S('val', parts[0][1], parts[-1][2])
      return NotImplemented
  bad = unk = None
  ps = f.params()
  for n in (1, 5, 17, 129, 1000, 4097, 10007, 65536, 65537, 70006, 131072,
            200001):
    w = W(n)
    it = Interp(repo, f, w)
    it.fuel = 200000
    try:
      out = it.run({ps[0]: S('self'), ps[1]: S('arg')})
    except Undecided as u:
      unk = unk or '%s (n_pairs=%d)' % (u, n)
      continue
    if out[0] == 'raise':
      bad = bad or 'raises %s for n_pairs=%d' % (out[1][0], n)
      continue
    res = out[1]
    if tg(res) == 'val':
      if (res[1], res[2]) != (0, n):
        bad = bad or 'for n_pairs=%d the distances of pairs %d..%d are ' \
            'returned' % (n, res[1], res[2])
      continue
    if isinstance(res, Buf):
      cover = 0
      for (iv, src, node) in sorted(res.writes, key=lambda t: t[0]):
        if iv != src:
          bad = bad or 'for n_pairs=%d entries %d:%d receive the distances ' \
              'of pairs %d:%d' % ((n,) + iv + src)
        if iv[0] > cover:
          break
        cover = max(cover, iv[1])
      if cover < res.n or res.n != n:
        bad = bad or 'for n_pairs=%d only the entries 0:%d of %d are ' \
            'computed, the others keep the initial value of np.%s' % (
                n, cover, res.n, res.fill)
      continue
    unk = unk or 'returns %r (n_pairs=%d)' % (res, n)
  key = 'MahalanobisMixin.pair_distance'
  if bad:
    rep.refuted(R, key, site(f), bad)
  elif unk:
    rep.unknown(R, key, site(f), unk)
  else:
    rep.derived(R, key, site(f))
