"""C01 / C02 - the learned distance is the Euclidean semi-norm of a linear
image of the point difference, and all views share the word L^T L."""
import ast
from fractions import Fraction
from ..model import FuncInfo
from ..engine import Engine, V, NOCONST
from ..algdom import AlgDomain
from ..algebra import UNKNOWN, Poly, Lin, Quad, Tup, A
from .common import site

L = Poly.sym('L', 'mat')
LT_L = L.transpose().mul(L, 'mat')


def new_dom():
  return AlgDomain(fitted={'components_': L,
                           'threshold_': Lin.atom(('sym', 'threshold_'))})


def has_unknown(d):
  return d is UNKNOWN or d is None


def _transform_forms(repo, c):
  """Every return form of transform(X) (one per path), for path-wise
  substitution into the views that call it."""
  f = repo.resolve_method(c, 'transform')
  if not isinstance(f, FuncInfo):
    return None, []
  dom = new_dom()
  eng = Engine(repo, dom, self_cls=c)
  flow = eng.run(f, args={'X': V(Poly.sym('X', 'rows'))})
  forms = []
  for (v, st, n) in flow.returns:
    if v.d not in forms:
      forms.append(v.d)
  return f, forms


def _subst_rows(form, arg):
  """form is a rows Poly in the symbol X; replace X by the rows Poly arg."""
  if not isinstance(form, Poly) or not isinstance(arg, Poly):
    return UNKNOWN
  out = Poly({}, 'rows')
  xatom = A('X', 'rows')
  for m, c_ in form.terms.items():
    if not m or m[0] != xatom:
      return UNKNOWN
    tail = Poly({m[1:]: c_}, 'mat')
    out = out.add(arg.mul(tail, 'rows'))
  return out


def eval_views(repo, c):
  """Normal forms of the metric views of estimator class c."""
  out = {}
  info = {}
  tf, tforms = _transform_forms(repo, c)

  def run(name, args, tform=None):
    f = repo.resolve_method(c, name)
    if not isinstance(f, FuncInfo):
      return None, None, None
    dom = new_dom()
    if tform is not None and tf is not None:
      dom.summaries[tf.key] = lambda a, k, tform=tform: _subst_rows(
          tform, (a[1] if len(a) > 1 else k.get('X')).d)
    eng = Engine(repo, dom, self_cls=c)
    flow = eng.run(f, args=args)
    return f, dom, (eng, flow)

  for name in ('pair_distance', 'pair_score', 'score_pairs'):
    allforms, allwarn, f0 = [], [], None
    # one evaluation per path of transform (no join of its return forms)
    for tform in (tforms if len(tforms) > 1 else [None]):
      f, dom, r = run(name, {'pairs': V(Tup('P', [0, 1]),
                                        origin=('param', 'pairs'))}, tform)
      if f is None:
        continue
      f0 = f
      eng, flow = r
      forms = [v.d for (v, st, n) in flow.returns]
      if dom.divisions:
        forms = [('divides', dom.divisions[0]) for _ in forms]
      allforms.extend(forms)
      allwarn.extend(('warn', 'FutureWarning') in dom.must(st)
                     for (v, st, n) in flow.returns)
    if f0 is not None:
      out[name] = (f0, allforms, allwarn)
  f, dom, r = run('transform', {'X': V(Poly.sym('X', 'rows'))})
  if f is not None:
    out['transform'] = (f, [v.d for (v, st, n) in r[1].returns], None)
  f, dom, r = run('get_mahalanobis_matrix', {})
  if f is not None:
    out['get_mahalanobis_matrix'] = (f, [v.d for (v, st, n) in r[1].returns],
                                     None)
  f, dom, r = run('get_metric', {})
  if f is not None:
    eng, flow = r
    for sq in (False, True):
      forms = []
      for (v, st, n) in flow.returns:
        if v.fn is None:
          forms.append(UNKNOWN)
          continue
        u = V(Poly.sym('u', 'vec'))
        w = V(Poly.sym('v', 'vec'))
        sqv = V(UNKNOWN, c=frozenset([sq]))
        eng._pending_raises = []
        eng._dead = False
        dom.divisions = []
        res = eng.call_value(v, [u, w], {'squared': sqv}, f.node, st.copy(),
                             f, want_flow=True)
        if isinstance(res, tuple) and res and res[0] == 'flow':
          ds = [r[0].d for r in res[1]]
        else:
          ds = [res.d]
        for d_ in ds:
          forms.append(('divides', dom.divisions[0]) if dom.divisions
                       else d_)
      out['get_metric(squared=%s)' % sq] = (f, forms, None)
  return out


def classify_distance(d, slots, coeff=1, squared=False):
  """(status, detail, quad) for a value expected to be coeff*Dist(slots)."""
  if isinstance(d, tuple) and d and d[0] == 'divides':
    return 'refuted', ('the view divides by the data-dependent scalar '
                       '%s(...) at %s, which is zero for collapsed / '
                       'duplicated points: 0/0 breaks d(x,x) = 0 and '
                       'finiteness' % (d[1][0][1], d[1][1])), None
  if has_unknown(d):
    return 'unknown', 'normal form not derivable (construct outside the ' \
        'transfer tables)', None
  if not isinstance(d, Lin):
    return 'refuted', 'derived form %r is not a distance form' % (d,), None
  s = d.single()
  kind = 'quad' if squared else 'dist'
  if s is None or s[0][0] != kind or s[1] != coeff:
    return 'refuted', 'derived form %r is not %s*%s(x - x\')' % (
        d, coeff, 'SquaredDist' if squared else 'Dist'), None
  q = s[0][1]
  want = sorted(slots)
  got = sorted(a[1] for a, c in q.D)
  coeffs = sorted(c for a, c in q.D)
  if got != want or coeffs != [-1, 1]:
    return 'refuted', 'difference is taken over %r, expected (%s - %s)' % (
        q.D, want[0], want[1]), q
  if q.gram is None:
    return 'refuted', 'row form %r is not a Gram form d W W^T d^T' % (q,), q
  return 'derived', '', q


def check_views(repo, rep, which):
  """which: 'C01' or 'C02' selects the obligations reported."""
  RF = 'R-FORM:distance-is-seminorm'
  RS = 'R-FORM:score-is-negated-distance'
  RM = 'R-SIB:views-share-LtL'
  RT = 'R-FORM:transform-is-X-Lt'
  RW = 'R-DOM:score_pairs-warns'
  RQ = 'R-FORM:squared-flag'
  rep.rule(RF, "pair_distance and get_metric()(u, v) normalise to "
           "Sqrt(RowQuad(x - x', W W^T)): a Euclidean semi-norm of a linear "
           "image of the difference of the two points of the same pair, with "
           "no additive term")
  rep.rule(RS, 'pair_score normalises to exactly -1 * pair_distance')
  rep.rule(RM, 'the middle word of every squared-distance view equals the '
           'word of get_mahalanobis_matrix, and both equal L^T L')
  rep.rule(RT, 'transform(X) normalises to X L^T (no additive term)')
  rep.rule(RW, 'score_pairs returns pair_distance(pairs) after a '
           'FutureWarning on every path')
  rep.rule(RQ, 'get_metric(squared=True) differs from squared=False by '
           'exactly one square root')
  n = 0
  for c in repo.estimators():
    views = eval_views(repo, c)
    for name in ('pair_distance', 'pair_score', 'score_pairs', 'transform',
                 'get_mahalanobis_matrix', 'get_metric(squared=False)',
                 'get_metric(squared=True)'):
      if name not in views:
        rep.unknown(RF, '%s.%s' % (c.name, name), '', 'method not found')
        continue
      rep.analysed(views[name][0])
    quads = {}
    # --- distances
    for name, slots, coeff, sq in (
            ('pair_distance', ('P[0]', 'P[1]'), 1, False),
            ('score_pairs', ('P[0]', 'P[1]'), 1, False),
            ('pair_score', ('P[0]', 'P[1]'), -1, False),
            ('get_metric(squared=False)', ('u', 'v'), 1, False),
            ('get_metric(squared=True)', ('u', 'v'), 1, True)):
      if name not in views:
        continue
      f, forms, warned = views[name]
      key = '%s.%s' % (c.name, name)
      if not forms:
        rep.refuted(RF, key, site(f), 'no normal exit')
        continue
      for d in forms:
        n += 1
        status, detail, q = classify_distance(d, slots, coeff, sq)
        rule = RS if name == 'pair_score' else (
            RQ if name == 'get_metric(squared=True)' else RF)
        if (which == 'C01' and rule != RQ) or \
                (which == 'C02' and name != 'pair_score'):
          if True:
            rep.add(rule, key, status, site(f), detail,
                    sample=dict(rule=rule, view=key, normal_form=repr(d))
                    if n in (1, 3, 4) else None)
        if q is not None and status == 'derived':
          quads.setdefault(name, []).append(q)
      if name == 'score_pairs' and which == 'C02':
        if all(warned):
          rep.derived(RW, key, site(f))
        else:
          rep.refuted(RW, key, site(f), 'a path of score_pairs returns '
                      'without emitting FutureWarning')
    if which != 'C02':
      continue
    # --- C02: transform, M, shared word
    if 'transform' in views:
      f, forms, _ = views['transform']
      key = c.name + '.transform'
      want = Poly.sym('X', 'rows').mul(L.transpose(), 'rows')
      for d in forms:
        if has_unknown(d):
          rep.unknown(RT, key, site(f), 'normal form not derivable')
        elif d == want:
          rep.derived(RT, key, site(f),
                      sample=dict(rule=RT, view=key, normal_form=repr(d))
                      if c.name == 'Covariance' else None)
        else:
          rep.refuted(RT, key, site(f),
                      'transform normalises to %r, expected X.L\'' % (d,))
    if 'get_mahalanobis_matrix' in views:
      f, forms, _ = views['get_mahalanobis_matrix']
      key = c.name + '.get_mahalanobis_matrix'
      # entries of the returned matrix overwritten after it was computed
      overwritten = None
      rets = [r for r in ast.walk(f.node) if isinstance(r, ast.Return) and
              isinstance(r.value, ast.Name)]
      for r in rets:
        for n_ in ast.walk(f.node):
          if isinstance(n_, ast.Assign) and \
                  isinstance(n_.targets[0], ast.Subscript) and \
                  isinstance(n_.targets[0].value, ast.Name) and \
                  n_.targets[0].value.id == r.value.id and \
                  isinstance(n_.value, ast.Constant):
            overwritten = n_
      for d in forms:
        if has_unknown(d) and overwritten is not None:
          rep.refuted(RM, key, site(f, overwritten), 'entries of the '
                      'returned matrix are overwritten with a constant (%s): '
                      'the result is no longer L\'.L' % ast.unparse(overwritten))
        elif has_unknown(d):
          rep.unknown(RM, key, site(f), 'normal form not derivable')
        elif d == LT_L:
          rep.derived(RM, key, site(f))
        else:
          rep.refuted(RM, key, site(f), 'get_mahalanobis_matrix normalises '
                      'to %r, expected L\'.L' % (d,))
    for name, qs in quads.items():
      key = '%s.%s' % (c.name, name)
      f = views[name][0]
      for q in qs:
        if q.M == LT_L:
          rep.derived(RM, key, site(f))
        else:
          rep.refuted(RM, key, site(f), 'on some path the squared distance '
                      'uses the matrix %r where the other views use L\'.L'
                      % (q.M,))
  rep.floor('metric view forms evaluated', n, 85)


QUERY_VIEWS = ['pair_distance', 'pair_score', 'score_pairs', 'transform']


def check(repo, rep, tier):
  check_views(repo, rep, 'C01')
  # symmetry: neither point of a pair is converted to the other's dtype
  from . import c06b
  c06b.rule_pair_distance_covers(repo, rep)
  # exact symmetry also for integer query points: x - x' is not computed in
  # an unsigned / narrow dtype
  from . import c06
  c06.rule_int_arith(repo, rep, methods=QUERY_VIEWS)
  # d(x, y) = d(y, x), d(x, x) = 0 and pair_score = -pair_distance are
  # statements about the SAME arrays evaluated twice: the distance views do
  # not write into the arrays they are given (FRESH rule of C17, query views)
  from . import c17 as _c17
  before = len(rep.obs)
  fl = len(rep.floors)
  _c17.rule_writes(repo, rep)
  rep.obs[before:] = [o for o in rep.obs[before:]
                      if any('.%s:' % m in o['construct'] or
                             o['construct'].endswith('.' + m)
                             for m in QUERY_VIEWS + ['get_metric'])]
  rep.floors = rep.floors[:fl]
