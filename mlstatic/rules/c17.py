"""C17 - fitting is deterministic, side-effect free and history independent
(ownership / effect / typestate rules over all call histories)."""
import ast
import inspect
from ..model import FuncInfo, canon, resolve_object
from ..engine import Engine, V, State, NOCONST
from ..tags import TagDomain, EMPTY
from ..fresh import FreshDomain, roots, kind
from .common import site, methods_of, QUERY_METHODS, nested_functions

DRAWS = {'randint', 'choice', 'randn', 'rand', 'permutation', 'shuffle',
         'random_sample', 'random', 'normal', 'uniform', 'standard_normal',
         'integers', 'sample', 'ranf', 'bytes', 'multivariate_normal',
         'binomial', 'poisson', 'beta', 'gamma', 'exponential'}
CRS = canon('sklearn.utils.check_random_state')


def hyper_kinds(repo, c):
  f = repo.resolve_method(c, '__init__')
  out = {}
  if isinstance(f, FuncInfo):
    for p, d in f.defaults().items():
      if isinstance(d, ast.Constant) and isinstance(d.value, (int, float)) \
              and d.value is not None:
        out[p] = 'imm'
      elif isinstance(d, ast.UnaryOp) and isinstance(d.operand, ast.Constant):
        out[p] = 'imm'
  return out


# ------------------------------------------------------------------ RNG
class RngDomain(TagDomain):
  """tags: 'seed' (random_state hyper-parameter / parameter), 'rng'
  (result of check_random_state), 'time' (wall clock)."""

  def __init__(self):
    super().__init__()
    self.problems = []
    self.draws = 0
    self.seeded_components = 0

  def hyperparam(self, cls, name, node):
    return frozenset(['seed']) if name == 'random_state' else EMPTY

  def flow(self, tags):
    return frozenset(t for t in tags if t == 'time')

  def tuple(self, elts, node, st):
    return self._u(*elts)

  def ext_call(self, dotted, args, kwargs, node, st, eng):
    if dotted == CRS:
      a = args[0] if args else kwargs.get('seed')
      if a is None or not ({'seed', 'rng'} & set(a.d or ())):
        self.problems.append((
            'check_random_state receives a value that does not come from '
            'the random_state parameter / hyper-parameter', self.site(node),
            self.cur(), 'crs'))
      return frozenset(['rng'])
    if dotted == 'time.time':
      return frozenset(['time'])
    if dotted.startswith('numpy.random.') and \
            dotted.rsplit('.', 1)[1] in (DRAWS | {'seed'}):
      self.problems.append((
          'draw from the global numpy generator %s' % dotted,
          self.site(node), self.cur(), dotted))
      return EMPTY
    if dotted.startswith('random.'):
      self.problems.append(('use of the stdlib random module: %s' % dotted,
                            self.site(node), self.cur(), dotted))
      return EMPTY
    if dotted.split('.')[0] in ('sklearn', 'scipy'):
      obj = resolve_object(dotted)
      try:
        params = inspect.signature(obj).parameters if obj is not None else {}
      except (ValueError, TypeError):
        params = {}
      if 'random_state' in params:
        rs = kwargs.get('random_state')
        if rs is None:
          names = list(params)
          i = names.index('random_state')
          if i < len(args) and params['random_state'].kind in (
                  inspect.Parameter.POSITIONAL_OR_KEYWORD,
                  inspect.Parameter.POSITIONAL_ONLY):
            rs = args[i]
        if rs is None or not ({'seed', 'rng'} & set(rs.d or ())):
          self.problems.append((
              'stochastic component %s is not given the estimator\'s '
              'random_state' % dotted, self.site(node), self.cur(), dotted))
        else:
          self.seeded_components += 1
    return super().ext_call(dotted, args, kwargs, node, st, eng)

  def method_call(self, recv, name, args, kwargs, node, st, eng):
    if name in DRAWS:
      tags = set(recv.d or ())
      is_mod = recv.fn is not None and recv.fn[0] == 'ext' and \
          recv.fn[1] in ('numpy.random', 'random')
      if 'rng' in tags and not is_mod:
        self.draws += 1
      elif is_mod or not tags:
        if is_mod or recv.origin is None or recv.origin[0] != 'param' or \
                len(self.eng.stack) > 1:
          self.problems.append((
              'random draw .%s() on a generator that does not come from '
              'check_random_state(<random_state>)' % name, self.site(node),
              self.cur(), name))
    return super().method_call(recv, name, args, kwargs, node, st, eng)

  def on_store_attr(self, objv, attr, val, node, st):
    super().on_store_attr(objv, attr, val, node, st)
    if objv.obj is not None and 'time' in self._u(val):
      self.problems.append((
          'a wall-clock reading flows into self.%s' % attr, self.site(node),
          self.cur(), 'time:' + attr))


def rule_rng(repo, rep, only_constraints=False):
  R = 'R-WHO:rng-discipline'
  rep.rule(R, 'no global numpy.random / random call; every draw is a method '
           'call on check_random_state(<random_state param or '
           'self.random_state>); every library callable with a random_state '
           'parameter in the installed signature receives such a value; '
           'time.time() never reaches a self attribute')
  draws = comps = 0
  entries = []
  for c in ([] if only_constraints else repo.estimators()):
    f = repo.resolve_method(c, 'fit')
    entries.append((c, f, {}))
  cons = repo.get_class('Constraints')
  for name in ('positive_negative_pairs', 'chunks', 'generate_knntriplets'):
    f = cons.methods.get(name)
    if f is None:
      rep.unknown(R, 'Constraints.' + name, '', 'method vanished')
      continue
    args = {}
    if 'random_state' in f.params():
      args['random_state'] = V(frozenset(['seed']),
                               origin=('param', 'random_state'))
    entries.append((cons, f, args))
  for (c, f, args) in entries:
    dom = RngDomain()
    eng = Engine(repo, dom, self_cls=c)
    eng.run(f, args=args)
    rep.analysed(f)
    key = '%s.%s' % (c.name, f.name)
    draws += dom.draws
    comps += dom.seeded_components
    seen = set()
    for (msg, s, fn, what) in dom.problems:
      k = (what, fn.key if fn else '')
      if k in seen:
        continue
      seen.add(k)
      rep.refuted(R, '%s:%s@%s' % (key, what, fn.key if fn else ''), s, msg)
    if not dom.problems:
      rep.derived(R, key, site(f),
                  sample=dict(rule=R, entry=key, draws=dom.draws,
                              seeded_components=dom.seeded_components)
                  if dom.draws else None)
  # package-wide scan for global generator calls (also unreachable code)
  n_glob = 0
  for m in repo.modules.values():
    for n in ast.walk(m.tree):
      if isinstance(n, ast.Call):
        d = repo.dotted(m, n.func)
        if d and (d.startswith('numpy.random.') or d.startswith('random.')) \
                and d.rsplit('.', 1)[1] in (DRAWS | {'seed'}):
          n_glob += 1
          rep.refuted(R, 'global:%s:%s' % (m.short, d),
                      '%s:%d' % (m.relpath, n.lineno),
                      'call of the global generator %s' % d)
  rep.floor('random draw sites on checked generators (visits)', draws,
            3 if only_constraints else 5)
  if not only_constraints:
    rep.floor('seeded stochastic library components (visits)', comps, 3)


# ---------------------------------------------------------------- FRESH
def rule_writes(repo, rep):
  R = 'FRESH:no-write-to-caller-objects'
  rep.rule(R, 'every in-place write construct (augmented assignment, '
           'subscript / slice store, out=, fill_diagonal, in-place methods, '
           'helpers that mutate a parameter) reached from fit or a query '
           'method writes an object created inside the analysed code: never '
           'one that may alias an argument, a hyper-parameter or (in query '
           'methods) the fitted state')
  n = 0
  for c in repo.estimators():
    hk = hyper_kinds(repo, c)
    for name, f in methods_of(repo, c, ['fit', 'calibrate_threshold',
                                        'set_threshold'] + QUERY_METHODS):
      is_query = name in QUERY_METHODS
      dom = FreshDomain(repo, hk, fitted_roots=is_query)
      eng = Engine(repo, dom, self_cls=c)
      flow = eng.run(f)
      rep.analysed(f)
      n += 1
      key = '%s.%s' % (c.name, name)
      seen = set()
      for (r, what, s, fn, node) in dom.writes:
        bad = sorted('%s %s' % t for t in r
                     if t[0] in ('param', 'hyper') or
                     (is_query and t[0] == 'fitted'))
        if not bad:
          continue
        k = (tuple(bad), fn.key if fn else '', what)
        if k in seen:
          continue
        seen.add(k)
        rep.refuted(R, '%s:%s@%s' % (key, ','.join(bad), fn.key if fn else ''),
                    s, '%s writes in place into an object that may alias %s'
                    % (what, ', '.join(bad)))
      if not seen:
        rep.derived(R, key, site(f),
                    sample=dict(rule=R, method=key,
                                inplace_constructs_seen=len(dom.writes))
                    if name == 'fit' and c.name in ('ITML', 'LMNN') else None)
      if name == 'get_metric':
        rule_handouts(rep, c, f, flow, dom)
      if name == 'get_mahalanobis_matrix':
        R6 = 'FRESH:handout-independent'
        for (v, st, node) in flow.returns:
          r = roots(v)
          if r:
            rep.refuted(R6, key, site(f, node),
                        'returned matrix may alias %s' % sorted(r))
          else:
            rep.derived(R6, key, site(f, node))
  rep.floor('(estimator, method) pairs analysed for in-place writes', n, 120)


def rule_handouts(rep, c, f, flow, dom):
  R6 = 'FRESH:handout-independent'
  rep.rule(R6, 'every free variable of the closure returned by get_metric is '
           'a fresh object (not self, not a view of the fitted state); the '
           'matrix returned by get_mahalanobis_matrix is fresh')
  key = c.name + '.get_metric'
  for (v, st, node) in flow.returns:
    if v.fn is None or v.fn[0] != 'closure':
      rep.unknown(R6, key, site(f, node), 'get_metric does not return a '
                  'nested function')
      continue
    fi, env = v.fn[1], v.fn[2]
    local = set(fi.params())
    for n in ast.walk(fi.node):
      if isinstance(n, ast.Name) and isinstance(n.ctx, ast.Store):
        local.add(n.id)
    free = sorted(set(n.id for n in ast.walk(fi.node)
                      if isinstance(n, ast.Name) and
                      isinstance(n.ctx, ast.Load) and n.id not in local and
                      n.id in env))
    bad = []
    for name in free:
      fv = env[name]
      if not isinstance(fv, V):
        continue
      if fv.obj is not None:
        bad.append('%s (the estimator object)' % name)
      elif roots(fv):
        bad.append('%s (may alias %s)' % (name, sorted(roots(fv))))
    if bad:
      rep.refuted(R6, key, site(f, node),
                  'closure captures ' + ', '.join(bad))
    else:
      rep.derived(R6, key, site(f, node))


# ------------------------------------------------------------- typestate
class HistoryDomain(TagDomain):
  def __init__(self):
    super().__init__()
    self.problems = []

  def fitted_read(self, cls, name, node, st):
    if not name.startswith('__'):
      self.problems.append((name, 'reads self.%s before this fit has '
                            'assigned it' % name, self.site(node),
                            self.cur()))
    return EMPTY

  def maybe_unassigned_read(self, cls, name, node, st):
    self.problems.append((name, 'reads self.%s, which is assigned only on '
                          'some paths of this fit' % name, self.site(node),
                          self.cur()))

  def ext_call(self, dotted, args, kwargs, node, st, eng):
    if dotted in ('builtins.hasattr', 'builtins.getattr', 'builtins.vars',
                  'builtins.delattr', 'builtins.setattr') and args and \
            args[0].obj is not None and args[0].obj.oid == 'self':
      names = ['*']
      if len(args) > 1 and dotted != 'builtins.vars' and \
              args[1].c is not NOCONST and args[1].c and \
              all(isinstance(x, str) for x in args[1].c):
        names = sorted(args[1].c)      # one of finitely many literal names
      cls = args[0].obj.cls
      for name in names:
        is_param = name in self.eng.repo.init_params(cls) or \
            self.eng.repo.class_attr(cls, name)[1] is not None
        assigned = ('store', 'self', name) in self.must(st)
        if not is_param and not assigned:
          self.problems.append((name, '%s(self, %r) makes fit depend on '
                                'state left by an earlier fit' % (
                                    dotted.split('.')[1], name),
                                self.site(node), self.cur()))
    # callbacks handed to library optimisers run in this state
    for v in list(args) + list(kwargs.values()):
      if v.fn is not None and v.fn[0] in ('repo', 'closure'):
        target = v.fn[1]
        n = len(target.params()) - (1 if (v.fn[0] == 'repo' and
                                          v.fn[2] is not None) else 0)
        eng.call_value(v, [V(EMPTY) for _ in range(max(0, n))], {}, node, st,
                       self.cur())
    return super().ext_call(dotted, args, kwargs, node, st, eng)


def rule_history(repo, rep):
  R = 'TYPESTATE:fit-reads-no-old-state'
  rep.rule(R, 'along every path of fit (interprocedurally, including '
           'callbacks handed to optimisers) no fitted attribute is read - '
           'directly or through hasattr / getattr / vars - before this fit '
           'assigned it')
  R2 = 'TYPESTATE:fitted-attrs-unconditional'
  rep.rule(R2, 'components_, threshold_, n_features_in_ and preprocessor_, '
           'when fit may assign them, are assigned on every path to every '
           'normal exit (no stale value of an earlier fit survives)')
  for c in repo.estimators():
    f = repo.resolve_method(c, 'fit')
    dom = HistoryDomain()
    eng = Engine(repo, dom, self_cls=c)
    flow = eng.run(f)
    rep.analysed(f)
    key = c.name + '.fit'
    seen = set()
    for (name, msg, s, fn) in dom.problems:
      k = (name, fn.key if fn else '')
      if k in seen:
        continue
      seen.add(k)
      rep.refuted(R, '%s:%s@%s' % (key, name, fn.key if fn else ''), s, msg)
    if not seen:
      rep.derived(R, key, site(f))
    cond = set()
    for (v, st, node) in flow.returns:
      may = set(e[2] for e in dom.may(st) if e[0] == 'store' and
                e[1] == 'self')
      must = set(e[2] for e in dom.must(st) if e[0] == 'store' and
                 e[1] == 'self')
      cond |= (may - must)
    cond &= {'components_', 'threshold_', 'n_features_in_', 'preprocessor_'}
    if cond:
      rep.refuted(R2, '%s:%s' % (key, ','.join(sorted(cond))), site(f),
                  'attribute(s) %s are assigned only on some paths of fit'
                  % sorted(cond))
    else:
      rep.derived(R2, key, site(f))


def rule_pure_queries(repo, rep):
  R = 'R-EFFECT:pure-queries'
  rep.rule(R, 'the transitive set of self attribute stores of every query '
           'method is empty')
  n = 0
  for c in repo.estimators():
    for name, f in methods_of(repo, c, QUERY_METHODS):
      dom = TagDomain()
      eng = Engine(repo, dom, self_cls=c)
      flow = eng.run(f)
      rep.analysed(f)
      n += 1
      stores = set()
      for (v, st, node) in flow.returns:
        stores |= set(e[2] for e in dom.may(st)
                      if e[0] == 'store' and e[1] == 'self')
      for (names, st, node) in flow.raises:
        stores |= set(e[2] for e in dom.may(st)
                      if e[0] == 'store' and e[1] == 'self')
      key = '%s.%s' % (c.name, name)
      if stores:
        rep.refuted(R, '%s:%s' % (key, ','.join(sorted(stores))), site(f),
                    'query method assigns self.%s' % ', self.'.join(
                        sorted(stores)))
      else:
        rep.derived(R, key, site(f))
  rep.floor('query methods checked for purity', n, 100)


def rule_no_hyper_writes(repo, rep, only=None):
  R = 'R-EFFECT:hyper-parameters-not-reassigned'
  rep.rule(R, 'no method other than __init__ (fit, query methods and '
           'everything they reach) assigns an attribute that is a '
           'constructor parameter: hyper-parameters stay what the user set '
           '(get_params / clone / refit see the same values)')
  n = 0
  for c in repo.estimators():
    if only is not None and c.name not in only:
      continue
    params = set(repo.init_params(c))
    for name, f in methods_of(repo, c, ['fit', 'calibrate_threshold',
                                        'set_threshold'] + QUERY_METHODS):
      dom = TagDomain()
      eng = Engine(repo, dom, self_cls=c)
      flow = eng.run(f)
      n += 1
      stores = set()
      for (v, st, node) in flow.returns + [(None, s_, n_) for (nm, s_, n_)
                                           in flow.raises]:
        stores |= set(e[2] for e in dom.may(st)
                      if e[0] == 'store' and e[1] == 'self')
      bad = sorted(stores & params)
      key = '%s.%s' % (c.name, name)
      if bad:
        rep.refuted(R, '%s:%s' % (key, ','.join(bad)), site(f),
                    '%s assigns the hyper-parameter attribute(s) self.%s'
                    % (key, ', self.'.join(bad)))
      else:
        rep.derived(R, key, site(f))
  rep.floor('methods checked for hyper-parameter writes', n,
            100 if only is None else 2)


def check(repo, rep, tier):
  rule_no_hyper_writes(repo, rep)
  rule_rng(repo, rep)
  rule_writes(repo, rep)
  rule_history(repo, rep)
  rule_pure_queries(repo, rep)
