"""C11, interpretive part: two sweeps of ITML's cyclic Bregman projections.

`_BaseITML._fit` is interpreted (minterp) on five pairs with labels (+1, -1,
+1, -1, +1), explicit bounds (3, 11), gamma = 2, two sweeps, a tolerance that
is never met.  The data enter only through the quantities v^T A v, which are
taken from a fixed table of positive rationals indexed by (pair, number of
updates A has received so far); the matrix itself is a version counter and
every update `A += beta * (A v)(A v)^T` is logged as (pair, version, beta).
All the scalar bookkeeping - the duals, the slacks, alpha, beta, gamma / (gamma
+ 1) - is then computed exactly in rationals by the code under analysis, and
the log is compared with the one produced by the documented algorithm

  similar   : alpha = min(lambda_i, g' (1/p - 1/xi_i)), beta =  alpha / (1 - alpha p),
              xi_i <- 1 / (1/xi_i + alpha / gamma)
  dissimilar: alpha = min(lambda_i, g' (1/xi_i - 1/p)), beta = -alpha / (1 + alpha p),
              xi_i <- 1 / (1/xi_i - alpha / gamma)
  lambda_i <- lambda_i - alpha,   p = v_i^T A v_i,   g' = gamma / (gamma + 1)

visiting all similar pairs, then all dissimilar ones, in every sweep -
whether the code has two loops, one fused loop, helper functions or a table
of constraint kinds."""
import ast
from fractions import Fraction as F
from ..minterp import Interp, World, Undecided, Raised, Arr, Lib
from .common import site
from .c07b import S, tg

Y = [1, -1, 1, -1, 1]
BOUNDS = (F(3), F(11))
GAMMA = F(2)
SWEEPS = 2


def wtw(p, k):
  """v_p^T A_k v_p of the scenario: positive, sometimes inside and sometimes
  outside the bounds"""
  return F((7 * p + 5 * k) % 13 + 1, 1 + (p + k) % 3)


def reference():
  gp = GAMMA / (GAMMA + 1)
  pos = [i for i, v in enumerate(Y) if v == 1]
  neg = [i for i, v in enumerate(Y) if v == -1]
  lam = dict((i, F(0)) for i in range(len(Y)))
  xi = dict((i, BOUNDS[0] if Y[i] == 1 else BOUNDS[1]) for i in range(len(Y)))
  k = 0
  log = []
  for _ in range(SWEEPS):
    for i in pos:
      p = wtw(i, k)
      alpha = min(lam[i], gp * (1 / p - 1 / xi[i]))
      lam[i] -= alpha
      beta = alpha / (1 - alpha * p)
      xi[i] = 1 / (1 / xi[i] + alpha / GAMMA)
      log.append((i, k, beta))
      k += 1
    for i in neg:
      p = wtw(i, k)
      alpha = min(lam[i], gp * (1 / xi[i] - 1 / p))
      lam[i] -= alpha
      beta = -alpha / (1 + alpha * p)
      xi[i] = 1 / (1 / xi[i] - alpha / GAMMA)
      log.append((i, k, beta))
      k += 1
  return log


def _num(x):
  return isinstance(x, (int, F)) and not isinstance(x, bool)


class AMat:
  """the metric being learned: a mutable array object (so that an in-place
  `A += ...` inside a helper is seen by the caller, as with numpy), known
  only by the number of rank-one updates it has received"""

  def __init__(self, k):
    self.k = k

  def __repr__(self):
    return 'A<%d updates>' % self.k


class _ItmlWorld(World):
  def __init__(self):
    self.attrs = {}
    self.log = []
    self.stored = {}

  # ---- the estimator
  def attr(self, it, v, attr, node):
    if v == S('self'):
      if attr in self.attrs:
        return self.attrs[attr]
      if attr == 'gamma':
        return GAMMA
      if attr == 'max_iter':
        return SWEEPS
      if attr == 'tol':
        return S('tol')
      if attr == 'verbose':
        return False
      return S('selfattr', attr)
    if isinstance(v, AMat) and attr == 'T':
      return v
    if tg(v) in ('vv', 'psel') and attr == 'shape':
      return (len(v[1]),) + ((2,) if tg(v) == 'psel' else ()) + (S('d'),)
    return NotImplemented

  def setattr(self, it, obj, attr, value, node):
    if obj == S('self'):
      self.attrs[attr] = value
      return None
    return NotImplemented

  # ---- pairs, differences
  def subscript(self, it, base, idx, node):
    if base == S('pairs') and isinstance(idx, Arr) and idx.is_mask and \
            len(idx) == len(Y):
      return S('psel', tuple(i for i, m in enumerate(idx.xs) if m))
    full = slice(None, None, None)
    if tg(base) == 'psel' and isinstance(idx, tuple) and len(idx) in (2, 3) \
            and idx[0] == full and idx[1] in (0, 1) and \
            all(x == full for x in idx[2:]):
      return S('slot', idx[1], base[1])
    if base == S('pairs') and isinstance(idx, tuple) and len(idx) in (2, 3) \
            and idx[0] == full and idx[1] in (0, 1) and \
            all(x == full for x in idx[2:]):
      return S('slot', idx[1], tuple(range(len(Y))))
    if tg(base) == 'vv' and isinstance(idx, Arr) and idx.is_mask and \
            len(idx) == len(base[1]):
      return S('vv', tuple(p for p, m in zip(base[1], idx.xs) if m))
    if tg(base) == 'vv' and isinstance(idx, int) and \
            -len(base[1]) <= idx < len(base[1]):
      return S('v', base[1][idx])
    return NotImplemented

  def iterate(self, it, v, node):
    if tg(v) == 'vv':
      return [S('v', p) for p in v[1]]
    return NotImplemented

  def _dot(self, a, b):
    if tg(a) == 'v' and isinstance(b, AMat):
      return S('vA', a[1], b.k)
    if isinstance(a, AMat) and tg(b) == 'v':
      return S('Av', b[1], a.k)
    if tg(a) == 'vA' and tg(b) == 'v' and a[1] == b[1]:
      return wtw(a[1], a[2])
    if tg(a) == 'v' and tg(b) == 'Av' and a[1] == b[1]:
      return wtw(b[1], b[2])
    return NotImplemented

  def binop(self, it, op, a, b, node):
    if isinstance(op, ast.MatMult):
      return self._dot(a, b)
    if isinstance(op, ast.Sub) and tg(a) == 'slot' and tg(b) == 'slot' and \
            a[2] == b[2] and {a[1], b[1]} == {0, 1}:
      return S('vv', a[2])
    if isinstance(op, ast.Mult):
      for x, y in ((a, b), (b, a)):
        if tg(x) == 'Av' and _num(y):
          return S('Avs', x[1], x[2], F(y))
        if tg(x) == 'outer' and _num(y):
          return S('upd', x[1], x[2], F(y) * x[3])
    if isinstance(op, ast.Div) and tg(a) in ('posnorm',) and \
            tg(b) == 'posnorm':
      return S('conv')
    if isinstance(op, ast.Div) and _num(a) and tg(b) == 'posnorm':
      return S('conv')
    if isinstance(op, ast.Add) and tg(a) in ('posnorm', 'zero-or-pos') and \
            (tg(b) in ('posnorm',) or _num(b)):
      return S('posnorm')
    if isinstance(op, ast.Add) and _num(a) and tg(b) == 'posnorm':
      return S('posnorm')
    if isinstance(op, ast.Add) and isinstance(a, AMat) and \
            tg(b) in ('upd', 'outer'):
      u = b if tg(b) == 'upd' else S('upd', b[1], b[2], b[3])
      if u[2] != a.k:
        raise Undecided('the rank-one update uses A v of an older matrix')
      self.log.append((u[1], u[2], u[3]))
      if isinstance(node, ast.AugAssign):
        a.k += 1              # in place: every alias sees it
        return a
      return AMat(a.k + 1)
    return NotImplemented

  def compare(self, it, op, a, b, node):
    if tg(a) == 'conv' and b == S('tol') and isinstance(
            op, (ast.Lt, ast.LtE)):
      return False                  # the scenario: not converged yet
    if tg(b) == 'conv' and a == S('tol') and isinstance(
            op, (ast.Gt, ast.GtE)):
      return False
    if tg(a) == 'posnorm' and b == 0 and isinstance(op, (ast.Eq, ast.NotEq)):
      return isinstance(op, ast.NotEq)
    return NotImplemented

  def call(self, it, d, recv, args, kwargs, node):
    short = d.rsplit('.', 1)[-1]
    if d.startswith('.'):
      if recv == S('self') and d == '._prepare_inputs':
        return (S('pairs'), Arr(Y))
      if d == '.dot' and len(args) == 1:
        return self._dot(recv, args[0])
      if d == '.copy' and isinstance(recv, AMat):
        return AMat(recv.k)
      return NotImplemented
    if short == '_initialize_metric_mahalanobis':
      return AMat(0)
    if short == 'components_from_metric' and args and \
            isinstance(args[0], AMat):
      return S('L', args[0].k)
    if short == 'check_array' and args and isinstance(args[0], Arr):
      return Arr(args[0].xs)
    if d == 'len' and args and tg(args[0]) in ('psel', 'vv'):
      return len(args[0][1])
    if d in ('print',):
      return None
    if d.startswith('numpy.') or d.startswith('sklearn.'):
      if short in ('dot', 'matmul') and len(args) == 2:
        return self._dot(args[0], args[1])
      if short == 'outer' and len(args) == 2:
        a, b = args
        for x, y in ((a, b), (b, a)):
          if tg(x) == 'Av' and tg(y) == 'Av' and x == y:
            return S('outer', x[1], x[2], F(1))
          if tg(x) == 'Av' and tg(y) == 'Avs' and x[1:] == y[1:3]:
            return S('upd', x[1], x[2], y[3])
      if short in ('add',) and len(args) == 2 and isinstance(
              kwargs.get('out'), AMat) and kwargs['out'] is args[0]:
        return self.binop(it, ast.Add(), args[0], args[1],
                          ast.AugAssign(target=None, op=ast.Add(),
                                        value=None))
      if short == 'norm' and args and isinstance(args[0], Arr):
        return 0 if all(x == 0 for x in args[0].xs) else S('posnorm')
      if short in ('concatenate', 'hstack', 'vstack') and len(args) == 1 \
              and isinstance(args[0], (list, tuple)) and args[0] and \
              all(tg(x) == 'vv' for x in args[0]):
        return S('vv', tuple(p_ for x in args[0] for p_ in x[1]))
      if short == 'repeat' and len(args) == 2 and isinstance(args[0], Arr) \
              and isinstance(args[1], (tuple, list, Arr)):
        reps = list(args[1].xs if isinstance(args[1], Arr) else args[1])
        if len(reps) == len(args[0]) and all(isinstance(r, int)
                                             for r in reps):
          return Arr(x for x, r in zip(args[0].xs, reps) for _ in range(r))
      if short == 'count_nonzero' and len(args) == 1 and \
              isinstance(args[0], Arr):
        return sum(1 for x in args[0].xs if x)
      if short == 'full' and len(args) == 2 and isinstance(args[0], int) \
              and _num(args[1]):
        return Arr([args[1]] * args[0])
      if short == 'isinf' and len(args) == 1 and _num(args[0]):
        return False
    return NotImplemented


def rule_itml_sweeps(repo, rep):
  R = 'R-INTERP:itml-bregman-sweeps'
  rep.rule(R, '_BaseITML._fit interpreted for two sweeps over five pairs '
           '(+,-,+,-,+) with explicit bounds (3, 11) and gamma = 2, the data '
           'entering only through a fixed table of values v^T A v: the '
           'sequence of rank-one updates (pair, matrix version, beta) equals '
           'that of the documented cyclic projections (alpha, beta, dual and '
           'slack updates exact in rationals; all similar pairs, then all '
           'dissimilar ones, every sweep), and components_ is computed from '
           'the matrix after the last update')
  c = repo.get_class('_BaseITML')
  f = repo.resolve_method(c, '_fit') if c is not None else None
  key = 'itml._BaseITML._fit'
  if f is None:
    rep.unknown(R, key, '', 'method vanished')
    return
  rep.analysed(f)
  ps = f.params()
  if ps[:3] != ['self', 'pairs', 'y'] or 'bounds' not in ps:
    rep.unknown(R, key, site(f), 'parameters %s' % ps)
    return
  w = _ItmlWorld()
  env = {'self': S('self'), 'pairs': S('pairs_in'), 'y': S('y_in'),
         'bounds': Arr(list(BOUNDS))}
  it = Interp(repo, f, w)
  it.fuel = 20000
  try:
    out = it.run(env)
  except Undecided as u:
    rep.unknown(R, key, site(f), str(u))
    return
  if out[0] == 'raise':
    rep.refuted(R, key, site(f, out[2]), 'raises %s on the scenario'
                % out[1][0])
    return
  want = reference()
  got = w.log
  if got == want:
    comp = w.attrs.get('components_')
    if comp == S('L', len(want)):
      rep.derived(R, key, site(f), sample=dict(
          rule=R, updates=len(got),
          betas=[str(b) for (_, _, b) in got]))
    else:
      rep.refuted(R, key + ':components', site(f), 'components_ is %r, not '
                  'the transformation of the matrix after the last of the '
                  '%d updates' % (comp, len(want)))
    return
  # first difference, for the report
  k = 0
  while k < min(len(got), len(want)) and got[k] == want[k]:
    k += 1
  g = got[k] if k < len(got) else None
  x = want[k] if k < len(want) else None
  rep.refuted(R, key, site(f), 'update %d of the two sweeps is %s, the '
              'documented projections give %s (pair, matrix version, beta); '
              '%d updates made, %d documented'
              % (k, g and (g[0], g[1], str(g[2])),
                 x and (x[0], x[1], str(x[2])), len(got), len(want)))
