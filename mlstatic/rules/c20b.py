"""C20, second part: decision tables decided by interpretation on
representatives (minterp): the PSD test, the spectral pseudo-inverse and the
option / validation table of _initialize_metric_mahalanobis."""
import ast
from fractions import Fraction
from ..minterp import Interp, World, Undecided, Raised, Arr, Lib
from .common import site
from .c07b import S, tg


def _short(d):
  return d.rsplit('.', 1)[-1]


# ---------------------------------------------------------------- PSD test
class _SpecWorld(World):
  def attr(self, it, v, attr, node):
    if isinstance(v, Arr) and attr == 'dtype':
      return S('dtype')
    if tg(v) == 'finfo' and attr == 'eps':
      return Fraction(1, 2 ** 52)
    if tg(v) == 'V' and attr == 'T':
      return S('VT')
    if tg(v) == 'scaled' and attr == 'T':
      return S('scaledT', v[1])
    return NotImplemented

  def binop(self, it, op, a, b, node):
    if isinstance(op, ast.Mult):
      if a == S('V') and isinstance(b, Arr):
        return S('scaled', tuple(b.xs))
      if b == S('V') and isinstance(a, Arr):
        return S('scaled', tuple(a.xs))
    if isinstance(op, ast.MatMult):
      return self._dot(a, b)
    return NotImplemented

  def _dot(self, a, b):
    if tg(a) == 'scaled' and b == S('VT'):
      return S('VwVt', a[1])
    if a == S('V') and tg(b) == 'scaledT':
      return S('VwVt', b[1])
    if a == S('V') and tg(b) == 'diag':
      return S('scaled', b[1])
    return NotImplemented

  def call(self, it, d, recv, args, kwargs, node):
    if d.startswith('.'):
      if d == '.dot' and len(args) == 1:
        return self._dot(recv, args[0])
      if d in ('.conj', '.conjugate') and (recv in (S('V'), S('VT')) or
                                           tg(recv) == 'scaled'):
        return recv
      if d == '.transpose' and not args and recv == S('V'):
        return S('VT')
      return NotImplemented
    short = _short(d)
    if d.startswith('numpy.'):
      if short == 'finfo':
        return S('finfo')
      if short in ('conjugate', 'conj') and len(args) == 1 and \
              args[0] in (S('V'), S('VT')):
        return args[0]
      if short in ('dot', 'matmul') and len(args) == 2:
        return self._dot(args[0], args[1])
      if short == 'diag' and len(args) == 1 and isinstance(args[0], Arr):
        return S('diag', tuple(args[0].xs))
      if short == 'transpose' and len(args) == 1 and args[0] == S('V'):
        return S('VT')
    return NotImplemented


def rule_psd_test(repo, rep):
  R = 'R-INTERP:psd-test-table'
  rep.rule(R, '_check_sdp_from_eigen(w, tol) interpreted on representative '
           'spectra (entries far below -tol, within (-tol, tol), above tol; '
           'tol = 0; tol < 0): raises NonPSDError iff some eigenvalue is '
           'below -tol, otherwise returns whether no |eigenvalue| is below '
           'tol; a negative tol is a ValueError')
  f = repo.get_func('_util._check_sdp_from_eigen')
  if f is None:
    rep.unknown(R, '_util._check_sdp_from_eigen', '', 'function vanished')
    return
  rep.analysed(f)
  ps = f.params()
  cases = [([5, 7, 9], 2), ([1, 7], 2), ([-1, 7], 2), ([0, 7], 2),
           ([-3, 7], 2), ([-3, 1], 2), ([7, -3], 2), ([5, 7], 0), ([0, 7], 0),
           ([-1, 7], 0), ([9], 2), ([1], 2), ([-5], 2), ([3, 4], -1)]
  bad = unk = None
  n_ok = 0
  for w, tol in cases:
    if tol < 0:
      want = ('raise', 'ValueError')
    elif any(x < -tol for x in w):
      want = ('raise', 'NonPSDError')
    else:
      want = ('return', not any(abs(x) < tol for x in w))
    it = Interp(repo, f, _SpecWorld())
    try:
      out = it.run(dict(zip(ps, (Arr(w), tol))))
    except Undecided as u:
      unk = unk or '%s (w=%s, tol=%s)' % (u, w, tol)
      continue
    if out[0] == 'raise':
      got = ('raise', want[1] if want[0] == 'raise' and want[1] in out[1]
             else out[1][0])
    else:
      try:
        got = ('return', bool(it.truth(out[1], f.node)))
      except Undecided:
        got = ('return', out[1])
    if got != want:
      bad = bad or 'for eigenvalues %s and tol=%s: %s %s, documented: %s %s' \
          % (w, tol, got[0], got[1], want[0], want[1])
    else:
      n_ok += 1
  key = '_util._check_sdp_from_eigen'
  if bad:
    rep.refuted(R, key, site(f), bad)
  elif unk:
    rep.unknown(R, key, site(f), unk)
  else:
    rep.derived(R, key, site(f), sample=dict(rule=R, cases=n_ok))


def rule_pinv_spectrum(repo, rep):
  R = 'R-INTERP:pseudo-inverse-spectrum'
  rep.rule(R, '_pseudo_inverse_from_eig(w, V, tol) interpreted on '
           'representative spectra with exact rationals: returns '
           'V Diag(w\') V^T with w\'_i = 1 / w_i where |w_i| > tol and 0 '
           'elsewhere (also with the default tolerance)')
  f = repo.get_func('_util._pseudo_inverse_from_eig')
  if f is None:
    rep.unknown(R, '_util._pseudo_inverse_from_eig', '', 'function vanished')
    return
  rep.analysed(f)
  ps = f.params()
  cases = [([-6, 1, 8, -1, 0], 2), ([4, 5], 2), ([1, 1], 2), ([0, 0, 3], 1),
           ([3, 8, 0], None), ([2, 5], None)]
  bad = unk = None
  n_ok = 0
  for w, tol in cases:
    if tol is None:
      t = Fraction(max(w) * len(w), 2 ** 52)
    else:
      t = tol
    want = tuple(Fraction(1, x) if abs(x) > t else 0 for x in w)
    it = Interp(repo, f, _SpecWorld())
    try:
      out = it.run(dict(zip(ps, (Arr(w), S('V'), tol))))
    except Undecided as u:
      unk = unk or '%s (w=%s, tol=%s)' % (u, w, tol)
      continue
    if out[0] != 'return' or tg(out[1]) != 'VwVt':
      if out[0] == 'raise':
        bad = bad or 'raises %s for w=%s, tol=%s' % (out[1][0], w, tol)
      else:
        unk = unk or 'returns %r (w=%s, tol=%s)' % (out[1], w, tol)
      continue
    got = tuple(out[1][1])
    if tuple(Fraction(x) for x in got) != tuple(Fraction(x) for x in want):
      bad = bad or 'for eigenvalues %s and tol=%s the inverted spectrum is ' \
          '%s, the pseudo-inverse has %s' % (
              w, tol, [str(x) for x in got], [str(x) for x in want])
    else:
      n_ok += 1
  key = '_util._pseudo_inverse_from_eig'
  if bad:
    rep.refuted(R, key, site(f), bad)
  elif unk:
    rep.unknown(R, key, site(f), unk)
  else:
    rep.derived(R, key, site(f), sample=dict(rule=R, cases=n_ok))


# ------------------------------------------------- metric initialisation
class _InitWorld(World):
  def __init__(self, sc):
    self.sc = sc
    self.warned = 0
    self.d = 3

  def _arr(self, v):
    return tg(v) == 'arr'

  def attr(self, it, v, attr, node):
    if self._arr(v):
      if attr == 'shape':
        return self.sc['shape']
      if attr == 'T':
        return S('arrT', v[1])
      if attr == 'ndim':
        return len(self.sc['shape'])
    if v == S('input'):
      if attr == 'shape':
        return (11, self.d) if self.sc['ndim'] == 2 else (11, 2, self.d)
      if attr == 'ndim':
        return self.sc['ndim']
    return NotImplemented

  def compare(self, it, op, a, b, node):
    return NotImplemented

  def call(self, it, d, recv, args, kwargs, node):
    if d == 'isinstance' and len(args) == 2:
      if args[1] == Lib('numpy.ndarray'):
        return self._arr(args[0]) or tg(args[0]) in ('eye', 'spd', 'pinv',
                                                      'cov')
      if args[1] is str or args[1] == Lib('str'):
        return isinstance(args[0], str)
      raise Undecided('isinstance %r' % (args[1],))
    if d.startswith('.'):
      if d == '.copy' and tg(recv) in ('eye', 'arr', 'spd'):
        return recv
      if d == '.format':
        return '<message>'
      return NotImplemented
    short = _short(d)
    if short == 'check_array' and args and self._arr(args[0]):
      if kwargs.get('copy') is True:
        return S('arr', 'copy')
      return args[0]
    if short == 'check_random_state':
      return S('rng', args[0] if args else None)
    if d.startswith('numpy.'):
      if short == 'allclose' and len(args) >= 2:
        if {tg(args[0]), tg(args[1])} == {'arr', 'arrT'}:
          return self.sc['symmetric']
        raise Undecided('allclose of %r' % (args,))
      if short == 'array_equal' and len(args) == 2 and \
              {tg(args[0]), tg(args[1])} == {'arr', 'arrT'}:
        return self.sc['symmetric']
      if short in ('eye', 'identity') and args and \
              all(isinstance(a, int) for a in args):
        if len(args) == 1 or args[0] == args[1]:
          return S('eye', args[0])
        raise Undecided('rectangular eye')
      if short == 'vstack' and args == [S('input')]:
        return S('stacked')
      if short == 'unique' and args == [S('stacked')] and \
              kwargs == {'axis': 0}:
        return S('distinct')
      if short == 'cov' and len(args) == 1:
        rv = kwargs.get('rowvar', True)
        if set(kwargs) - {'rowvar'}:
          raise Undecided('np.cov options')
        return S('cov', args[0], bool(rv))
      if short == 'atleast_2d' and len(args) == 1:
        return args[0]
      if short == 'reshape':
        raise Undecided('reshape')
    if short == 'eigh' and len(args) == 1:
      return (S('w', args[0]), S('V', args[0]))
    if short == '_check_sdp_from_eigen' and args and tg(args[0]) == 'w':
      M = args[0][1]
      spec = self.sc['spectrum'] if self._arr(M) else \
          self.sc['cov_spectrum'] if tg(M) == 'cov' else None
      if spec is None:
        raise Undecided('spectrum of %r' % (M,))
      if spec == 'indefinite':
        raise Raised(['NonPSDError', 'LinAlgError', 'Exception'], node)
      return spec == 'definite'
    if short == '_pseudo_inverse_from_eig' and len(args) >= 2 and \
            tg(args[0]) == 'w' and tg(args[1]) == 'V' and \
            args[0][1] == args[1][1]:
      return S('pinv', args[0][1])
    if short in ('pinvh', 'pinv') and len(args) == 1:
      return S('pinv', args[0])
    if short == 'make_spd_matrix' and args:
      return S('spd', args[0], kwargs.get('random_state',
                                          args[1] if len(args) > 1
                                          else None))
    return NotImplemented

  def warn(self, it, node):
    self.warned += 1


def rule_metric_init_table(repo, rep):
  R = 'R-INTERP:metric-init-table'
  rep.rule(R, '_initialize_metric_mahalanobis interpreted on every '
           'combination of init in {array (right / wrong shape, symmetric or '
           'not, definite / singular / indefinite), identity, covariance '
           '(definite / singular; points or tuples), random, an unknown '
           'string} x strict_pd x return_inverse: wrong shape, asymmetry and '
           'unknown strings are ValueErrors, an indefinite array a '
           'NonPSDError, a singular matrix under strict_pd a LinAlgError; '
           'otherwise the array itself (copied), I, pinv(cov(distinct '
           'points, rowvar=False)), or make_spd_matrix(d, rng) is returned, '
           'with the matching inverse on request')
  f = repo.get_func('_util._initialize_metric_mahalanobis')
  if f is None:
    rep.unknown(R, '_util._initialize_metric_mahalanobis', '', 'vanished')
    return
  rep.analysed(f)
  ps = f.params()
  d = 3
  scen = []
  for strict in (False, True):
    for rinv in (False, True):
      for ndim in (2, 3):
        base = dict(strict=strict, rinv=rinv, ndim=ndim, shape=(d, d),
                    symmetric=True, spectrum='definite',
                    cov_spectrum='definite')
        for shape in ((d, d), (d + 1, d + 1), (d, d + 1), (d + 1, d),
                      (d - 1, d - 1)):
          for sym in (True, False):
            for spec in ('definite', 'singular', 'indefinite'):
              if shape != (d, d) and (not sym or spec != 'definite'):
                continue
              if not sym and spec != 'definite':
                continue
              scen.append(dict(base, init='array', shape=shape,
                               symmetric=sym, spectrum=spec))
        scen.append(dict(base, init='identity'))
        scen.append(dict(base, init='random'))
        scen.append(dict(base, init='bogus'))
        for cs in ('definite', 'singular'):
          scen.append(dict(base, init='covariance', cov_spectrum=cs))
  bad = {}
  unk = None
  n_ok = 0
  for sc in scen:
    w = _InitWorld(sc)
    init = S('arr', 'caller') if sc['init'] == 'array' else sc['init']
    env = {}
    for p_ in ps:
      env[p_] = {'input': S('input'), 'init': init,
                 'random_state': S('seed'), 'return_inverse': sc['rinv'],
                 'strict_pd': sc['strict'],
                 'matrix_name': 'prior'}.get(p_)
    if set(ps) - {'input', 'init', 'random_state', 'return_inverse',
                  'strict_pd', 'matrix_name'}:
      rep.unknown(R, '_util._initialize_metric_mahalanobis', site(f),
                  'signature %s' % ps)
      return
    # expected
    X = S('input') if sc['ndim'] == 2 else S('distinct')
    cov = S('cov', X, False)
    if sc['init'] == 'array':
      if sc['shape'] != (d, d) or not sc['symmetric']:
        want = ('raise', 'ValueError')
      elif sc['spectrum'] == 'indefinite':
        want = ('raise', 'NonPSDError')
      elif sc['spectrum'] == 'singular' and sc['strict']:
        want = ('raise', 'LinAlgError')
      else:
        M = S('arr', 'copy')
        want = ('return', (M, S('pinv', M)) if sc['rinv'] else M)
    elif sc['init'] == 'bogus':
      want = ('raise', 'ValueError')
    elif sc['init'] == 'identity':
      M = S('eye', d)
      want = ('return', (M, M) if sc['rinv'] else M)
    elif sc['init'] == 'random':
      M = S('spd', d, S('rng', S('seed')))
      want = ('return', (M, S('pinv', M)) if sc['rinv'] else M)
    else:
      if sc['cov_spectrum'] == 'singular' and sc['strict']:
        want = ('raise', 'LinAlgError')
      else:
        M = S('pinv', cov)
        want = ('return', (M, cov) if sc['rinv'] else M)
    it = Interp(repo, f, w)
    tag = ', '.join('%s=%s' % (k, sc[k]) for k in (
        'init', 'shape', 'symmetric', 'spectrum', 'cov_spectrum', 'strict',
        'rinv', 'ndim') if not (sc['init'] != 'array' and k in (
            'shape', 'symmetric', 'spectrum')) and not (
                sc['init'] != 'covariance' and k in ('cov_spectrum',
                                                     'ndim')))
    try:
      out = it.run(env)
    except Undecided as u:
      unk = unk or '%s (%s)' % (u, tag)
      continue
    if out[0] == 'raise':
      names = out[1]
      got = ('raise', want[1] if want[0] == 'raise' and want[1] in names
             else names[0])
      # a NonPSDError is also a LinAlgError: keep the most specific
      if want == ('raise', 'LinAlgError') and 'NonPSDError' in names:
        got = ('raise', 'NonPSDError')
    else:
      got = ('return', out[1])
    if got != want:
      clause = sc['init']
      if clause not in bad:
        bad[clause] = (
            'for %s: %s %s; documented: %s %s' % (tag, got[0], got[1],
                                                  want[0], want[1]),
            out[2] if out[0] == 'raise' else None)
    else:
      n_ok += 1
  for clause in ('array', 'identity', 'covariance', 'random', 'bogus'):
    key = '_util._initialize_metric_mahalanobis:%s' % clause
    if clause in bad:
      rep.refuted(R, key, site(f, bad[clause][1])
                  if bad[clause][1] is not None else site(f), bad[clause][0])
    elif unk:
      rep.unknown(R, key, site(f), unk)
    else:
      rep.derived(R, key, site(f), sample=dict(rule=R, scenarios=len(scen)))
  rep.floor('metric-init scenarios interpreted', len(scen), 100)


# ------------------------------------------------- transformation init
class _CompWorld(World):
  def __init__(self, sc):
    self.sc = sc
    self.objs = {}

  def attr(self, it, v, attr, node):
    sc = self.sc
    if v == S('input'):
      if attr == 'shape':
        return (sc['n'], sc['d'])
      if attr == 'ndim':
        return 2
    if tg(v) == 'arr' and attr == 'shape':
      return sc['shape']
    if tg(v) == 'PCA' and attr == 'components_':
      o = self.objs[v[1]]
      return S('pca-comp', o['k'], o['rs'], o.get('fit'))
    if tg(v) == 'LDA' and attr == 'scalings_':
      o = self.objs[v[1]]
      return S('lda-scal', o['k'], o.get('fit'))
    if tg(v) in ('lda-scal',) and attr == 'T':
      return S('T', v)
    if v == Lib('sys.stdout'):
      return S('stdout')
    return NotImplemented

  def subscript(self, it, base, idx, node):
    if tg(base) == 'T' and isinstance(idx, slice) and idx.start is None \
            and idx.step is None and isinstance(idx.stop, int):
      return S('rows', base, idx.stop)
    return NotImplemented

  def call(self, it, d, recv, args, kwargs, node):
    sc = self.sc
    if d == 'isinstance' and len(args) == 2:
      if args[1] == Lib('numpy.ndarray'):
        return tg(args[0]) in ('arr', 'eye', 'randn', 'pca-comp', 'rows')
      if args[1] == Lib('str'):
        return isinstance(args[0], str)
      raise Undecided('isinstance %r' % (args[1],))
    if d == 'len' and args and args[0] == S('uniq'):
      return sc['classes']
    if d.startswith('.'):
      m = d[1:]
      if tg(recv) == 'rng' and m in ('randn', 'rand'):
        if m == 'randn' and len(args) == 2:
          return S('randn', args[0], args[1])
        raise Undecided('rng.%s' % m)
      if tg(recv) == 'rng' and m in ('standard_normal', 'normal'):
        size = kwargs.get('size', args[-1] if args else None)
        if isinstance(size, tuple) and len(size) == 2 and \
                (m == 'standard_normal' or not args or len(args) == 1):
          return S('randn', size[0], size[1])
        raise Undecided('rng.%s' % m)
      if tg(recv) in ('PCA', 'LDA') and m == 'fit':
        self.objs[recv[1]]['fit'] = tuple(args) + tuple(
            sorted(kwargs.items()))
        return recv
      if recv == S('stdout') and m == 'flush':
        return None
      if m == 'copy' and tg(recv) == 'arr':
        return recv
      return NotImplemented
    short = _short(d)
    if short == 'check_array' and args and tg(args[0]) == 'arr':
      return S('arr', 'copy') if kwargs.get('copy') is True else args[0]
    if short == 'check_random_state':
      return S('rng', args[0] if args else None)
    if d.startswith('numpy.'):
      if short == 'unique' and args == [S('y')] and not kwargs:
        return S('uniq')
      if short == 'eye' and args and all(isinstance(a, int) for a in args):
        return S('eye', args[0], args[1] if len(args) > 1 else args[0])
      if short == 'identity' and len(args) == 1:
        return S('eye', args[0], args[0])
    if short == 'PCA' and 'sklearn' in d:
      if args or set(kwargs) - {'n_components', 'random_state'}:
        raise Undecided('PCA options')
      k = len(self.objs)
      self.objs[k] = dict(k=kwargs.get('n_components'),
                          rs=kwargs.get('random_state'))
      return S('PCA', k)
    if short == 'LinearDiscriminantAnalysis':
      if args or set(kwargs) - {'n_components'}:
        raise Undecided('LDA options')
      k = len(self.objs)
      self.objs[k] = dict(k=kwargs.get('n_components'), rs=None)
      return S('LDA', k)
    if d == 'time.time':
      return 0
    return NotImplemented


def rule_components_init_table(repo, rep):
  R = 'R-INTERP:components-init-table'
  rep.rule(R, '_initialize_components interpreted on init in {identity, '
           'random, pca, lda, auto, an unknown string, arrays of right / '
           'wrong shape} x has_classes x n_components x numbers of classes '
           'and samples: the array is shape-checked on the right axes and '
           'returned (copied), lda without classes and unknown strings are '
           'ValueErrors, the strings give np.eye(k, d), rng.randn(k, d), '
           'PCA(k, rng).fit(X).components_, LDA(k).fit(X, y).scalings_.T[:k], '
           'and auto follows the documented three-way rule')
  f = repo.get_func('_util._initialize_components')
  if f is None:
    rep.unknown(R, '_util._initialize_components', '', 'vanished')
    return
  rep.analysed(f)
  ps = f.params()
  known = {'n_components', 'input', 'y', 'init', 'verbose', 'random_state',
           'has_classes'}
  if set(ps) - known:
    rep.unknown(R, '_util._initialize_components', site(f),
                'parameters %s' % sorted(set(ps) - known))
    return
  d = 3
  scen = []
  for has in (True, False):
    for k in (1, 2, 3):
      for classes in (2, 3, 6):
        for n in (2, 11):
          base = dict(has=has, k=k, classes=classes, n=n, d=d, shape=None)
          for init in ('identity', 'random', 'pca', 'lda', 'auto', 'bogus'):
            scen.append(dict(base, init=init))
      for shape in ((k, d), (k, d + 1), (d + 1, d), (k + 1, d), (d, d)):
        scen.append(dict(has=has, k=k, classes=3, n=11, d=d, init='array',
                         shape=shape))
  bad = {}
  unk = None
  for sc in scen:
    k = sc['k']
    rng = S('rng', S('seed'))
    forms = {'identity': S('eye', k, d), 'random': S('randn', k, d),
             'pca': S('pca-comp', k, rng, (S('input'),)),
             'lda': S('rows', S('T', S('lda-scal', k, (S('input'), S('y')))),
                      k)}
    if sc['init'] == 'array':
      k0, d0 = sc['shape']
      if d0 != d or k0 > d0 or k != k0:
        want = ('raise', 'ValueError')
      else:
        want = ('return', S('arr', 'copy'))
    elif sc['init'] == 'bogus' or (sc['init'] == 'lda' and not sc['has']):
      want = ('raise', 'ValueError')
    elif sc['init'] == 'auto':
      if sc['has'] and k <= min(d, sc['classes'] - 1):
        want = ('return', forms['lda'])
      elif k < min(d, sc['n']):
        want = ('return', forms['pca'])
      else:
        want = ('return', forms['identity'])
    else:
      want = ('return', forms[sc['init']])
    w = _CompWorld(sc)
    env = dict(n_components=k, input=S('input'), y=S('y'),
               init=S('arr', 'caller') if sc['init'] == 'array'
               else sc['init'], verbose=False, random_state=S('seed'),
               has_classes=sc['has'])
    env = dict((a, b) for a, b in env.items() if a in ps)
    tag = ', '.join('%s=%s' % (a, sc[a]) for a in (
        'init', 'shape', 'has', 'k', 'classes', 'n') if sc[a] is not None)
    try:
      out = Interp(repo, f, w).run(env)
    except Undecided as u:
      unk = unk or '%s (%s)' % (u, tag)
      continue
    if out[0] == 'raise':
      got = ('raise', 'ValueError' if 'ValueError' in out[1] else out[1][0])
    else:
      got = ('return', out[1])
    if got != want:
      clause = sc['init']
      if clause not in bad:
        bad[clause] = ('for %s (d=%d): %s %r; documented: %s %r' % (
            tag, d, got[0], got[1], want[0], want[1]),
            out[2] if out[0] == 'raise' else None)
  for clause in ('array', 'identity', 'random', 'pca', 'lda', 'auto',
                 'bogus'):
    key = '_util._initialize_components:%s' % clause
    if clause in bad:
      rep.refuted(R, key, site(f, bad[clause][1])
                  if bad[clause][1] is not None else site(f), bad[clause][0])
    elif unk:
      rep.unknown(R, key, site(f), unk)
    else:
      rep.derived(R, key, site(f), sample=dict(rule=R, scenarios=len(scen)))
  rep.floor('components-init scenarios interpreted', len(scen), 200)


def rule_sqrt_domain(repo, rep):
  R = 'R-DOM:sqrt-of-clamped-spectrum'
  rep.rule(R, 'in components_from_metric and _inv_sqrtm-like conversions '
           'the PSD test only guarantees eigenvalues >= -tol, so every '
           'np.sqrt there is applied to a value that is non-negative by '
           'construction (np.maximum(0, .), np.clip(., 0, None), abs, a '
           'square): otherwise a matrix that is PSD up to rounding yields '
           'NaN')
  from .. import guards, astutil
  f = repo.get_func('_util.components_from_metric')
  if f is None:
    rep.unknown(R, '_util.components_from_metric', '', 'function vanished')
    return
  rep.analysed(f)
  # private helpers the conversion was split into count as its own lines
  try:
    f = astutil.inline_helpers(repo, f) or f
  except Exception:
    pass
  body = f.node.body
  pm = astutil.parents(f.node)

  def dotted(x):
    return repo.dotted(f.module, x)
  n = 0
  for call in astutil.calls_in(f.node):
    d = dotted(call.func) or ''
    if not (d.endswith('.sqrt') and d.startswith('numpy') and call.args):
      continue
    n += 1
    top = astutil.stmt_of(f.node, call)
    while top not in body and top in pm:
      top = pm[top]
    arg = astutil.unfold(call.args[0], body, top) if top in body \
        else call.args[0]
    sg = guards.sign_of(arg, {}, dotted)
    clip = isinstance(arg, ast.Call) and (dotted(arg.func) or '').endswith(
        '.clip') and len(arg.args) >= 2 and \
        guards.sign_of(arg.args[1], {}, dotted) in (guards.ZERO, guards.POS)
    key = '_util.components_from_metric:sqrt(%s)' % ast.unparse(
        call.args[0])[:30]
    if sg in (guards.POS, guards.NONNEG, guards.ZERO) or clip:
      rep.derived(R, key, site(f, call))
    else:
      rep.refuted(R, key, site(f, call), 'np.sqrt(%s): the argument is only '
                  'known to exceed -tol (the PSD test), an entry in '
                  '[-tol, 0) gives NaN' % ast.unparse(arg)[:60])
  rep.floor('square roots in components_from_metric', n, 2)


def rule_no_destructive_option(repo, rep):
  """scipy.linalg routines called with overwrite_a / overwrite_b / ... = True
  may destroy their input (LAPACK works in place when the memory layout
  allows: for Fortran-ordered arrays, not for the C-ordered ones the tests
  use).  The argument must then be dead: not read, returned or stored
  afterwards."""
  R = 'R-EFFECT:no-destructive-library-option-on-live-value'
  rep.rule(R, 'no library call asks for its input to be overwritten '
           '(overwrite_a / overwrite_b / overwrite_x / overwrite_input / '
           'overwrite_data = True) on a value that is used afterwards: the '
           'content is destroyed only for some memory layouts (Fortran order), '
           'so the tests on C-ordered arrays cannot see it')
  n = 0
  for f in repo.all_functions():
    for call in [c for c in ast.walk(f.node) if isinstance(c, ast.Call)]:
      kws = [k for k in call.keywords if k.arg and
             k.arg.startswith('overwrite_') and not (
                 isinstance(k.value, ast.Constant) and not k.value.value)]
      if not kws:
        continue
      n += 1
      key = '%s:%s' % (f.key, ast.unparse(call)[:50])
      names = [a.id for a in call.args if isinstance(a, ast.Name)]
      live = []
      after = False
      # statements in source order after the call's own statement
      own = None
      for st in ast.walk(f.node):
        if isinstance(st, ast.stmt) and any(x is call for x in ast.walk(st)) \
                and not isinstance(st, (ast.For, ast.While, ast.If, ast.With,
                                        ast.Try, ast.FunctionDef)):
          own = st
      for st in ast.walk(f.node):
        if not isinstance(st, ast.stmt) or own is None:
          continue
        if getattr(st, 'lineno', 0) > getattr(own, 'end_lineno', 0):
          for x in ast.walk(st):
            if isinstance(x, ast.Name) and isinstance(x.ctx, ast.Load) and \
                    x.id in names:
              live.append((x.id, st))
      in_loop = any(isinstance(p_, (ast.For, ast.While)) and
                    any(x is call for x in ast.walk(p_))
                    for p_ in ast.walk(f.node))
      fresh = all(isinstance(a, ast.Call) and isinstance(
          a.func, ast.Attribute) and a.func.attr in ('copy', 'astype')
          for a in call.args[:1]) and bool(call.args)
      if fresh and not names:
        rep.derived(R, key, site(f, call))
        continue
      if live or in_loop or not names:
        why = ('%s is read again at line %d' % (live[0][0], live[0][1].lineno)
               if live else 'the call is inside a loop' if in_loop else
               'the overwritten argument is not a plain local')
        rep.refuted(R, key, site(f, call), '%s asks the library to '
                    'overwrite its input, but %s: for a Fortran-ordered '
                    'array the later use sees destroyed content'
                    % (ast.unparse(call)[:60], why))
      else:
        rep.derived(R, key, site(f, call))
  if n == 0:
    rep.derived(R, 'package', '', sample=dict(rule=R, calls=0))
