"""C08 - supervised variants equal the base learner run on label-derived
constraints (same core function, documented generator and parameters, same
index frame, same hyper-parameters)."""
import ast
from ..model import FuncInfo
from ..engine import Engine, V, State, NOCONST
from ..tags import TagDomain, EMPTY
from ..frame import FrameDomain, is_idx, FULL
from .. import astutil
from .common import site
from . import c18
from .c07 import describe

PAIRS = [('ITML_Supervised', 'ITML'), ('MMC_Supervised', 'MMC'),
         ('SDML_Supervised', 'SDML'), ('LSML_Supervised', 'LSML'),
         ('RCA_Supervised', 'RCA'), ('SCML_Supervised', 'SCML')]


class FlowDomain(TagDomain):
  """hyper-parameter provenance + observation of generator calls."""

  def __init__(self):
    super().__init__()
    self.top_calls = []      # repo functions called from the entry method
    self.gen_calls = []      # (method name, {formal: tags/const}, site)

  def hyperparam(self, cls, name, node):
    return frozenset([('hyper', name)])

  def flow(self, tags):
    return frozenset(t for t in tags if t[0] != 'hyper') | \
        frozenset(('via', t[1]) for t in tags if t[0] == 'hyper')

  def on_call(self, kind, target, args, kwargs, node, st):
    super().on_call(kind, target, args, kwargs, node, st)
    if kind == 'repo' and len(self.eng.stack) == 1:
      self.top_calls.append(target.key)
    if kind == 'repo' and target.cls is not None and \
            target.cls.name == 'Constraints' and target.name in (
                'positive_negative_pairs', 'chunks', 'generate_knntriplets') \
            and len(self.eng.stack) == 1:
      formals = target.params()[1:]
      actual = {}
      for i, a in enumerate(args):
        if i < len(formals):
          actual[formals[i]] = a
      for k, v in kwargs.items():
        actual[k] = v
      self.gen_calls.append((target.name, actual, self.site(node)))


def rule_core(repo, rep):
  R = 'R-CALL:same-learner-core'
  rep.rule(R, 'X_Supervised.fit delegates to the very function that the '
           'weakly-supervised X.fit runs (the shared _fit / RCA.fit)')
  Rg = 'R-FLOW:documented-generator'
  rep.rule(Rg, 'constraints come from the documented Constraints generator '
           'with the estimator\'s hyper-parameters bound to the right formals '
           '(random_state=self.random_state; n_constraints or 20*n_classes^2 '
           'when None; same_length for LSML; n_chunks / chunk_size for RCA; '
           'k_genuine / k_impostor for SCML)')
  expect = {
      'ITML_Supervised': ('positive_negative_pairs',
                          {'random_state': 'random_state',
                           'n_constraints': 'n_constraints'}, {}),
      'MMC_Supervised': ('positive_negative_pairs',
                         {'random_state': 'random_state',
                          'n_constraints': 'n_constraints'}, {}),
      'SDML_Supervised': ('positive_negative_pairs',
                          {'random_state': 'random_state',
                           'n_constraints': 'n_constraints'}, {}),
      'LSML_Supervised': ('positive_negative_pairs',
                          {'random_state': 'random_state',
                           'n_constraints': 'n_constraints'},
                          {'same_length': True}),
      'RCA_Supervised': ('chunks', {'random_state': 'random_state',
                                    'n_chunks': 'n_chunks',
                                    'chunk_size': 'chunk_size'}, {}),
      'SCML_Supervised': ('generate_knntriplets',
                          {'k_genuine': 'k_genuine',
                           'k_impostor': 'k_impostor'}, {}),
  }
  for sup, base in PAIRS:
    cs, cb = repo.get_class(sup), repo.get_class(base)
    fs, fb = repo.resolve_method(cs, 'fit'), repo.resolve_method(cb, 'fit')
    db = FlowDomain()
    Engine(repo, db, self_cls=cb).run(fb)
    ds = FlowDomain()
    flow = Engine(repo, ds, self_cls=cs).run(fs)
    rep.analysed(fs)
    rep.analysed(fb)
    core = [k for k in db.top_calls if k.endswith('._fit')]
    core_key = core[0] if core else fb.key     # RCA: fit itself is the core
    ok = all(('call', core_key) in ds.must(st)
             for (v, st, n) in flow.returns) and flow.returns
    if ok:
      rep.derived(R, sup + '.fit', site(fs),
                  sample=dict(rule=R, supervised=sup, base=base,
                              shared_core=core_key))
    else:
      rep.refuted(R, sup + '.fit', site(fs), '%s.fit does not run %s on '
                  'every path (calls %s)' % (sup, core_key,
                                             sorted(set(ds.top_calls))))
    gname, hyper_map, consts = expect[sup]
    calls = [g for g in ds.gen_calls if g[0] == gname]
    if not calls:
      rep.refuted(Rg, sup + '.fit', site(fs), 'never calls Constraints.%s '
                  '(calls %s)' % (gname, [g[0] for g in ds.gen_calls]))
      continue
    for (_, actual, s) in calls:
      probs = []
      for formal, hp in hyper_map.items():
        v = actual.get(formal)
        if v is None:
          probs.append('%s is not passed (generator default used)' % formal)
          continue
        tags = set(v.d or ())
        hy = set(t[1] for t in tags if t[0] == 'hyper')
        via = set(t[1] for t in tags if t[0] == 'via')
        if formal == 'n_constraints':
          if hy != {hp} or (via - {hp}):
            probs.append('n_constraints derives from %s' % sorted(hy | via))
        elif hy != {hp} or via:
          probs.append('%s receives %s, documented self.%s' % (
              formal, sorted(hy | via) or 'a value not taken from the '
              'hyper-parameters', hp))
      for formal, cval in consts.items():
        v = actual.get(formal)
        if v is None or v.const() is not cval:
          probs.append('%s=%r is not passed' % (formal, cval))
      extra = set(actual) - set(hyper_map) - set(consts) - {'X'}
      if extra:
        probs.append('unexpected arguments %s' % sorted(extra))
      if probs:
        rep.refuted(Rg, sup + '.fit', s, '; '.join(probs))
      else:
        rep.derived(Rg, sup + '.fit', s)
    # default n_constraints = 20 * n_classes ** 2
    _default_n_constraints(repo, rep, sup, cs, fs, gname,
                           'n_constraints' in hyper_map)


class _Reached(Exception):
  pass


def _default_n_constraints(repo, rep, sup, cs, fs, gname, check_n=True):
  """interpret <sup>.fit up to the generator call for n_constraints in
  {None, 7} and 2, 3, 5 classes; the argument received by the generator is
  7, resp. 20 * classes ** 2 (any spelling, helper or inline)"""
  from ..minterp import Interp, World, Undecided, Lib
  from .c07b import S, tg
  Rd = 'R-INTERP:default-n-constraints'
  rep.rule(Rd, 'the supervised fit, interpreted up to its call of the '
           'constraint generator with n_constraints in {None, 7} and 2, 3, '
           '5 distinct labels, builds Constraints from the validated labels '
           'themselves and (where n_constraints exists) hands the generator '
           '7, resp. 20 * (number of classes) ** 2')
  init = repo.resolve_method(cs, '__init__')
  defaults = {}
  if init is not None:
    a = init.node.args
    names = [x.arg for x in a.args]
    for nm, dv in zip(names[len(names) - len(a.defaults):], a.defaults):
      try:
        defaults[nm] = ast.literal_eval(dv)
      except Exception:
        pass

  class W(World):
    def __init__(self, nc, classes):
      self.nc, self.classes, self.got = nc, classes, None
      self.labels_arg = S('y')

    def attr(self, it, v, attr, node):
      if v == S('self'):
        if attr == 'n_constraints':
          return self.nc
        if attr in defaults:
          return defaults[attr]
        return S('hp', attr)
      if v == S('uniq') and attr == 'size':
        return self.classes
      if v == S('uniq') and attr == 'shape':
        return (self.classes,)
      return NotImplemented

    def call(self, it, d, recv, args, kwargs, node):
      if d == 'isinstance' and len(args) == 2 and isinstance(args[1], Lib):
        t = {'int': int, 'float': float, 'str': str}.get(args[1].dotted)
        if t is not None and not isinstance(args[0], S):
          return isinstance(args[0], t) and not isinstance(args[0], bool)
      if d == 'type' and len(args) == 1:
        return S('type')
      if d == 'len' and args and args[0] == S('uniq'):
        return self.classes
      if d == 'len' and args and args[0] in (S('y'), S('X')):
        return 37           # number of samples: unrelated to the classes
      if d == 'set' and args and args[0] == S('y'):
        return S('uniq')
      if d.startswith('.'):
        if tg(recv) == 'cons' and d == '.' + gname:
          self.got = kwargs.get('n_constraints', args[0] if args else None)
          raise _Reached()
        if recv == S('self') and d == '._prepare_inputs':
          return (S('X'), S('y'))
        if recv == S('self') and d.startswith('._initialize_basis'):
          return (S('basis'), S('n_basis'))
        return NotImplemented
      if d.endswith('.Constraints') and d.startswith('metric_learn'):
        self.labels_arg = args[0] if args else kwargs.get('partial_labels')
        return S('cons')
      if d == 'numpy.unique' and args and args[0] == S('y') and not kwargs:
        return S('uniq')
      if d == 'numpy.unique' and args and args[0] == S('y') and \
              set(kwargs) == {'return_inverse'}:
        return (S('uniq'), S('y-reencoded'))
      if d == 'numpy.unique' and args and args[0] == S('y') and \
              set(kwargs) == {'return_counts'}:
        from ..minterp import Arr
        return (S('uniq'), Arr([3] * self.classes))
      if not d.startswith('metric_learn') and d not in ('len', 'set'):
        return S('lib', d)
      return NotImplemented

    def compare(self, it, op, a, b, node):
      return NotImplemented
  bad = unk = None
  for nc in (None, 7):
    for classes in (2, 3, 5):
      w = W(nc, classes)
      it = Interp(repo, fs, w)
      env = dict((p_, S(p_)) for p_ in fs.params())
      env['self'] = S('self')
      try:
        it.run(env)
        unk = unk or 'the generator call is not reached'
        continue
      except _Reached:
        pass
      except Undecided as u:
        unk = unk or str(u)
        continue
      want = 7 if nc is not None else 20 * classes ** 2
      if w.labels_arg != S('y'):
        bad = bad or 'Constraints receives %r instead of the validated ' \
            'labels: re-encoded labels lose the meaning of negative ' \
            '(unknown) values' % (w.labels_arg,)
      if check_n and w.got != want:
        bad = bad or 'with n_constraints=%r and %d classes the generator ' \
            'receives %r, documented %r' % (nc, classes, w.got, want)
  if bad:
    rep.refuted(Rd, sup + '.fit', site(fs), bad)
  elif unk:
    rep.unknown(Rd, sup + '.fit', site(fs), unk)
  else:
    rep.derived(Rd, sup + '.fit', site(fs))


def rule_frame(repo, rep):
  R = 'FRAME:constraints-index-the-prepared-points'
  rep.rule(R, 'the labels given to Constraints and the points indexed by '
           'the generated constraints are the pair returned by one '
           '_prepare_inputs call; every gather X[...] uses indices whose '
           'values are positions in that same array, restricted to points '
           'with a known label')
  for sup, base in PAIRS:
    cs = repo.get_class(sup)
    fs = repo.resolve_method(cs, 'fit')
    dom = FrameDomain()
    eng = Engine(repo, dom, self_cls=cs)
    eng.run(fs)
    key = sup + '.fit'
    data_g = [(F, iv, s) for (F, iv, s) in dom.gathers
              if s.split()[-1] in (fs.qualname, 'wrap_pairs')]
    if not data_g and sup != 'RCA_Supervised':
      rep.unknown(R, key, site(fs), 'no gather of the data array found')
    bad = False
    for (F, iv, s) in data_g:
      if is_idx(iv):
        if iv[1] == F == FULL and 'known' in iv[3]:
          continue
        bad = True
        rep.refuted(R, key, s, 'points are gathered from the prepared array '
                    'with ' + describe(iv))
      elif isinstance(iv, tuple) and iv[0] == 'mask' and iv[1] != F:
        bad = True
        rep.refuted(R, key, s, 'mask over frame %s applied to an array over '
                    '%s' % (iv[1], F))
    mis = [(F, iv, s) for (F, iv, s) in dom.gathers
           if (is_idx(iv) and iv[1] != F) or
           (isinstance(iv, tuple) and iv[0] == 'mask' and iv[1] != F)]
    for (F, iv, s) in mis:
      if not bad:
        bad = True
        rep.refuted(R, key, s, 'an array over frame %s is indexed by %s' % (
            F, describe(iv) if is_idx(iv) else 'a mask over %s' % (iv[1],)))
    if not bad:
      rep.derived(R, key, site(fs),
                  sample=dict(rule=R, estimator=sup, gathers=len(dom.gathers)))

class KnownDomain(TagDomain):
  """Which values of the data array reach the learner: 'Xall' = may depend on
  the feature values of every row (unlabelled ones included); a gather with a
  mask `labels != -1` / `labels >= 0` or with indices returned by a
  Constraints generator (restricted to known labels: FRAME rule) gives
  'Xknown'.  .shape[1] / .shape[-1] carry nothing; .shape[0] / len() carry
  'nrows' (the number of rows counts the unlabelled points)."""
  GEN = ('positive_negative_pairs', 'chunks', 'generate_knntriplets')

  def __init__(self, core_keys):
    super().__init__()
    self.core_keys = core_keys
    self.sinks = []     # (what, tags, site)

  def summary(self, target, args, kwargs, node, st):
    if target.name == '_prepare_inputs' and target.cls is not None:
      x = args[1] if len(args) > 1 else kwargs.get('X')
      y = args[2] if len(args) > 2 else kwargs.get('y')
      if y is None:
        return x
      return V(self._u(x, y), elts=(x, y))
    if target.key in self.core_keys and len(self.eng.stack) >= 1 and \
            self.eng.stack[0].key != target.key:
      self.sinks.append(('argument of ' + target.qualname,
                         self._u(*args[1:], *kwargs.values()),
                         self.site(node)))
      return V(EMPTY)
    return None

  def call_result(self, func, ret, node, st):
    if func.cls is not None and func.cls.name == 'Constraints' and \
            func.name in self.GEN:
      def mark(v):
        return V(self._u(v) | {'gen'},
                 elts=None if v.elts is None else tuple(mark(e)
                                                        for e in v.elts))
      return mark(ret)
    return ret

  def compare(self, ops, vals, node, st):
    t = self._u(*vals)
    if len(ops) == 1 and len(vals) == 2 and 'lab' in self._u(vals[0]):
      c = vals[1].const() if vals[1].c is not NOCONST else NOCONST
      if (isinstance(ops[0], ast.NotEq) and c == -1) or \
              (isinstance(ops[0], ast.GtE) and c == 0) or \
              (isinstance(ops[0], ast.Gt) and c == -1):
        return t | {'knownmask'}
    return t

  def attr(self, v, name, node, st):
    if name == 'shape':
      return frozenset(['shape']) if self._u(v) & {'Xall', 'nrows'} else \
          self._u(v) - {'Xknown'}
    if name in ('dtype', 'ndim'):
      return EMPTY
    return self._u(v)

  def subscript(self, v, idx, node, st):
    tv = self._u(v)
    if 'shape' in tv:
      if len(idx) == 1 and idx[0][0] == 'expr' and \
              idx[0][1].c is not NOCONST and idx[0][1].const() in (1, -1):
        return EMPTY
      return frozenset(['nrows'])
    ti = self._u(*self._idx_vals(idx))
    if 'Xall' in tv and idx and idx[0][0] == 'expr' and \
            self._u(idx[0][1]) & {'knownmask', 'gen'}:
      return (tv - {'Xall'}) | {'Xknown'} | (ti - {'knownmask', 'gen'})
    return tv | (ti - {'knownmask', 'gen'})

  def ext_call(self, dotted, args, kwargs, node, st, eng):
    t = self._u(*args, *kwargs.values())
    if dotted == 'len' and t & {'Xall'}:
      return frozenset(['nrows'])
    return t - {'knownmask'}

  def method_call(self, recv, name, args, kwargs, node, st, eng):
    t = self._u(recv, *args, *kwargs.values()) - {'knownmask'}
    # a library estimator fitted in place remembers what it was fitted on
    if name in ('fit', 'partial_fit', 'fit_transform') and \
            isinstance(node.func, ast.Attribute) and \
            isinstance(node.func.value, ast.Name) and \
            node.func.value.id in st.vars:
      old = st.vars[node.func.value.id]
      st.vars[node.func.value.id] = V(self._u(old) | t, c=old.c, ty=old.ty,
                                      obj=old.obj, fn=old.fn)
    return t

  def on_store_attr(self, objv, attr, val, node, st):
    super().on_store_attr(objv, attr, val, node, st)
    if objv.obj is not None and objv.obj.oid == 'self' and \
            attr == 'components_':
      self.sinks.append(('self.components_', self._u(val), self.site(node)))


def rule_unlabelled(repo, rep):
  R = 'R-FLOW:unlabelled-points-do-not-reach-the-learner'
  rep.rule(R, 'in X_Supervised.fit the feature values of the prepared data '
           'reach the base algorithm (arguments of the shared _fit, or the '
           'stored components_ for RCA) only through gathers restricted to '
           'known labels: X[<indices from a Constraints generator>] or '
           'X[<labels != -1>]; the number of rows is not used either')
  n_sup = 0
  for sup, base in PAIRS:
    cs = repo.get_class(sup)
    fs = repo.resolve_method(cs, 'fit')
    cb = repo.get_class(base)
    core = repo.resolve_method(cs, '_fit')
    core_keys = set([core.key]) if core is not None else set()
    dom = KnownDomain(core_keys)
    eng = Engine(repo, dom, self_cls=cs)
    params = fs.params()
    args = {params[1]: V(frozenset(['Xall'])),
            params[2]: V(frozenset(['lab']))}
    eng.run(fs, args=args)
    key = sup + '.fit'
    n_sup += bool(dom.sinks)
    if not dom.sinks:
      rep.unknown(R, key, site(fs), 'no hand-off to the base algorithm found')
      continue
    bad = [(w, t, s_) for (w, t, s_) in dom.sinks if t & {'Xall', 'nrows'}]
    seen = set()
    for (w, t, s_) in bad:
      if (w, s_) in seen:
        continue
      seen.add((w, s_))
      rep.refuted(R, key + ':' + w, s_, '%s depends on %s' % (
          w, 'the feature values of all rows of X, unlabelled ones included'
          if 'Xall' in t else 'the number of rows of X, unlabelled ones '
          'included'))
    if not bad:
      rep.derived(R, key, site(fs), sample=dict(
          rule=R, estimator=sup, sinks=[w for (w, t, s_) in dom.sinks]))
  rep.floor('supervised fits with a hand-off to the base algorithm', n_sup, 6)


def rule_core_kwargs(repo, rep):
  R = 'R-FLOW:core-receives-hyper-parameters'
  rep.rule(R, 'a keyword argument that the supervised fit hands to the '
           'shared core (_fit) under the name of a constructor parameter or '
           'of a parameter of fit is that value itself (self.<name>, resp. '
           'the unmodified argument): a value recomputed by '
           'the wrapper (e.g. default bounds from its own view of the data) '
           'makes the supervised fit differ from the base learner on the '
           'same constraints')
  n = 0
  for sup, base in PAIRS:
    cs = repo.get_class(sup)
    fs = repo.resolve_method(cs, 'fit')
    init = repo.resolve_method(cs, '__init__')
    ctor = set(init.params()[1:]) if init is not None else set()
    calls = [c for c in astutil.calls_in(fs.node)
             if isinstance(c.func, ast.Attribute) and c.func.attr == '_fit']
    for c in calls:
      for k in c.keywords:
        fparams = set(fs.params())
        if k.arg is None or (k.arg not in ctor and k.arg not in fparams):
          continue
        assigned = any(isinstance(x, ast.Name) and x.id == k.arg and
                       isinstance(x.ctx, ast.Store)
                       for x in ast.walk(fs.node))
        n += 1
        key = '%s.fit:%s' % (sup, k.arg)
        body = fs.node.body
        top = astutil.stmt_of(fs.node, c)
        pm = astutil.parents(fs.node)
        while top not in body and top in pm:
          top = pm[top]
        v = astutil.unfold(k.value, body, top) if top in body else k.value
        if k.arg in ctor and ast.unparse(v) == 'self.%s' % k.arg:
          rep.derived(R, key, site(fs, c))
        elif k.arg in fparams and not assigned and \
                ast.unparse(k.value) == k.arg:
          rep.derived(R, key, site(fs, c))
        else:
          rep.refuted(R, key, site(fs, c), 'the core receives %s=%s, not '
                      'the caller\'s %s' % (k.arg, ast.unparse(v)[:80],
                                            k.arg))
  rep.floor('hyper-parameter keywords handed to the core', n, 2)


def check(repo, rep, tier):
  rule_core(repo, rep)
  rule_frame(repo, rep)
  rule_unlabelled(repo, rep)
  rule_core_kwargs(repo, rep)
  from . import c07b
  c07b.rule_wrap_pairs(repo, rep)
  # "with the same hyper-parameters": fitting the supervised variant leaves
  # the hyper-parameter objects it shares with the base learner untouched
  from . import c17 as _c17
  before = len(rep.obs)
  _c17.rule_writes(repo, rep)
  sup = tuple(p[0] + '.fit' for p in PAIRS)
  rep.obs[before:] = [o for o in rep.obs[before:]
                      if o['construct'].startswith(sup)]
  rep.floors = [fl for fl in rep.floors if 'in-place' not in fl[0]]
  c18.rule_ctor(repo, rep, only=[p[0] for p in PAIRS])
