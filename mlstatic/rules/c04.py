"""C04 - tuple classifiers decide exactly by comparing learned distances
(symbolic identity of the whole decision rule, ties included)."""
from fractions import Fraction
from ..model import FuncInfo
from ..engine import Engine, V, NOCONST
from ..algebra import UNKNOWN, Poly, Lin, Quad, Cmp, Tup, A
from .c01 import new_dom, LT_L, L, has_unknown
from .common import site

LT = L.transpose()


def dist(base, i, j):
  D = {A('%s[%d]' % (base, i), 'rows'): Fraction(1),
       A('%s[%d]' % (base, j), 'rows'): Fraction(-1)}
  return ('dist', Quad(D, LT_L, gram=next(iter(LT.terms))))


def c04_dom():
  """C04 is about the decision rules *given* the learned distance: the
  body of MahalanobisMixin.pair_distance (decided by C01/C02) is summarised
  as the distance atom D(slot_i, slot_j) of the 2-slot tuple it receives."""
  dom = new_dom()

  def pd(args, kwargs):
    p = args[1] if len(args) > 1 else kwargs.get('pairs')
    if p is not None and isinstance(p.d, Tup) and p.d.slots is not None and \
            len(p.d.slots) == 2:
      return Lin({dist(p.d.base, p.d.slots[0], p.d.slots[1]): 1})
    return None
  dom.summaries['base_metric.MahalanobisMixin.pair_distance'] = pd
  return dom


def run(repo, c, name, args):
  f = repo.resolve_method(c, name)
  if not isinstance(f, FuncInfo):
    return None, None, None, None
  dom = new_dom()
  eng = Engine(repo, dom, self_cls=c)
  flow = eng.run(f, args=args)
  return f, dom, eng, flow


def compare(rep, rule, key, f, forms, want, what):
  if not forms:
    rep.refuted(rule, key, site(f), 'no normal exit')
  for d in forms:
    if has_unknown(d):
      rep.unknown(rule, key, site(f), 'normal form not derivable')
    elif d == want:
      rep.derived(rule, key, site(f),
                  sample=dict(rule=rule, method=key, normal_form=repr(d)))
    else:
      rep.refuted(rule, key, site(f), '%s normalises to %r, documented %r'
                  % (what, d, want))


def rule_current_preprocessor(repo, rep):
  # decisions on index tuples are taken on the points of the preprocessor
  # given to this estimator now: fit rebuilds the wrapper every time
  # (typestate rule of C17, pair / triplet / quadruplet classifiers only)
  from . import c17
  before = len(rep.obs)
  c17.rule_history(repo, rep)
  names = ('ITML', 'MMC', 'SDML', 'SCML', 'LSML')
  rep.obs[before:] = [o for o in rep.obs[before:]
                      if o['construct'].startswith(names)]


def check(repo, rep, tier):
  rule_current_preprocessor(repo, rep)
  # the prediction of a tuple is a function of THAT tuple: the distance atoms
  # D(i, j) of the decision rules are computed for every pair of a batch
  from . import c06b
  c06b.rule_pair_distance_covers(repo, rep)
  R = 'R-FORM:decision-rule'
  rep.rule(R, 'decision_function / predict / score of the tuple classifiers '
           'normalise (comparison operators, slot indices, signs kept exact) '
           'to the documented forms over learned-distance atoms D(i,j) and '
           'threshold_')
  Rs = 'R-EFFECT:set_threshold'
  rep.rule(Rs, 'set_threshold stores float(threshold) as threshold_, nothing '
           'else, and returns the estimator')
  thr = Lin.atom(('sym', 'threshold_'))
  n = 0
  for cname, t in (('ITML', 2), ('MMC', 2), ('SDML', 2), ('SCML', 3),
                   ('LSML', 4)):
    c = repo.get_class(cname)
    _, ts = repo.class_attr(c, '_tuple_size')
    tup = V(Tup('T', list(range(t))), origin=('param', 'tuples'))
    yv = V(UNKNOWN, origin=('param', 'y'))
    if t == 2:
      d01 = dist('T', 0, 1)
      want_df = Lin({d01: -1})
      want_pred = Lin({('ind', Cmp(Lin({d01: 1}).add(thr, -1), '<=')): 2}, -1)
      want_score = Lin({('roc_auc', ('labels', ('param', 'y')), want_df): 1})
    elif t == 3:
      want_df = Lin({dist('T', 0, 2): 1, dist('T', 0, 1): -1})
      want_pred = Lin({('ind', Cmp(want_df, '>')): 2}, -1)
      want_score = Lin({('mean', want_pred): Fraction(1, 2)}, Fraction(1, 2))
    else:
      want_df = Lin({dist('T', 2, 3): 1, dist('T', 0, 1): -1})
      want_pred = Lin({('sign', want_df): 1})
      want_score = Lin({('mean', want_pred): Fraction(1, 2)}, Fraction(1, 2))
    for name, want in (('decision_function', want_df),
                       ('predict', want_pred), ('score', want_score)):
      f = repo.resolve_method(c, name)
      if not isinstance(f, FuncInfo):
        rep.unknown(R, '%s.%s' % (cname, name), '', 'method not found')
        continue
      ps = f.params()[1:]
      args = {ps[0]: tup}
      if len(ps) > 1:
        args[ps[1]] = yv
      dom = c04_dom()
      eng = Engine(repo, dom, self_cls=c)
      st0 = None
      if name == 'predict' and t == 2:
        # threshold_ present (the guard is C18's business)
        from ..engine import State
        st0 = State({('self', 'threshold_'): V(thr, origin=('attr',
                                                             'threshold_'))},
                    dom.aux_init())
      flow = eng.run(f, args=args, state=st0)
      rep.analysed(f)
      n += 1
      compare(rep, R, '%s.%s' % (cname, name), f,
              [v.d for (v, s, nd) in flow.returns], want, name)
    if t == 2:
      f = repo.resolve_method(c, 'set_threshold')
      dom = new_dom()
      eng = Engine(repo, dom, self_cls=c)
      tv = V(Lin.atom(('sym', 'thr')), origin=('param', 'threshold'))
      flow = eng.run(f, args={'threshold': tv})
      rep.analysed(f)
      key = cname + '.set_threshold'
      ok = bool(flow.returns)
      detail = 'no normal exit'
      for (v, s, nd) in flow.returns:
        cur = s.vars.get(('self', 'threshold_'))
        stores = set(e[2] for e in dom.may(s) if e[0] == 'store' and
                     e[1] == 'self')
        floats = ('call', 'builtins.float') in dom.must(s)
        if cur is None or cur.d != tv.d or not floats:
          ok, detail = False, ('threshold_ is not float(threshold) on a '
                               'path (holds %r)' % (cur.d if cur else None))
        elif stores != {'threshold_'}:
          ok, detail = False, 'set_threshold also stores %s' % sorted(
              stores - {'threshold_'})
        elif not (v.obj is not None and v.obj.oid == 'self'):
          ok, detail = False, 'set_threshold does not return the estimator'
      rep.add(Rs, key, 'derived' if ok else 'refuted', site(f),
              '' if ok else detail)
  rep.floor('decision-rule forms evaluated', n, 15)
